//! C12 — 2PC key locks: one holder at a time, none left behind, deadlocks detected.
//!
//! Real `LockManager`, `WaitForGraph`, `DeadlockDetector` and the
//! `DistributedTxCoordinator` paths `handle_prepare`/`record_vote`/`commit`/
//! `abort`/`cleanup_timeouts` (no WAL). Three configurations:
//!
//! * `Lm`    — 0..6 baton-scheduled threads run short programs of lock-manager
//!             calls over <= 4 keys, then a sequential tail program runs on the
//!             quiescent system (threads = [] gives the purely sequential
//!             configuration incl. serialize/restore).
//! * `Coord` — the same with the coordinator-level operations.
//! * `Part`  — a real `TxParticipant` (its own `LockManager` and store) receiving
//!             prepares (first, retransmitted identical, changed), commits and
//!             aborts from 0..3 threads, then a sequential tail; the same model
//!             and search judge its lock manager.
//! * `Graph` — sequential wait-for graphs on <= 8 transactions through
//!             `add_wait`/`remove_wait`/`remove_transaction`/`cleanup_stale_edges`.
//!
//! The wait-for graph of `Lm` and `Graph` is the one owned by a
//! `DeadlockDetector` whose whole `DeadlockDetectorConfig` is part of the case
//! (`Case::policy`, `Case::cap`, `Case::det`), small values included.
//!
//! Oracle: a reference model key -> (owner, handle, acquired_at) plus the
//! simulated clock. Every lock-manager call is recorded with an invoke and a
//! return stamp; the concurrent history is accepted iff SOME linearization
//! consistent with the real-time order explains every result and the state
//! observed at quiescence (Wing-Gong search; a clock advance is an operation of
//! the history, so expiry is judged with exactly the clock value the code could
//! have read). The sequential tail is checked call by call.

use crate::ctx::RunCtx;
use crate::driver::{drop_chunks, RunOut, Scenario, Tier, Violation};
use crate::rng::Rng;
use crate::sched;
use serde::{Deserialize, Serialize};
use serde_json::{json, Value};
use std::collections::{BTreeMap, BTreeSet};
use std::sync::{Arc, Mutex};
use std::time::Duration;
use tensor_chain::{
    ConsensusConfig, ConsensusManager, DeadlockDetector, DeadlockDetectorConfig, DistributedTxConfig,
    DistributedTxCoordinator, LockManager, PrepareRequest, PrepareVote, SerializableLockState, Transaction, TxParticipant,
    VictimSelectionPolicy, WaitForGraph,
};

#[derive(Serialize, Deserialize, Clone, Debug, PartialEq)]
pub enum Mode {
    Lm,
    Coord,
    Graph,
    /// a real `TxParticipant` (own lock manager, own store) receiving prepares,
    /// commits and aborts
    Part,
}

#[derive(Serialize, Deserialize, Clone, Debug, PartialEq)]
pub enum Op {
    // ---- lock-manager level (Lm) ----
    Lock { tx: u8, keys: u8 },
    LockWt { tx: u8, keys: u8, prio: Option<u8> },
    Release { tx: u8 },
    /// release the (pick mod n)-th handle granted so far; wc = with wait cleanup
    RelHandle { pick: u8, wc: bool },
    /// end of transaction: plain = release(tx) + remove_transaction(tx);
    /// otherwise release_by_handle_with_wait_cleanup for every handle granted
    /// to tx, then remove_transaction(tx)
    Finish { tx: u8, plain: bool },
    Sweep { wc: bool },
    // ---- both ----
    Advance { ms: u32 },
    Observe { key: u8 },
    Detect,
    /// serialize + restore the lock state (sequential tail of Lm only)
    SaveRestore,
    // ---- coordinator level (Coord) ----
    Prepare { tx: u8, shard: u8, keys: u8 },
    Commit { tx: u8 },
    Abort { tx: u8 },
    Timeouts,
    // ---- Graph ----
    AddWait { w: u8, h: u8, prio: Option<u8> },
    RemoveWait { w: u8, h: u8 },
    RemoveTx { t: u8 },
    Check,
    /// `cleanup_stale_edges(config.edge_ttl_ms)`
    CleanStale,
    // ---- participant level (Part) ----
    /// `TxParticipant::prepare` of one operation per key of the mask; val 0 =
    /// Delete, otherwise Put of that byte. The same (tx, keys, val) again is a
    /// retransmission of the identical request.
    PPrepare { tx: u8, keys: u8, val: u8 },
    PCommit { tx: u8 },
    PAbort { tx: u8 },
}

/// The fields of `DeadlockDetectorConfig` that `Case::policy` / `Case::cap` do
/// not carry. `Default` = the detector's own defaults (old replay files).
#[derive(Serialize, Deserialize, Clone, Debug, Default, PartialEq)]
pub struct DetCase {
    /// max_cycle_length; 0 = the default (100)
    #[serde(default)]
    pub max_cycle_len: u8,
    /// victim_cascade_depth; None = the default (3)
    #[serde(default)]
    pub cascade_depth: Option<u8>,
    /// enabled = !disabled
    #[serde(default)]
    pub disabled: bool,
    /// auto_abort_victim = !no_auto_abort
    #[serde(default)]
    pub no_auto_abort: bool,
    /// detection_interval_ms; 0 = the default (100)
    #[serde(default)]
    pub interval_ms: u32,
    /// edge_ttl_ms; 0 = the default (30 000)
    #[serde(default)]
    pub edge_ttl_ms: u32,
}

#[derive(Serialize, Deserialize, Clone, Debug)]
pub struct Case {
    pub mode: Mode,
    /// Lm: lock timeout; Coord: prepare (transaction) timeout
    pub timeout_ms: u64,
    /// Coord: transactions begun in the setup; Graph: size of the universe
    pub ntx: u8,
    pub nshards: u8,
    pub threads: Vec<Vec<Op>>,
    pub schedule: Vec<u8>,
    pub tail: Vec<Op>,
    /// Lm, Graph: victim policy 0..3, per-tx edge cap (0 = default 50), lock counts for MostLocks
    pub policy: u8,
    pub cap: u8,
    pub lock_counts: Vec<u8>,
    /// Lm, Graph: the rest of the detector's configuration
    #[serde(default)]
    pub det: DetCase,
}

pub struct C12;

const NKEYS: u8 = 4;
const COORD_LOCK_TIMEOUT_MS: u64 = 30_000;

fn key_name(k: u8) -> String {
    format!("k{}", k % NKEYS)
}
fn key_index(s: &str) -> u8 {
    s.trim_start_matches('k').parse::<u8>().unwrap_or(255)
}
fn keys_of(mask: u8) -> Vec<u8> {
    (0..NKEYS).filter(|k| mask & (1 << k) != 0).collect()
}

// ------------------------------------------------------------------------
// history
// ------------------------------------------------------------------------

#[derive(Clone, Debug, PartialEq)]
enum Call {
    TryLock { tx: u64, keys: Vec<u8>, wt: bool },
    Release { tx: u64 },
    RelHandle { h: u64 },
    Sweep { check_count: bool, wc: bool },
    Advance { ms: u64 },
    ObserveKey { key: u8 },
    ObserveAll,
}

#[derive(Clone, Debug, PartialEq)]
enum Res {
    Granted(u64),
    Conflict { blocker: u64, keys: Vec<u8> },
    Unit,
    Count(usize),
    Holder(Option<u64>),
    /// key -> (tx, handle, acquired_at_ms), expired entries included
    All(BTreeMap<u8, (u64, u64, u64)>),
}

#[derive(Clone, Debug)]
struct HOp {
    call: Call,
    res: Res,
    inv: usize,
    ret: usize,
    thread: usize,
    /// the call may or may not have taken effect (both are explored)
    optional: bool,
}

#[derive(Clone, Copy, Debug, PartialEq)]
enum RecKind {
    Act,
    /// a lock request of `tx` that was refused because of `blocker` (wait edge recorded)
    WaitConflict(u64),
    /// release with wait cleanup of one handle of tx
    WcRelease,
    Finish(&'static str),
}

/// program-level operation on behalf of one transaction
#[derive(Clone, Debug)]
struct Rec {
    tx: u64,
    inv: usize,
    ret: usize,
    kind: RecKind,
}

#[derive(Default)]
struct Hist {
    tick: usize,
    calls: Vec<HOp>,
    recs: Vec<Rec>,
}

// ------------------------------------------------------------------------
// reference model of the lock table
// ------------------------------------------------------------------------

#[derive(Clone, Debug, PartialEq, Eq, PartialOrd, Ord)]
struct Model {
    now: u64,
    timeout: u64,
    /// key -> (owner, handle, acquired_at)
    locks: BTreeMap<u8, (u64, u64, u64)>,
    /// model time of the last own action of a transaction
    last_act: BTreeMap<u64, u64>,
    /// transactions that lost a lock through expiry (swept or taken over) while
    /// silent since before that lock expired, and have not acted since
    lost: BTreeSet<u64>,
    /// members of `lost` that lost a lock through a call that has no access to
    /// the wait-for graph (plain try_lock takeover, plain cleanup_expired)
    lost_nograph: BTreeSet<u64>,
}

#[derive(Default, Debug)]
struct Effects {
    partial_overlap_conflict: bool,
    takeover: bool,
    swept: usize,
    /// owners of the locks an explicit release_by_handle removed
    released: Vec<u64>,
}

impl Model {
    fn new(now: u64, timeout: u64) -> Self {
        Model { now, timeout, locks: BTreeMap::new(), last_act: BTreeMap::new(), lost: BTreeSet::new(), lost_nograph: BTreeSet::new() }
    }
    /// exactly `KeyLock::is_expired`: now - acquired > timeout
    fn expired(&self, acq: u64) -> bool {
        self.now.saturating_sub(acq) > self.timeout
    }
    fn note_lost(&mut self, tx: u64, acq: u64, graph_aware: bool) {
        let silent = self.last_act.get(&tx).copied().unwrap_or(0) <= acq + self.timeout;
        if silent {
            self.lost.insert(tx);
        }
        // whichever lock it was: a call without the wait-for graph took a lock of
        // this transaction away, so the manager had no chance to clean the graph
        // when the transaction's LAST lock went (that may have been this one)
        if !graph_aware {
            self.lost_nograph.insert(tx);
        }
    }
    fn acted(&mut self, tx: u64) {
        self.lost.remove(&tx);
        self.lost_nograph.remove(&tx);
        self.last_act.insert(tx, self.now);
    }
    fn holder(&self, k: u8) -> Option<u64> {
        self.locks.get(&k).filter(|l| !self.expired(l.2)).map(|l| l.0)
    }
    fn holds_any(&self, tx: u64) -> bool {
        self.locks.values().any(|l| l.0 == tx)
    }

    /// Sequential specification. Err = this call with this result is not
    /// possible in this state.
    fn apply(&mut self, call: &Call, res: &Res) -> Result<Effects, String> {
        let mut eff = Effects::default();
        match (call, res) {
            (Call::TryLock { tx, keys, wt }, r) => {
                // "a prepare that meets a held key is refused with a conflict rather than granted"
                let blockers: Vec<(u8, u64)> = keys
                    .iter()
                    .filter_map(|k| self.locks.get(k).filter(|l| l.0 != *tx && !self.expired(l.2)).map(|l| (*k, l.0)))
                    .collect();
                self.acted(*tx);
                match r {
                    Res::Granted(h) => {
                        // a vote repeated under a handle granted earlier (a participant may
                        // answer a retransmitted prepare that way) grants nothing new: it is
                        // right exactly when "all keys of that prepare are held by that
                        // transaction unexpired at that moment" under that handle; anything
                        // else is judged as the grant it claims to be
                        let repeat = !keys.is_empty() && keys.iter().all(|k| self.locks.get(k).is_some_and(|l| l.0 == *tx && l.1 == *h && !self.expired(l.2)));
                        if repeat {
                            return Ok(eff);
                        }
                        if let Some((k, o)) = blockers.first() {
                            return Err(format!("granted although k{k} is held by unexpired tx {o}"));
                        }
                        for k in keys {
                            if let Some(old) = self.locks.get(k).copied() {
                                if old.0 != *tx {
                                    eff.takeover = true;
                                    self.note_lost(old.0, old.2, *wt);
                                }
                            }
                            self.locks.insert(*k, (*tx, *h, self.now));
                        }
                        Ok(eff)
                    },
                    Res::Conflict { blocker, keys: ck } => {
                        // "granting is all-or-nothing": a refusal leaves the table unchanged
                        if blockers.is_empty() {
                            return Err("refused although every requested key is free, expired or its own".into());
                        }
                        if !blockers.iter().any(|(_, o)| o == blocker) {
                            return Err(format!("refused naming tx {blocker}, which holds none of the requested keys"));
                        }
                        for k in ck {
                            if !blockers.iter().any(|(bk, _)| bk == k) {
                                return Err(format!("refusal lists k{k} as conflicting, which is not held by another unexpired tx"));
                            }
                        }
                        eff.partial_overlap_conflict = blockers.len() < keys.len();
                        Ok(eff)
                    },
                    _ => Err("bad result kind".into()),
                }
            },
            (Call::Release { tx }, _) => {
                self.locks.retain(|_, l| l.0 != *tx);
                self.acted(*tx);
                Ok(eff)
            },
            (Call::RelHandle { h }, _) => {
                // an explicit release is an action of the owner: it has not merely timed out
                let owners: BTreeSet<u64> = self.locks.values().filter(|l| l.1 == *h).map(|l| l.0).collect();
                for o in owners {
                    self.acted(o);
                    eff.released.push(o);
                }
                self.locks.retain(|_, l| l.1 != *h);
                Ok(eff)
            },
            (Call::Sweep { check_count, wc }, r) => {
                let gone: Vec<(u8, (u64, u64, u64))> = self.locks.iter().filter(|(_, l)| self.expired(l.2)).map(|(k, l)| (*k, *l)).collect();
                if *check_count {
                    if let Res::Count(n) = r {
                        if *n != gone.len() {
                            return Err(format!("sweep reports {n} expired locks, {} were expired", gone.len()));
                        }
                    }
                }
                for (k, l) in &gone {
                    self.locks.remove(k);
                    self.note_lost(l.0, l.2, *wc);
                }
                eff.swept = gone.len();
                Ok(eff)
            },
            (Call::Advance { ms }, _) => {
                self.now += ms;
                Ok(eff)
            },
            (Call::ObserveKey { key }, Res::Holder(h)) => {
                let exp = self.holder(*key);
                if exp == *h {
                    Ok(eff)
                } else {
                    Err(format!("lock_holder(k{key}) = {h:?}, model {exp:?}"))
                }
            },
            (Call::ObserveAll, Res::All(m)) => {
                if *m == self.locks {
                    Ok(eff)
                } else {
                    Err(format!("lock table {m:?}, model {:?}", self.locks))
                }
            },
            _ => Err("bad call/result pair".into()),
        }
    }
}

// ------------------------------------------------------------------------
// linearizability search (Wing & Gong with memoisation)
// ------------------------------------------------------------------------

struct Search<'a> {
    ops: &'a [HOp],
    memo: BTreeSet<(u128, Model)>,
    nodes: u64,
    budget: u64,
    best_depth: usize,
    best_stuck: Vec<(usize, String)>,
    order: Vec<usize>,
}

impl<'a> Search<'a> {
    fn run(&mut self, done: u128, model: &Model) -> Option<Model> {
        let n = self.ops.len();
        if done.count_ones() as usize == n {
            return Some(model.clone());
        }
        self.nodes += 1;
        if self.nodes > self.budget {
            return None;
        }
        if !self.memo.insert((done, model.clone())) {
            return None;
        }
        let min_ret = (0..n).filter(|i| done & (1u128 << i) == 0).map(|i| self.ops[i].ret).min().unwrap_or(usize::MAX);
        let mut cands: Vec<usize> = (0..n).filter(|i| done & (1u128 << i) == 0 && self.ops[*i].inv < min_ret).collect();
        cands.sort_by_key(|i| self.ops[*i].ret);
        let mut stuck = Vec::new();
        for i in cands {
            if self.ops[i].optional {
                if let Some(f) = self.run(done | (1u128 << i), model) {
                    return Some(f);
                }
                if self.nodes > self.budget {
                    return None;
                }
            }
            let mut m = model.clone();
            match m.apply(&self.ops[i].call, &self.ops[i].res) {
                Ok(_) => {
                    self.order.push(i);
                    if let Some(f) = self.run(done | (1u128 << i), &m) {
                        return Some(f);
                    }
                    self.order.pop();
                    if self.nodes > self.budget {
                        return None;
                    }
                },
                Err(e) => stuck.push((i, e)),
            }
        }
        let depth = done.count_ones() as usize;
        if depth >= self.best_depth && !stuck.is_empty() {
            self.best_depth = depth;
            self.best_stuck = stuck;
        }
        None
    }
}

// ------------------------------------------------------------------------
// the world: real objects + recorder
// ------------------------------------------------------------------------

struct Vote {
    tx: u64,
    handle: u64,
    /// stamps of the record_vote call carrying this handle (ret/ok unknown while in flight)
    inv: usize,
    ret: Option<usize>,
    ok: Option<bool>,
}

struct World {
    ctx: Arc<RunCtx>,
    mode: Mode,
    lm_own: Mutex<Arc<LockManager>>,
    /// Lm: the detector (configured from the case) whose graph the lock manager records into
    det: DeadlockDetector,
    detp: DetParams,
    coord: Option<DistributedTxCoordinator>,
    /// Part: the participant; its `locks` is the lock manager under test
    part: Option<TxParticipant>,
    /// Part: tx -> (handle, keys, val) of its latest Yes vote not yet followed by commit/abort
    part_rec: Mutex<BTreeMap<u64, (u64, u8, u8)>>,
    /// handles of earlier Yes votes of a transaction that is still prepared
    part_earlier: Mutex<BTreeMap<u64, Vec<u64>>>,
    /// Part: threads of the concurrent phase (a transaction is driven by thread (id-1) % n only)
    part_threads: usize,
    /// Part, sequential context: a Yes vote that the lock table read back at once does not bear out
    part_violation: Mutex<Option<Violation>>,
    /// Coord: index -> generated transaction id
    txids: Vec<u64>,
    timeout_ms: u64,
    hist: Mutex<Hist>,
    /// Lm: (tx, handle) in grant order
    handles: Mutex<Vec<(u64, u64)>>,
    votes: Mutex<Vec<Vote>>,
    /// canonical names of the process-global handle numbers (first-seen order)
    hnames: Mutex<BTreeMap<u64, usize>>,
}

/// `generate_tx_id` mixes two process-global statics (last timestamp, overflow
/// counter) into the id. Begins are done in the sequential setup under this
/// gate, each preceded by a dummy id at another millisecond, so that the
/// overflow component is 0 whatever other runs of this process did.
static TXID_GATE: Mutex<()> = Mutex::new(());

impl World {
    fn with_lm<R>(&self, f: impl FnOnce(&LockManager) -> R) -> R {
        if let Some(p) = &self.part {
            return f(&p.locks);
        }
        match &self.coord {
            Some(c) => f(c.lock_manager()),
            None => {
                let lm = self.lm_own.lock().unwrap().clone();
                f(&lm)
            },
        }
    }
    /// Part, concurrent phase: one thread speaks for a transaction (its
    /// coordinator), so "the handle the participant recorded for it" is known
    fn part_owns(&self, th: usize, id: u64, seq: bool) -> bool {
        seq || self.part_threads == 0 || (id as usize + self.part_threads - 1) % self.part_threads == th % self.part_threads
    }
    fn graph(&self) -> &WaitForGraph {
        match &self.coord {
            Some(c) => c.wait_graph(),
            None => self.det.graph(),
        }
    }
    fn tick(&self) -> usize {
        let mut h = self.hist.lock().unwrap();
        h.tick += 1;
        h.tick
    }
    fn tname(&self, id: u64) -> String {
        if self.mode == Mode::Coord {
            match self.txids.iter().position(|x| *x == id) {
                Some(i) => format!("T{i}"),
                None => "T?".into(),
            }
        } else {
            format!("T{id}")
        }
    }
    fn hname(&self, h: u64) -> String {
        let mut g = self.hnames.lock().unwrap();
        let n = g.len();
        format!("h{}", *g.entry(h).or_insert(n))
    }
    fn fmt_call(&self, c: &Call) -> String {
        match c {
            Call::TryLock { tx, keys, wt } => format!("{}({},{:?})", if *wt { "try_lock_wt" } else { "try_lock" }, self.tname(*tx), keys),
            Call::Release { tx } => format!("release({})", self.tname(*tx)),
            Call::RelHandle { h } => format!("release_by_handle({})", self.hname(*h)),
            Call::Sweep { .. } => "cleanup_expired".into(),
            Call::Advance { ms } => format!("advance({ms}ms)"),
            Call::ObserveKey { key } => format!("lock_holder(k{key})"),
            Call::ObserveAll => "lock_table".into(),
        }
    }
    fn fmt_res(&self, r: &Res) -> String {
        match r {
            Res::Granted(h) => format!("granted {}", self.hname(*h)),
            Res::Conflict { blocker, keys } => format!("conflict with {} on {:?}", self.tname(*blocker), keys),
            Res::Unit => "()".into(),
            Res::Count(n) => format!("{n}"),
            Res::Holder(h) => format!("{:?}", h.map(|x| self.tname(x))),
            Res::All(m) => {
                let v: Vec<String> = m.iter().map(|(k, l)| format!("k{k}:{}/{}@{}", self.tname(l.0), self.hname(l.1), l.2 % 1_000_000)).collect();
                format!("[{}]", v.join(" "))
            },
        }
    }
    fn push(&self, th: usize, call: Call, res: Res, inv: usize, ret: usize) {
        self.ctx.event(&format!("t{th} [{inv},{ret}] {} -> {}", self.fmt_call(&call), self.fmt_res(&res)));
        self.hist.lock().unwrap().calls.push(HOp { call, res, inv, ret, thread: th, optional: false });
    }
    fn push_optional(&self, th: usize, call: Call, res: Res, inv: usize, ret: usize) {
        self.hist.lock().unwrap().calls.push(HOp { call, res, inv, ret, thread: th, optional: true });
    }
    fn rec(&self, tx: u64, inv: usize, ret: usize, kind: RecKind) {
        self.hist.lock().unwrap().recs.push(Rec { tx, inv, ret, kind });
    }
    fn lm_tx(tx: u8) -> u64 {
        u64::from(tx % 8) + 1
    }
    fn snapshot(&self) -> BTreeMap<u8, (u64, u64, u64)> {
        let st: SerializableLockState = self.with_lm(LockManager::to_serializable);
        st.locks().iter().map(|(k, l)| (key_index(k), (l.tx_id, l.lock_handle, l.acquired_at_ms))).collect()
    }

    fn try_lock(&self, th: usize, id: u64, mask: u8, wt: bool, prio: Option<u8>) {
        let ks = keys_of(mask);
        let names: Vec<String> = ks.iter().map(|k| key_name(*k)).collect();
        let t0 = self.tick();
        let res = if wt {
            match self.with_lm(|lm| lm.try_lock_with_wait_tracking(id, &names, self.graph(), prio.map(u32::from))) {
                Ok(h) => Res::Granted(h),
                Err(w) => Res::Conflict { blocker: w.blocking_tx_id, keys: w.conflicting_keys.iter().map(|k| key_index(k)).collect() },
            }
        } else {
            match self.with_lm(|lm| lm.try_lock(id, &names)) {
                Ok(h) => Res::Granted(h),
                Err(b) => Res::Conflict { blocker: b, keys: vec![] },
            }
        };
        let t1 = self.tick();
        let kind = match &res {
            Res::Granted(h) => {
                self.handles.lock().unwrap().push((id, *h));
                RecKind::Act
            },
            Res::Conflict { blocker, .. } if wt => RecKind::WaitConflict(*blocker),
            _ => RecKind::Act,
        };
        self.push(th, Call::TryLock { tx: id, keys: ks, wt }, res, t0, t1);
        self.rec(id, t0, t1, kind);
    }

    fn rel_handle(&self, th: usize, tx: u64, h: u64, wc: bool) {
        let t0 = self.tick();
        if wc {
            self.with_lm(|lm| lm.release_by_handle_with_wait_cleanup(h, self.graph()));
        } else {
            self.with_lm(|lm| lm.release_by_handle(h));
        }
        let t1 = self.tick();
        self.push(th, Call::RelHandle { h }, Res::Unit, t0, t1);
        self.rec(tx, t0, t1, if wc { RecKind::WcRelease } else { RecKind::Act });
    }

    /// Execute one program operation. `seq` = sequential context (tail).
    fn exec(&self, th: usize, op: &Op, seq: bool) {
        let lm_mode = self.mode == Mode::Lm;
        let co_mode = self.mode == Mode::Coord;
        match op {
            Op::Lock { tx, keys } if lm_mode => self.try_lock(th, Self::lm_tx(*tx), *keys, false, None),
            Op::LockWt { tx, keys, prio } if lm_mode => self.try_lock(th, Self::lm_tx(*tx), *keys, true, *prio),
            Op::Release { tx } if lm_mode => {
                let id = Self::lm_tx(*tx);
                let t0 = self.tick();
                self.with_lm(|lm| lm.release(id));
                let t1 = self.tick();
                self.push(th, Call::Release { tx: id }, Res::Unit, t0, t1);
                self.rec(id, t0, t1, RecKind::Act);
            },
            Op::RelHandle { pick, wc } if lm_mode => {
                let hs = self.handles.lock().unwrap().clone();
                if !hs.is_empty() {
                    let (tx, h) = hs[*pick as usize % hs.len()];
                    self.rel_handle(th, tx, h, *wc);
                }
            },
            Op::Finish { tx, plain } if lm_mode => {
                let id = Self::lm_tx(*tx);
                let t0 = self.tick();
                if *plain {
                    let a = self.tick();
                    self.with_lm(|lm| lm.release(id));
                    let b = self.tick();
                    self.push(th, Call::Release { tx: id }, Res::Unit, a, b);
                    self.graph().remove_transaction(id);
                } else {
                    let hs: Vec<u64> = self.handles.lock().unwrap().iter().filter(|(t, _)| *t == id).map(|(_, h)| *h).collect();
                    for h in hs {
                        self.rel_handle(th, id, h, true);
                    }
                    // a handle whose lock is already gone (released, swept, taken over)
                    // cannot lead the lock manager to the transaction: the caller, who
                    // knows the id, removes it from the graph
                    self.graph().remove_transaction(id);
                }
                let t1 = self.tick();
                self.ctx.event(&format!("t{th} [{t0},{t1}] finish({}, {})", self.tname(id), if *plain { "plain" } else { "handles" }));
                self.rec(id, t0, t1, RecKind::Finish(if *plain { "finish-plain" } else { "finish-handles" }));
            },
            Op::Sweep { wc } if lm_mode => {
                let t0 = self.tick();
                let n = if *wc { self.with_lm(|lm| lm.cleanup_expired_with_wait_cleanup(self.graph())) } else { self.with_lm(LockManager::cleanup_expired) };
                let t1 = self.tick();
                self.push(th, Call::Sweep { check_count: true, wc: *wc }, Res::Count(n), t0, t1);
            },
            Op::Advance { ms } if self.mode != Mode::Graph => {
                let t0 = self.tick();
                self.ctx.advance_ms(u64::from(*ms));
                let t1 = self.tick();
                self.push(th, Call::Advance { ms: u64::from(*ms) }, Res::Unit, t0, t1);
            },
            Op::Observe { key } if self.mode != Mode::Graph => {
                let k = *key % NKEYS;
                let t0 = self.tick();
                let h = self.with_lm(|lm| lm.lock_holder(&key_name(k)));
                let t1 = self.tick();
                self.push(th, Call::ObserveKey { key: k }, Res::Holder(h), t0, t1);
            },
            Op::Detect if self.mode != Mode::Graph && !seq => {
                // under concurrency: exercised, not judged (a graph update is several
                // critical sections; the property speaks of the recorded relations)
                let c = self.graph().detect_cycles();
                let _ = self.graph().would_create_cycle(1, 2);
                if lm_mode {
                    let _ = self.det.detect();
                }
                self.ctx.event(&format!("t{th} detect_cycles -> {} cycles", c.len()));
            },
            Op::SaveRestore if lm_mode && seq => {
                let st = self.with_lm(LockManager::to_serializable);
                let s = serde_json::to_string(&st).expect("serialize lock state");
                let st2: SerializableLockState = serde_json::from_str(&s).expect("deserialize lock state");
                *self.lm_own.lock().unwrap() = Arc::new(LockManager::from_serializable(st2));
                self.ctx.event("save+restore lock state");
                self.ctx.probe("save_restore");
            },
            Op::Prepare { tx, shard, keys } if co_mode && !self.txids.is_empty() => {
                let ti = *tx as usize % self.txids.len();
                let id = self.txids[ti];
                let ks = keys_of(*keys);
                let mut dense = vec![0.0f32; 16];
                dense[(ti * 2 + (*shard as usize % 2)) % 16] = 1.0;
                let req = PrepareRequest {
                    tx_id: id,
                    coordinator: "n0".to_string(),
                    operations: ks.iter().map(|k| Transaction::Put { key: key_name(*k), data: vec![1] }).collect(),
                    delta_embedding: tensor_store::SparseVector::from_dense(&dense),
                    timeout_ms: self.timeout_ms,
                };
                let c = self.coord.as_ref().unwrap();
                let t0 = self.tick();
                let vote = c.handle_prepare(&req);
                let t1 = self.tick();
                let (res, handle) = match &vote {
                    PrepareVote::Yes { lock_handle, .. } => (Res::Granted(*lock_handle), Some(*lock_handle)),
                    PrepareVote::Conflict { conflicting_tx, .. } => (Res::Conflict { blocker: *conflicting_tx, keys: vec![] }, None),
                    _ => (Res::Unit, None),
                };
                let kind = if let Res::Conflict { blocker, .. } = &res { RecKind::WaitConflict(*blocker) } else { RecKind::Act };
                self.push(th, Call::TryLock { tx: id, keys: ks, wt: true }, res, t0, t1);
                sched::yield_point("c12.vote");
                let tv = self.tick();
                let slot = handle.map(|h| {
                    let mut v = self.votes.lock().unwrap();
                    v.push(Vote { tx: id, handle: h, inv: tv, ret: None, ok: None });
                    v.len() - 1
                });
                let r = c.record_vote(id, *shard as usize % 2, vote);
                let t2 = self.tick();
                self.ctx.event(&format!("t{th} [{tv},{t2}] record_vote({},{}) -> {}", self.tname(id), shard % 2, match &r { Ok(p) => format!("{p:?}"), Err(_) => "err".into() }));
                if let Some(i) = slot {
                    if r.is_err() {
                        self.ctx.probe("coord_vote_rejected_after_grant");
                    }
                    let mut v = self.votes.lock().unwrap();
                    v[i].ret = Some(t2);
                    v[i].ok = Some(r.is_ok());
                }
                self.rec(id, t0, t2, kind);
            },
            Op::Commit { tx } | Op::Abort { tx } if co_mode && !self.txids.is_empty() => {
                let id = self.txids[*tx as usize % self.txids.len()];
                let c = self.coord.as_ref().unwrap();
                let commit = matches!(op, Op::Commit { .. });
                let t0 = self.tick();
                let r = if commit { c.commit(id).is_ok() } else { c.abort(id, "c12").is_ok() };
                let t1 = self.tick();
                self.ctx.event(&format!("t{th} [{t0},{t1}] {}({}) -> {}", if commit { "commit" } else { "abort" }, self.tname(id), r));
                if r {
                    self.ctx.probe(if commit { "coord_commit_ok" } else { "coord_abort_ok" });
                    self.terminal(th, &[id], t0, t1, if commit { "commit" } else { "abort" });
                } else {
                    self.rec(id, t0, t1, RecKind::Act);
                }
            },
            Op::PPrepare { tx, keys, val } if self.part.is_some() => {
                let id = Self::lm_tx(*tx);
                if !self.part_owns(th, id, seq) {
                    return;
                }
                let mask = *keys & ((1u8 << NKEYS) - 1);
                let ks = keys_of(mask);
                let operations: Vec<Transaction> = ks
                    .iter()
                    .map(|k| if *val == 0 { Transaction::Delete { key: key_name(*k) } } else { Transaction::Put { key: key_name(*k), data: vec![*val] } })
                    .collect();
                let req = PrepareRequest {
                    tx_id: id,
                    coordinator: "n0".to_string(),
                    operations,
                    delta_embedding: tensor_store::SparseVector::from_dense(&[1.0, 0.0]),
                    timeout_ms: 5000,
                };
                let prev = self.part_rec.lock().unwrap().get(&id).copied();
                let p = self.part.as_ref().unwrap();
                let t0 = self.tick();
                let vote = p.prepare(req);
                let t1 = self.tick();
                let res = match &vote {
                    PrepareVote::Yes { lock_handle, .. } => Res::Granted(*lock_handle),
                    PrepareVote::Conflict { conflicting_tx, .. } => Res::Conflict { blocker: *conflicting_tx, keys: vec![] },
                    _ => Res::Unit,
                };
                match (prev, &res) {
                    (Some((_, pk, pv)), Res::Granted(_)) if pk == mask && pv == *val => self.ctx.probe("part_retransmission_granted"),
                    // the transaction held every key of this very request: it can only be
                    // refused now because a lease ran out and another transaction took a key over
                    (Some((_, pk, pv)), Res::Conflict { .. }) if pk == mask && pv == *val => self.ctx.probe("part_retransmission_refused_after_takeover"),
                    (Some((_, pk, _)), _) => {
                        self.ctx.probe("part_changed_prepare");
                        if pk & !mask != 0 {
                            self.ctx.probe("part_changed_prepare_drops_key");
                        }
                    },
                    _ => {},
                }
                if let Res::Granted(h) = &res {
                    self.handles.lock().unwrap().push((id, *h));
                    self.part_rec.lock().unwrap().insert(id, (*h, mask, *val));
                    if seq {
                        // nothing else runs: "a prepare that meets a held key is refused with a
                        // conflict rather than granted" and a Yes vote means every key of the
                        // request is locked by the transaction, unexpired, at this moment
                        for k in &ks {
                            let holder = p.locks.lock_holder(&key_name(*k));
                            if holder != Some(id) {
                                let (what, whom) = match holder {
                                    Some(o) => ("held-by-another", format!("held, unexpired, by {}", self.tname(o))),
                                    None => ("not-locked", "not locked (free or its lease has run out)".to_string()),
                                };
                                let mut v = self.part_violation.lock().unwrap();
                                if v.is_none() {
                                    *v = Some(Violation {
                                        class: format!("participant-voted-yes:key-{what}"),
                                        detail: format!(
                                            "participant.prepare({}, keys {:?}, val {val}) -> Yes under {} although k{k} is {whom} right after the call{}",
                                            self.tname(id),
                                            ks,
                                            self.hname(*h),
                                            if prev.is_some_and(|(_, pk, pv)| pk == mask && pv == *val) { " (the request is identical to the one this transaction was last granted)" } else { "" }
                                        ),
                                    });
                                }
                            }
                        }
                    }
                }
                let granted_new = match (&res, prev) {
                    (Res::Granted(h), Some((ph, _, _))) if *h != ph => Some(ph),
                    _ => None,
                };
                self.push(th, Call::TryLock { tx: id, keys: ks, wt: false }, res, t0, t1);
                if let Some(ph) = granted_new {
                    // a repeated Yes under a new handle: keys that only the earlier request
                    // named may be given up at once or kept until the transaction ends (the
                    // text demands only that none remain after the end); taken both ways,
                    // the table read back decides
                    self.part_earlier.lock().unwrap().entry(id).or_default().push(ph);
                    self.push_optional(th, Call::RelHandle { h: ph }, Res::Unit, t0, t1);
                }
                self.rec(id, t0, t1, RecKind::Act);
            },
            Op::PCommit { tx } | Op::PAbort { tx } if self.part.is_some() => {
                let id = Self::lm_tx(*tx);
                if !self.part_owns(th, id, seq) {
                    return;
                }
                let commit = matches!(op, Op::PCommit { .. });
                // what the participant recorded for the transaction: its latest Yes
                let recorded = self.part_rec.lock().unwrap().remove(&id);
                let p = self.part.as_ref().unwrap();
                let t0 = self.tick();
                let r = if commit { p.commit(id) } else { p.abort(id) };
                let t1 = self.tick();
                self.ctx.event(&format!("t{th} [{t0},{t1}] participant.{}({}) -> {}", if commit { "commit" } else { "abort" }, self.tname(id), r.success));
                if let Some((h, _, _)) = recorded {
                    self.ctx.probe(if commit { "part_commit_of_prepared" } else { "part_abort_of_prepared" });
                    // the end releases the recorded handle somewhere inside [t0,t1] ...
                    self.push(th, Call::RelHandle { h }, Res::Unit, t0, t1);
                    // ... together with whatever it still held under earlier handles ...
                    for ph in self.part_earlier.lock().unwrap().remove(&id).unwrap_or_default() {
                        if ph != h {
                            self.push(th, Call::RelHandle { h: ph }, Res::Unit, t0, t1);
                        }
                    }
                    // ... and "none of its locks remain" is what `check_clean` states
                    self.rec(id, t0, t1, RecKind::Finish(if commit { "part-commit" } else { "part-abort" }));
                } else {
                    self.rec(id, t0, t1, RecKind::Act);
                }
            },
            Op::Timeouts if co_mode => {
                let c = self.coord.as_ref().unwrap();
                let t0 = self.tick();
                let out = c.cleanup_timeouts();
                let t1 = self.tick();
                let mut names: Vec<String> = out.iter().map(|x| self.tname(*x)).collect();
                names.sort();
                self.ctx.event(&format!("t{th} [{t0},{t1}] cleanup_timeouts -> {names:?}"));
                if !out.is_empty() {
                    self.ctx.probe("coord_timeout");
                }
                let mut out = out;
                out.sort_by_key(|x| self.txids.iter().position(|y| y == x));
                self.terminal(th, &out, t0, t1, "timeout");
                self.push(th, Call::Sweep { check_count: false, wc: true }, Res::Unit, t0, t1);
            },
            _ => {},
        }
    }

    /// A coordinator call that ended `txs`: it released, somewhere inside
    /// [t0,t1], every handle whose vote had been recorded.
    fn terminal(&self, th: usize, txs: &[u64], t0: usize, t1: usize, how: &'static str) {
        for id in txs {
            // (handle, optional): a vote whose record_vote returned Ok before this call
            // began was seen by it; one whose record_vote overlaps this call may or
            // may not have been stored (record_vote stores the vote in its first
            // phase and returns later)
            let hs: Vec<(u64, bool)> = self
                .votes
                .lock()
                .unwrap()
                .iter()
                .filter(|v| v.tx == *id && v.inv < t1)
                .filter_map(|v| match (v.ret, v.ok) {
                    (Some(r), Some(true)) if r < t0 => Some((v.handle, false)),
                    (Some(r), _) if r < t0 => None,
                    _ => Some((v.handle, true)),
                })
                .collect();
            for (h, optional) in hs {
                if optional {
                    self.ctx.probe("coord_vote_in_flight_at_end");
                    self.push_optional(th, Call::RelHandle { h }, Res::Unit, t0, t1);
                } else {
                    self.push(th, Call::RelHandle { h }, Res::Unit, t0, t1);
                }
                self.rec(*id, t0, t1, RecKind::WcRelease);
            }
            // whether the end also drops locks held under other handles is not
            // assumed either way here; `check_clean` states the property
            self.push_optional(th, Call::Release { tx: *id }, Res::Unit, t0, t1);
            self.rec(*id, t0, t1, RecKind::Finish(how));
        }
    }

    fn universe(&self) -> Vec<u64> {
        if self.mode == Mode::Coord {
            self.txids.clone()
        } else {
            (1..=8).collect()
        }
    }

    /// "none of its locks remain and it no longer appears as waiter or holder
    /// in the wait-for graph"
    fn check_clean(&self, tx: u64, how: &str, graph_too: bool) -> Option<Violation> {
        let name = self.tname(tx);
        let keys = self.with_lm(|lm| lm.keys_for_transaction(tx));
        if !keys.is_empty() {
            return Some(Violation {
                class: format!("ended-tx-keeps-keys:{how}"),
                detail: format!("after {how} of {name}, keys_for_transaction({name}) = {keys:?}"),
            });
        }
        for k in 0..NKEYS {
            if self.with_lm(|lm| lm.lock_holder(&key_name(k))) == Some(tx) {
                return Some(Violation { class: format!("ended-tx-holds-key:{how}"), detail: format!("after {how} of {name}, lock_holder(k{k}) = {name}") });
            }
        }
        if graph_too {
            let g = self.graph();
            let wf = g.waiting_for(tx);
            if !wf.is_empty() {
                let mut v: Vec<String> = wf.iter().map(|x| self.tname(*x)).collect();
                v.sort();
                return Some(Violation { class: format!("ended-tx-still-waiter:{how}"), detail: format!("after {how} of {name}, waiting_for({name}) = {v:?}") });
            }
            let mut as_holder: Vec<String> = g.waiting_on(tx).iter().map(|x| format!("waiting_on lists {}", self.tname(*x))).collect();
            for x in self.universe() {
                if g.waiting_for(x).contains(&tx) {
                    as_holder.push(format!("waiting_for({}) contains it", self.tname(x)));
                }
            }
            if !as_holder.is_empty() {
                as_holder.sort();
                return Some(Violation { class: format!("ended-tx-still-holder:{how}"), detail: format!("after {how} of {name}: {as_holder:?}") });
            }
        }
        None
    }
}

// ------------------------------------------------------------------------
// running the Lm / Coord configurations
// ------------------------------------------------------------------------

fn wall_ms(ctx: &RunCtx) -> u64 {
    ctx.lock().wall_ns / 1_000_000
}

fn render_history(w: &World, ops: &[HOp]) -> String {
    let mut v: Vec<&HOp> = ops.iter().collect();
    v.sort_by_key(|o| o.inv);
    v.iter().map(|o| format!("t{}[{},{}] {} -> {}", o.thread, o.inv, o.ret, w.fmt_call(&o.call), w.fmt_res(&o.res))).collect::<Vec<_>>().join("; ")
}

fn call_kind(c: &Call, r: &Res) -> &'static str {
    match (c, r) {
        (Call::TryLock { .. }, Res::Granted(_)) => "grant",
        (Call::TryLock { .. }, _) => "refusal",
        (Call::Release { .. }, _) => "release",
        (Call::RelHandle { .. }, _) => "release_by_handle",
        (Call::Sweep { .. }, _) => "sweep",
        (Call::Advance { .. }, _) => "advance",
        (Call::ObserveKey { .. }, _) => "lock_holder",
        (Call::ObserveAll, _) => "lock_table",
    }
}

// ------------------------------------------------------------------------
// the detector under the configuration of the case
// ------------------------------------------------------------------------

struct DetParams {
    policy: VictimSelectionPolicy,
    policy_probe: &'static str,
    cap: usize,
    enabled: bool,
    limit: usize,
    cascade: u32,
    ttl_ms: u64,
    with_fn: bool,
}

/// Every field of `DeadlockDetectorConfig` comes from the case.
fn build_detector(case: &Case) -> (DeadlockDetector, DetParams) {
    let d = DeadlockDetectorConfig::default();
    let (policy, policy_probe) = policy_of(case.policy);
    let cap = if case.cap == 0 { d.max_edges_per_tx } else { case.cap as usize };
    let limit = if case.det.max_cycle_len == 0 { d.max_cycle_length } else { case.det.max_cycle_len as usize };
    let cascade = case.det.cascade_depth.map_or(d.victim_cascade_depth, u32::from);
    let ttl_ms = if case.det.edge_ttl_ms == 0 { d.edge_ttl_ms } else { u64::from(case.det.edge_ttl_ms) };
    let interval = if case.det.interval_ms == 0 { d.detection_interval_ms } else { u64::from(case.det.interval_ms) };
    let mut cfg = if case.det.disabled { DeadlockDetectorConfig::disabled() } else { DeadlockDetectorConfig::default() };
    cfg = cfg
        .with_policy(policy)
        .with_max_edges_per_tx(cap)
        .with_max_cycle_length(limit)
        .with_victim_cascade_depth(cascade)
        .with_edge_ttl_ms(ttl_ms)
        .with_interval(interval);
    if case.det.no_auto_abort {
        cfg = cfg.without_auto_abort();
    }
    let mut det = DeadlockDetector::new(cfg);
    let with_fn = policy == VictimSelectionPolicy::MostLocks && case.lock_counts.len() >= 8;
    if with_fn {
        let counts = case.lock_counts.clone();
        det.set_lock_count_fn(move |tx| counts[(tx as usize).wrapping_sub(1) % counts.len()] as usize);
    }
    (det, DetParams { policy, policy_probe, cap, enabled: !case.det.disabled, limit, cascade, ttl_ms, with_fn })
}

/// Independent of the code under test: every simple cycle of the relation
/// (each found once, from its smallest member). <= 8 transactions everywhere.
fn simple_cycles(edges: &BTreeSet<(u64, u64)>) -> Vec<Vec<u64>> {
    fn go(s: u64, edges: &BTreeSet<(u64, u64)>, path: &mut Vec<u64>, out: &mut Vec<Vec<u64>>) {
        let cur = *path.last().unwrap();
        for (_, b) in edges.range((cur, 0)..=(cur, u64::MAX)) {
            if *b == s {
                out.push(path.clone());
            } else if *b > s && !path.contains(b) {
                path.push(*b);
                go(s, edges, path, out);
                path.pop();
            }
        }
    }
    let starts: BTreeSet<u64> = edges.iter().map(|e| e.0).collect();
    let mut out = Vec::new();
    for s in starts {
        let mut path = vec![s];
        go(s, edges, &mut path, &mut out);
    }
    out
}

/// `DeadlockDetector::detect` against a set of recorded relations.
///
/// "The deadlock detector reports a cycle exactly when the recorded wait-for
/// relations contain one, and the victim it names belongs to that cycle."
/// `max_cycle_length` is documented as "Maximum cycle length to detect" (module
/// doc: it "prevents DoS via artificially long cycles"): a recorded cycle LONGER
/// than the limit may go unreported; a recorded cycle within the limit must be
/// reported whatever else the graph contains. A disabled detector (documented:
/// "Detection can be disabled") is not expected to report.
fn judge_detect(
    ctx: &RunCtx,
    edges: &BTreeSet<(u64, u64)>,
    infos: &[(Vec<u64>, u64)],
    p: &DetParams,
    subject: &str,
    show: &dyn Fn(&BTreeSet<(u64, u64)>) -> String,
) -> Option<Violation> {
    let cycles = simple_cycles(edges);
    let any = !cycles.is_empty();
    let within = cycles.iter().any(|c| c.len() <= p.limit);
    let beyond = cycles.iter().any(|c| c.len() > p.limit);
    // exactly when: nothing is reported when the relations contain no cycle
    if !any && !infos.is_empty() {
        return Some(Violation {
            class: format!("detector-disagrees-with-{subject}:phantom"),
            detail: format!("edges {}: no cycle, detect -> {} deadlocks {:?}", show(edges), infos.len(), infos.iter().map(|i| i.0.len()).collect::<Vec<_>>()),
        });
    }
    for (c, victim) in infos {
        if !is_real_cycle(c, edges) {
            return Some(Violation { class: format!("reported-cycle-not-in-{subject}"), detail: format!("detect reported a cycle of {} transactions that is not a cycle of {}", c.len(), show(edges)) });
        }
        // "the victim it names belongs to that cycle"
        ctx.probe(p.policy_probe);
        if p.with_fn {
            ctx.probe("victim_most_locks_with_count_fn");
        }
        if !c.contains(victim) {
            return Some(Violation { class: format!("victim-outside-cycle:{:?}", p.policy), detail: format!("detect: victim is none of the {} transactions of the reported cycle; edges {}", c.len(), show(edges)) });
        }
        if c.len() >= 3 {
            ctx.probe("cycle_len_ge3_detected");
        }
    }
    if !p.enabled {
        ctx.probe("detector_disabled");
        return None;
    }
    // shape of the graph around the cycles: waiters queued behind a cycle
    let on_cycle: BTreeSet<u64> = cycles.iter().flatten().copied().collect();
    let queued_behind = edges.iter().any(|(a, b)| !on_cycle.contains(a) && on_cycle.contains(b));
    let small = p.limit < 8;
    if small {
        ctx.probe("small_cycle_limit");
    }
    if any && !within {
        ctx.probe("only_cycles_beyond_limit");
        if infos.is_empty() {
            ctx.probe("cycles_beyond_limit_unreported");
        }
    }
    if within && small {
        ctx.probe("cycle_within_small_limit");
        if queued_behind {
            ctx.probe("waiters_queued_behind_cycle_within_small_limit");
        }
        if beyond {
            ctx.probe("cycle_within_small_limit_beside_longer_cycle");
        }
    }
    if within && queued_behind {
        ctx.probe("waiters_queued_behind_cycle");
    }
    if infos.len() >= 2 {
        ctx.probe("several_deadlocks_reported");
    }
    if p.cascade != 3 && cycles.len() >= 2 {
        ctx.probe("cascade_depth_non_default_with_several_cycles");
    }
    // exactly when: a recorded cycle (within the limit) is reported
    if within && infos.is_empty() {
        let shortest = cycles.iter().map(Vec::len).min().unwrap_or(0);
        let kind = if beyond { "missed-within-limit-beside-longer-cycle" } else { "missed" };
        return Some(Violation {
            class: format!("detector-disagrees-with-{subject}:{kind}"),
            detail: format!(
                "edges {}: contain a cycle of {shortest} transactions, max_cycle_length = {}{}, detect -> no deadlock",
                show(edges),
                p.limit,
                if beyond { " (the relations also contain a cycle longer than the limit)" } else { "" }
            ),
        });
    }
    None
}

/// detect_cycles / would_create_cycle against the relations recorded in the
/// graph itself (read through waiting_for), on a quiescent system.
fn check_detect_quiescent(w: &World) -> Option<Violation> {
    let g = w.graph();
    let uni = w.universe();
    let mut edges: BTreeSet<(u64, u64)> = BTreeSet::new();
    for t in &uni {
        for h in g.waiting_for(*t) {
            edges.insert((*t, h));
        }
    }
    let cyc = g.detect_cycles();
    let model_cyclic = has_cycle(&edges);
    w.ctx.event(&format!("detect_cycles on {} recorded edges -> {} cycles", edges.len(), cyc.len()));
    if model_cyclic {
        w.ctx.probe("lm_cycle_recorded");
    }
    // "reports a cycle exactly when the recorded wait-for relations contain one"
    if model_cyclic != !cyc.is_empty() {
        return Some(Violation {
            class: format!("detect-disagrees-with-recorded-edges:{}", if model_cyclic { "missed" } else { "phantom" }),
            detail: format!("recorded edges {:?}: independent check says cyclic={model_cyclic}, detect_cycles returned {} cycles", name_edges(w, &edges), cyc.len()),
        });
    }
    for c in &cyc {
        if !is_real_cycle(c, &edges) {
            return Some(Violation { class: "reported-cycle-not-in-recorded-edges".into(), detail: format!("cycle {:?} edges {:?}", c.iter().map(|x| w.tname(*x)).collect::<Vec<_>>(), name_edges(w, &edges)) });
        }
    }
    // the detector proper (lock-manager configuration: the graph is the detector's own)
    if w.coord.is_none() {
        let infos: Vec<(Vec<u64>, u64)> = w.det.detect().into_iter().map(|i| (i.cycle, i.victim_tx_id)).collect();
        w.ctx.event(&format!("detect (max_cycle_length={} cascade={} enabled={}) -> {} deadlocks", w.detp.limit, w.detp.cascade, w.detp.enabled, infos.len()));
        if let Some(v) = judge_detect(&w.ctx, &edges, &infos, &w.detp, "recorded-edges", &|e| format!("{:?}", name_edges(w, e))) {
            return Some(v);
        }
    }
    for a in &uni {
        for b in &uni {
            if a != b && g.would_create_cycle(*a, *b) != reachable(&edges, *b, *a) {
                return Some(Violation { class: "would-create-cycle-disagrees".into(), detail: format!("would_create_cycle({},{}) = {} on edges {:?}", w.tname(*a), w.tname(*b), !reachable(&edges, *b, *a), name_edges(w, &edges)) });
            }
        }
    }
    None
}

fn name_edges(w: &World, e: &BTreeSet<(u64, u64)>) -> Vec<String> {
    let mut v: Vec<String> = e.iter().map(|(a, b)| format!("{}->{}", w.tname(*a), w.tname(*b))).collect();
    v.sort();
    v
}

/// independent of the code under test: repeatedly strip nodes without outgoing edges
fn has_cycle(edges: &BTreeSet<(u64, u64)>) -> bool {
    let mut e = edges.clone();
    loop {
        let with_out: BTreeSet<u64> = e.iter().map(|x| x.0).collect();
        let before = e.len();
        e.retain(|x| with_out.contains(&x.1));
        if e.len() == before {
            return !e.is_empty();
        }
    }
}

fn reachable(edges: &BTreeSet<(u64, u64)>, from: u64, to: u64) -> bool {
    let mut seen = BTreeSet::new();
    let mut st = vec![from];
    while let Some(x) = st.pop() {
        if x == to {
            return true;
        }
        if seen.insert(x) {
            for (a, b) in edges {
                if *a == x {
                    st.push(*b);
                }
            }
        }
    }
    false
}

fn is_real_cycle(c: &[u64], edges: &BTreeSet<(u64, u64)>) -> bool {
    if c.is_empty() {
        return false;
    }
    let distinct: BTreeSet<u64> = c.iter().copied().collect();
    distinct.len() == c.len() && (0..c.len()).all(|i| edges.contains(&(c[i], c[(i + 1) % c.len()])))
}

fn run_lm_or_coord(case: &Case, ctx: &Arc<RunCtx>) -> RunOut {
    let mut out = RunOut::default();
    let coord_mode = case.mode == Mode::Coord;
    // ---- setup ----
    let mut txids = Vec::new();
    let coord = if coord_mode {
        let cfg = DistributedTxConfig { prepare_timeout_ms: case.timeout_ms, ..DistributedTxConfig::default() };
        let c = DistributedTxCoordinator::new(ConsensusManager::new(ConsensusConfig::default()), cfg);
        let shards: Vec<usize> = (0..case.nshards.clamp(1, 2) as usize).collect();
        let _gate = TXID_GATE.lock().unwrap_or_else(|p| p.into_inner());
        for _ in 0..case.ntx.clamp(1, 6) {
            ctx.advance_ms(1);
            let _ = tensor_chain::generate_tx_id();
            ctx.advance_ms(1);
            match c.begin(&"n0".to_string(), &shards) {
                Ok(tx) => txids.push(tx.tx_id),
                Err(e) => {
                    out.harness_error = Some(format!("begin failed: {e}"));
                    return out;
                },
            }
        }
        let distinct: BTreeSet<u64> = txids.iter().copied().collect();
        if distinct.len() != txids.len() {
            out.harness_error = Some("generated transaction ids collide".into());
            return out;
        }
        // bring the clock to a multiple of 100 ms after the start
        let spent = 2 * txids.len() as u64;
        ctx.advance_ms(100 - spent % 100);
        Some(c)
    } else {
        None
    };
    let lock_timeout = if coord_mode { COORD_LOCK_TIMEOUT_MS } else { case.timeout_ms };
    let part = if case.mode == Mode::Part {
        // a participant shard as the node builds it: its own lock manager and store;
        // the lease length is the participant's public `locks.default_timeout`
        let mut p = TxParticipant::new_in_memory();
        p.locks.default_timeout = Duration::from_millis(case.timeout_ms);
        Some(p)
    } else {
        None
    };
    let w = Arc::new(World {
        ctx: ctx.clone(),
        mode: case.mode.clone(),
        lm_own: Mutex::new(Arc::new(LockManager::with_default_timeout(Duration::from_millis(case.timeout_ms)))),
        det: build_detector(case).0,
        detp: build_detector(case).1,
        coord,
        part,
        part_rec: Mutex::new(BTreeMap::new()),
        part_earlier: Mutex::new(BTreeMap::new()),
        part_threads: if case.mode == Mode::Part { case.threads.len().min(6) } else { 0 },
        part_violation: Mutex::new(None),
        txids,
        timeout_ms: case.timeout_ms,
        hist: Mutex::new(Hist::default()),
        handles: Mutex::new(Vec::new()),
        votes: Mutex::new(Vec::new()),
        hnames: Mutex::new(BTreeMap::new()),
    });
    let start_ns = ctx.lock().wall_ns;
    let mut model = Model::new(wall_ms(ctx), lock_timeout);
    ctx.fp(match case.mode {
        Mode::Coord => "coord",
        Mode::Part => "part",
        _ => "lm",
    });

    // ---- concurrent phase ----
    let nthreads = case.threads.len().min(6);
    if nthreads > 0 {
        let total_ops: usize = case.threads.iter().map(Vec::len).sum();
        let max_steps = 200_000usize;
        // the case's schedule, then a round-robin tail so that a thread spinning on
        // a held lock can never be chosen forever
        let mut schedule = case.schedule.clone();
        let mut rr = 0u8;
        while schedule.len() < case.schedule.len() + 100 * (total_ops + 4) * 8 {
            schedule.push(rr % 16);
            rr = rr.wrapping_add(1);
        }
        let bodies: Vec<sched::Body> = case
            .threads
            .iter()
            .take(6)
            .enumerate()
            .map(|(i, prog)| {
                let w = w.clone();
                let prog = prog.clone();
                Box::new(move || {
                    for op in &prog {
                        w.exec(i, op, false);
                        sched::yield_point("c12.op");
                    }
                }) as sched::Body
            })
            .collect();
        let res = sched::run_threads(ctx, &schedule, max_steps, bodies);
        if res.exhausted || !res.panics.is_empty() {
            out.harness_error = Some(format!("scheduler: exhausted={} steps={} panics={:?}", res.exhausted, res.steps, res.panics));
            return out;
        }
        if res.steps > schedule.len() {
            out.harness_error = Some(format!("schedule ran out: {} steps", res.steps));
            return out;
        }
        ctx.event(&format!("threads done: steps={} switches={}", res.steps, res.switches));
        for (site, n) in &res.preempted_at {
            if *n > 0 {
                match *site {
                    "tensor_chain.lock" => ctx.probe("preempted_at_lock_acquisition"),
                    "tensor_chain.lock.wait" => ctx.probe("preempted_while_waiting_for_held_lock"),
                    _ => {},
                }
            }
        }
        // ---- quiescence: pin the state, then explain the history ----
        let t0 = w.tick();
        let snap = w.snapshot();
        let t1 = w.tick();
        w.push(99, Call::ObserveAll, Res::All(snap), t0, t1);
        let ops: Vec<HOp> = w.hist.lock().unwrap().calls.clone();
        if ops.len() > 120 {
            out.harness_error = Some(format!("history too long: {}", ops.len()));
            return out;
        }
        let mut overlap_pairs = 0u64;
        for i in 0..ops.len() {
            for j in (i + 1)..ops.len() {
                if ops[i].thread != ops[j].thread && ops[i].inv < ops[j].ret && ops[j].inv < ops[i].ret && ops[i].thread != 99 && ops[j].thread != 99 {
                    overlap_pairs += 1;
                }
            }
        }
        if overlap_pairs > 0 && case.mode == Mode::Part {
            ctx.probe("part_calls_overlapped");
        }
        if overlap_pairs > 0 {
            ctx.probe("calls_overlapped_runs");
            for _ in 0..overlap_pairs.min(50) {
                ctx.probe("calls_overlapped_pairs");
            }
        }
        let mut s = Search { ops: &ops, memo: BTreeSet::new(), nodes: 0, budget: 400_000, best_depth: 0, best_stuck: Vec::new(), order: Vec::new() };
        match s.run(0, &model) {
            Some(fin) => {
                // replay the found order for the probes
                let mut m = model.clone();
                let mut by_ret: Vec<usize> = (0..ops.len()).collect();
                by_ret.sort_by_key(|i| ops[*i].ret);
                if s.order != by_ret {
                    ctx.probe("linearization_differs_from_return_order");
                }
                for i in &s.order {
                    if let Ok(e) = m.apply(&ops[*i].call, &ops[*i].res) {
                        if e.partial_overlap_conflict {
                            ctx.probe("conflict_partial_overlap");
                        }
                        if e.takeover {
                            ctx.probe("takeover_of_expired_lock");
                            if case.mode == Mode::Part {
                                ctx.probe("part_takeover_of_expired_lock");
                            }
                        }
                        if e.swept > 0 {
                            ctx.probe("sweep_removed_expired");
                        }
                    }
                    ctx.fp(call_kind(&ops[*i].call, &ops[*i].res));
                }
                for o in &ops {
                    if let Call::TryLock { .. } = o.call {
                        if ops.iter().any(|a| matches!(a.call, Call::Advance { .. }) && a.inv > o.inv && a.ret < o.ret) {
                            ctx.probe("clock_advanced_inside_trylock_window");
                        }
                    }
                }
                model = fin;
            },
            None => {
                if s.nodes > s.budget {
                    out.observations.push("linearizability search budget exceeded (no verdict for this run)".into());
                    out.nontrivial = false;
                    return out;
                }
                let stuck: Vec<String> = s.best_stuck.iter().map(|(i, e)| format!("{} -> {}: {e}", w.fmt_call(&ops[*i].call), w.fmt_res(&ops[*i].res))).collect();
                let kind = s.best_stuck.iter().map(|(i, _)| call_kind(&ops[*i].call, &ops[*i].res)).min().unwrap_or("none");
                out.violation = Some(Violation {
                    class: format!("history-not-linearizable:{kind}"),
                    detail: format!(
                        "no order of the overlapping lock-manager calls explains the results; deepest point reached {} of {} calls, where every remaining candidate is impossible: {stuck:?}. History: {}",
                        s.best_depth,
                        ops.len(),
                        render_history(&w, &ops)
                    ),
                });
                out.nontrivial = true;
                return out;
            },
        }
        // ---- transactions that ended cleanly during the concurrent phase ----
        let recs: Vec<Rec> = w.hist.lock().unwrap().recs.clone();
        // probe: add_wait interleaved with remove_transaction of the same tx
        for a in &recs {
            if let RecKind::WaitConflict(b) = a.kind {
                if recs.iter().any(|r| (r.tx == b || r.tx == a.tx) && r.kind == RecKind::WcRelease && r.inv < a.ret && a.inv < r.ret) {
                    ctx.probe("add_wait_interleaved_with_remove_transaction");
                }
            }
        }
        let mut txs: Vec<u64> = recs.iter().map(|r| r.tx).collect();
        txs.sort_unstable();
        txs.dedup();
        for tx in txs {
            let fins: Vec<&Rec> = recs.iter().filter(|r| r.tx == tx && matches!(r.kind, RecKind::Finish(_))).collect();
            let Some(f) = fins.last() else { continue };
            // every other operation on behalf of tx returned before the end began
            // (WcRelease records of a coordinator call are parts of that call)
            let clean = recs.iter().filter(|r| r.tx == tx).all(|r| (r.inv == f.inv && r.ret == f.ret) || r.ret < f.inv || (r.kind == RecKind::WcRelease && r.inv >= f.inv && r.ret <= f.ret));
            if !clean {
                ctx.probe("end_overlapped_by_own_operation");
                continue;
            }
            ctx.probe("clean_end_in_concurrent_phase");
            if let RecKind::Finish(how) = f.kind {
                if let Some(v) = w.check_clean(tx, how, true) {
                    out.violation = Some(Violation { class: v.class, detail: format!("{} (ended during the concurrent phase, checked at quiescence). History: {}", v.detail, render_history(&w, &ops)) });
                    out.nontrivial = true;
                    return out;
                }
            }
        }
        if let Some(v) = check_detect_quiescent(&w) {
            out.violation = Some(v);
            out.nontrivial = true;
            return out;
        }
        out.nontrivial = overlap_pairs > 0;
    }

    // ---- sequential tail ----
    let mut grants = 0;
    let mut refusals = 0;
    for op in &case.tail {
        let (c0, r0) = {
            let h = w.hist.lock().unwrap();
            (h.calls.len(), h.recs.len())
        };
        w.exec(98, op, true);
        if let Some(v) = w.part_violation.lock().unwrap().take() {
            out.violation = Some(v);
            out.nontrivial = true;
            return out;
        }
        let (new_calls, new_recs): (Vec<HOp>, Vec<Rec>) = {
            let h = w.hist.lock().unwrap();
            (h.calls[c0..].to_vec(), h.recs[r0..].to_vec())
        };
        // candidate models: an optional call is taken both ways; the table read
        // back afterwards decides
        let mut cands: Vec<Model> = vec![model.clone()];
        let mut released: Vec<u64> = Vec::new();
        for o in &new_calls {
            let mut next: Vec<Model> = Vec::new();
            let mut first_err = None;
            for (ci, m) in cands.iter().enumerate() {
                if o.optional {
                    next.push(m.clone());
                }
                let mut m2 = m.clone();
                match m2.apply(&o.call, &o.res) {
                    Ok(e) => {
                        if ci == 0 {
                            if e.partial_overlap_conflict {
                                ctx.probe("conflict_partial_overlap");
                            }
                            if e.takeover {
                                ctx.probe("takeover_of_expired_lock");
                                if case.mode == Mode::Part {
                                    ctx.probe("part_takeover_of_expired_lock");
                                }
                            }
                            if e.swept > 0 {
                                ctx.probe("sweep_removed_expired");
                            }
                            released.extend(e.released.iter().copied());
                            match o.res {
                                Res::Granted(_) => grants += 1,
                                Res::Conflict { .. } => refusals += 1,
                                _ => {},
                            }
                            ctx.fp(call_kind(&o.call, &o.res));
                        }
                        next.push(m2);
                    },
                    Err(e) => {
                        if first_err.is_none() {
                            first_err = Some((e, m.clone()));
                        }
                    },
                }
            }
            if next.is_empty() {
                let (e, m) = first_err.unwrap();
                out.violation = Some(Violation {
                    class: format!("sequential-call-contradicts-model:{}", call_kind(&o.call, &o.res)),
                    detail: format!("{} -> {}: {e}; model before: now={} locks={:?}", w.fmt_call(&o.call), w.fmt_res(&o.res), m.now % 1_000_000, m.locks),
                });
                out.nontrivial = true;
                return out;
            }
            next.dedup();
            cands = next;
        }
        // an ended participant transaction: "none of its locks remain" is named first,
        // being the clause itself (the table comparison below would report the same
        // leftover as a difference from the model)
        if case.mode == Mode::Part {
            for r in &new_recs {
                if let RecKind::Finish(how) = r.kind {
                    if let Some(v) = w.check_clean(r.tx, how, true) {
                        out.violation = Some(v);
                        out.nontrivial = true;
                        return out;
                    }
                }
            }
        }
        // "at any moment each key is locked by at most one unexpired transaction":
        // the public observers must show exactly the model's table
        let snap = w.snapshot();
        match cands.iter().rev().find(|m| m.locks == snap) {
            Some(m) => model = m.clone(),
            None => {
                out.violation = Some(Violation {
                    class: format!("lock-table-differs-from-model:after-{}", op_name(op)),
                    detail: format!("after {op:?}: table {} but model {:?}", w.fmt_res(&Res::All(snap)), cands.last().map(|m| m.locks.clone())),
                });
                out.nontrivial = true;
                return out;
            },
        }
        for k in 0..NKEYS {
            let h = w.with_lm(|lm| lm.lock_holder(&key_name(k)));
            let l = w.with_lm(|lm| lm.is_locked(&key_name(k)));
            if h != model.holder(k) || l != h.is_some() {
                out.violation = Some(Violation {
                    class: "observer-disagrees-with-model".into(),
                    detail: format!("after {op:?}: lock_holder(k{k})={h:?} is_locked={l} model {:?}", model.holder(k)),
                });
                out.nontrivial = true;
                return out;
            }
        }
        // release_by_handle_with_wait_cleanup "ensures that when locks are released,
        // any wait edges involving the releasing transaction are removed": judged
        // where that release took the transaction's last lock
        if let Op::RelHandle { wc: true, .. } = op {
            if case.mode == Mode::Lm {
                for t in &released {
                    if !model.holds_any(*t) {
                        ctx.probe("last_lock_released_by_handle_wc");
                        if let Some(v) = w.check_clean(*t, "release-by-handle-wc", true) {
                            out.violation = Some(v);
                            out.nontrivial = true;
                            return out;
                        }
                    }
                }
            }
        }
        for r in &new_recs {
            if let RecKind::Finish(how) = r.kind {
                ctx.probe("clean_end_in_tail");
                if let Some(v) = w.check_clean(r.tx, how, true) {
                    out.violation = Some(v);
                    out.nontrivial = true;
                    return out;
                }
            }
        }
        // expiry sweep: a transaction that lost its locks through expiry while
        // silent has timed out
        let swept_wc = match op {
            Op::Sweep { wc } if case.mode == Mode::Lm => Some(*wc),
            Op::Timeouts if coord_mode => Some(true),
            _ => None,
        };
        if let Some(wc) = swept_wc {
            let timed_out: Vec<u64> = model.lost.iter().copied().filter(|t| !model.holds_any(*t)).collect();
            for t in timed_out {
                ctx.probe("timed_out_tx_checked");
                // the graph clause only where every call that took the locks away had the graph at hand
                let graph_too = wc && !model.lost_nograph.contains(&t);
                if let Some(v) = w.check_clean(t, if wc { "expiry-sweep-wc" } else { "expiry-sweep" }, graph_too) {
                    out.violation = Some(v);
                    out.nontrivial = true;
                    return out;
                }
            }
        }
        if matches!(op, Op::Detect) {
            if let Some(v) = check_detect_quiescent(&w) {
                out.violation = Some(v);
                out.nontrivial = true;
                return out;
            }
        }
    }
    if nthreads == 0 {
        out.nontrivial = grants > 0 && refusals > 0;
    }
    // the 100 ns the simulated clock moves per read must not have reached a millisecond
    let advanced: u64 = w.hist.lock().unwrap().calls.iter().map(|o| if let Call::Advance { ms } = o.call { ms } else { 0 }).sum();
    let drift = ctx.lock().wall_ns - start_ns - advanced * 1_000_000;
    if drift > 900_000 {
        out.harness_error = Some(format!("clock-read drift {drift} ns reached the millisecond resolution of the model"));
    }
    out
}

fn op_name(op: &Op) -> &'static str {
    match op {
        Op::Lock { .. } => "try_lock",
        Op::LockWt { .. } => "try_lock_wt",
        Op::Release { .. } => "release",
        Op::RelHandle { .. } => "release_by_handle",
        Op::Finish { .. } => "finish",
        Op::Sweep { .. } => "sweep",
        Op::Advance { .. } => "advance",
        Op::Observe { .. } => "observe",
        Op::Detect => "detect",
        Op::SaveRestore => "save-restore",
        Op::Prepare { .. } => "prepare",
        Op::Commit { .. } => "commit",
        Op::Abort { .. } => "abort",
        Op::Timeouts => "cleanup_timeouts",
        Op::PPrepare { .. } => "participant_prepare",
        Op::PCommit { .. } => "participant_commit",
        Op::PAbort { .. } => "participant_abort",
        Op::AddWait { .. } => "add_wait",
        Op::RemoveWait { .. } => "remove_wait",
        Op::RemoveTx { .. } => "remove_transaction",
        Op::Check => "check",
        Op::CleanStale => "cleanup_stale_edges",
    }
}

// ------------------------------------------------------------------------
// Graph configuration
// ------------------------------------------------------------------------

fn policy_of(p: u8) -> (VictimSelectionPolicy, &'static str) {
    match p % 4 {
        0 => (VictimSelectionPolicy::Youngest, "victim_policy_youngest"),
        1 => (VictimSelectionPolicy::Oldest, "victim_policy_oldest"),
        2 => (VictimSelectionPolicy::LowestPriority, "victim_policy_lowest_priority"),
        _ => (VictimSelectionPolicy::MostLocks, "victim_policy_most_locks"),
    }
}

fn find_model_cycle(edges: &BTreeSet<(u64, u64)>) -> Option<Vec<u64>> {
    // walk inside the cyclic core until a node repeats
    let mut e = edges.clone();
    loop {
        let with_out: BTreeSet<u64> = e.iter().map(|x| x.0).collect();
        let before = e.len();
        e.retain(|x| with_out.contains(&x.1));
        if e.len() == before {
            break;
        }
    }
    let start = e.iter().next()?.0;
    let mut path = vec![start];
    loop {
        let cur = *path.last().unwrap();
        let next = e.iter().find(|x| x.0 == cur)?.1;
        if let Some(p) = path.iter().position(|x| *x == next) {
            return Some(path[p..].to_vec());
        }
        path.push(next);
    }
}

fn run_graph(case: &Case, ctx: &Arc<RunCtx>) -> RunOut {
    let mut out = RunOut::default();
    let n = u64::from(case.ntx.clamp(2, 8));
    let (det, dp) = build_detector(case);
    let (policy, policy_probe, cap, with_fn) = (dp.policy, dp.policy_probe, dp.cap, dp.with_fn);
    ctx.fp(&format!("graph:{}:{}:{}:{}", case.policy % 4, dp.limit.min(9), dp.cascade.min(9), dp.enabled));
    let mut edges: BTreeSet<(u64, u64)> = BTreeSet::new();
    let tx = |t: u8| u64::from(t) % n + 1;
    let mut cycles_checked = 0u64;
    let mut ops: Vec<Op> = case.tail.clone();
    ops.push(Op::Check);
    for op in &ops {
        let g = det.graph();
        match op {
            Op::AddWait { w, h, prio } => {
                let (a, b) = (tx(*w), tx(*h));
                g.add_wait(a, b, prio.map(u32::from));
                // self-waits are ignored; beyond the per-transaction cap the edge is
                // (documented) dropped, hence not recorded
                if a != b {
                    let outdeg = edges.iter().filter(|e| e.0 == a).count();
                    if outdeg < cap {
                        edges.insert((a, b));
                    } else {
                        ctx.probe("edge_cap_reached");
                    }
                }
                ctx.event(&format!("add_wait(T{a},T{b},{prio:?})"));
            },
            Op::RemoveWait { w, h } => {
                let (a, b) = (tx(*w), tx(*h));
                g.remove_wait(a, b);
                edges.remove(&(a, b));
                ctx.event(&format!("remove_wait(T{a},T{b})"));
            },
            Op::RemoveTx { t } => {
                let a = tx(*t);
                g.remove_transaction(a);
                edges.retain(|e| e.0 != a && e.1 != a);
                ctx.event(&format!("remove_transaction(T{a})"));
                // "it no longer appears as waiter or holder in the wait-for graph"
                let mut left = Vec::new();
                if !g.waiting_for(a).is_empty() || !g.waiting_on(a).is_empty() {
                    left.push(format!("waiting_for={} waiting_on={}", g.waiting_for(a).len(), g.waiting_on(a).len()));
                }
                for x in 1..=n {
                    if g.waiting_for(x).contains(&a) {
                        left.push(format!("T{x} still waits for it"));
                    }
                    if g.waiting_on(x).contains(&a) {
                        left.push(format!("still listed as waiter on T{x}"));
                    }
                }
                if !left.is_empty() {
                    out.violation = Some(Violation { class: "removed-tx-still-in-graph".into(), detail: format!("after remove_transaction(T{a}): {left:?}") });
                    out.nontrivial = true;
                    return out;
                }
            },
            Op::Advance { ms } => ctx.advance_ms(u64::from(*ms)),
            Op::CleanStale => {
                // "Remove transactions whose wait-start time is older than ttl_ms":
                // the waits that timed out are those whose recorded start (public
                // observer) is more than the configured TTL ago; each such
                // transaction "no longer appears as waiter or holder", every other
                // recorded relation stays (checked by the read-back below)
                let now = wall_ms(ctx);
                let age: Vec<(u64, u64)> = (1..=n).filter_map(|t| g.get_wait_start(t).map(|s| (t, now.saturating_sub(s)))).collect();
                // the call reads the clock after this read: a wait exactly at the
                // boundary could fall on either side -> the step is a no-op
                if age.iter().any(|(_, a)| *a == dp.ttl_ms) {
                    ctx.event("cleanup_stale_edges skipped (a wait exactly at the TTL boundary)");
                    continue;
                }
                let stale: BTreeSet<u64> = age.iter().filter(|(_, a)| *a > dp.ttl_ms).map(|(t, _)| *t).collect();
                let k = g.cleanup_stale_edges(dp.ttl_ms);
                let before = edges.len();
                edges.retain(|e| !stale.contains(&e.0) && !stale.contains(&e.1));
                if !stale.is_empty() {
                    ctx.probe("stale_waits_cleaned");
                    if edges.len() < before && !edges.is_empty() {
                        ctx.probe("stale_waits_cleaned_some_edges_stay");
                    }
                }
                ctx.event(&format!("cleanup_stale_edges({}) -> {k}, {} transactions were stale", dp.ttl_ms, stale.len()));
            },
            Op::Check => {},
            _ => continue,
        }
        ctx.fp(op_name(op));
        // the recorded relations, read back
        for t in 1..=n {
            let wf: BTreeSet<u64> = g.waiting_for(t).into_iter().collect();
            let exp: BTreeSet<u64> = edges.iter().filter(|e| e.0 == t).map(|e| e.1).collect();
            let wo: BTreeSet<u64> = g.waiting_on(t).into_iter().collect();
            let expo: BTreeSet<u64> = edges.iter().filter(|e| e.1 == t).map(|e| e.0).collect();
            if wf != exp || wo != expo {
                out.violation = Some(Violation {
                    class: format!("recorded-edges-differ-from-calls:after-{}", op_name(op)),
                    detail: format!("after {op:?}: waiting_for(T{t})={wf:?} expected {exp:?}; waiting_on(T{t})={wo:?} expected {expo:?}"),
                });
                out.nontrivial = true;
                return out;
            }
        }
        if !matches!(op, Op::Check) {
            continue;
        }
        // "The deadlock detector reports a cycle exactly when the recorded
        // wait-for relations contain one"
        let cyclic = has_cycle(&edges);
        let cyc = g.detect_cycles();
        let infos: Vec<(Vec<u64>, u64)> = det.detect().into_iter().map(|i| (i.cycle, i.victim_tx_id)).collect();
        ctx.event(&format!("check: {} edges cyclic={cyclic} detect_cycles={} detect(max_cycle_length={} cascade={} enabled={})={}", edges.len(), cyc.len(), dp.limit, dp.cascade, dp.enabled, infos.len()));
        // the graph's own (unbounded) search
        if cyclic == cyc.is_empty() {
            out.violation = Some(Violation {
                class: format!("detect-cycles-disagrees-with-model:{}", if cyclic { "missed" } else { "phantom" }),
                detail: format!("edges {edges:?}: model cyclic={cyclic}, detect_cycles -> {} cycles", cyc.len()),
            });
            out.nontrivial = true;
            return out;
        }
        for c in &cyc {
            if !is_real_cycle(c, &edges) {
                out.violation = Some(Violation { class: "reported-cycle-not-in-model".into(), detail: format!("detect_cycles reported {c:?}, which is not a cycle of {edges:?}") });
                out.nontrivial = true;
                return out;
            }
            cycles_checked += 1;
            if c.len() >= 3 {
                ctx.probe("cycle_len_ge3_detected");
            }
            // "the victim it names belongs to that cycle"
            let v = det.select_victim(c);
            ctx.probe(policy_probe);
            if with_fn {
                ctx.probe("victim_most_locks_with_count_fn");
            }
            if !c.contains(&v) {
                out.violation = Some(Violation { class: format!("victim-outside-cycle:{policy:?}"), detail: format!("cycle {c:?} victim {v}") });
                out.nontrivial = true;
                return out;
            }
        }
        // the detector under the configuration of the case
        if let Some(v) = judge_detect(ctx, &edges, &infos, &dp, "model", &|e| format!("{e:?}")) {
            out.violation = Some(v);
            out.nontrivial = true;
            return out;
        }
        cycles_checked += infos.len() as u64;
        if let Some(mc) = find_model_cycle(&edges) {
            let v = det.select_victim(&mc);
            if !mc.contains(&v) {
                out.violation = Some(Violation { class: format!("victim-outside-cycle:{policy:?}"), detail: format!("model cycle {mc:?} victim {v}") });
                out.nontrivial = true;
                return out;
            }
        }
        for a in 1..=n {
            for b in 1..=n {
                if a != b && g.would_create_cycle(a, b) != reachable(&edges, b, a) {
                    out.violation = Some(Violation {
                        class: "would-create-cycle-disagrees".into(),
                        detail: format!("would_create_cycle(T{a},T{b}) = {} but path T{b}~>T{a} in {edges:?} is {}", g.would_create_cycle(a, b), reachable(&edges, b, a)),
                    });
                    out.nontrivial = true;
                    return out;
                }
            }
        }
    }
    out.nontrivial = cycles_checked > 0;
    out
}

// ------------------------------------------------------------------------
// generation
// ------------------------------------------------------------------------

fn gen_mask(rng: &mut Rng, nkeys: u8) -> u8 {
    let full = (1u8 << nkeys) - 1;
    let m = match rng.below(10) {
        0..=3 => 1u8 << rng.below(u64::from(nkeys)),
        4..=7 => (1u8 << rng.below(u64::from(nkeys))) | (1u8 << rng.below(u64::from(nkeys))),
        _ => rng.range(1, u64::from(full)) as u8,
    };
    m & full
}

fn gen_lm_op(rng: &mut Rng, home: u8, ntx: u8, nkeys: u8, seq: bool) -> Op {
    let tx = if rng.chance(3, 4) { home } else { rng.below(u64::from(ntx)) as u8 };
    let adv = *rng.pick(&[100u32, 300, 900, 1000, 3000]);
    match rng.below(100) {
        0..=24 => Op::Lock { tx, keys: gen_mask(rng, nkeys) },
        25..=54 => Op::LockWt { tx, keys: gen_mask(rng, nkeys), prio: if rng.chance(1, 3) { Some(rng.below(5) as u8) } else { None } },
        55..=59 => Op::Release { tx },
        60..=69 => Op::RelHandle { pick: rng.below(16) as u8, wc: rng.chance(1, 2) },
        70..=77 => Op::Finish { tx, plain: rng.chance(1, 3) },
        78..=84 => Op::Sweep { wc: rng.chance(1, 2) },
        85..=92 => Op::Advance { ms: adv },
        93..=96 => Op::Observe { key: rng.below(u64::from(nkeys)) as u8 },
        _ => {
            if seq {
                Op::SaveRestore
            } else {
                Op::Detect
            }
        },
    }
}

fn gen_tail(rng: &mut Rng, ntx: u8, nkeys: u8, timeout: u64, len: usize, coord: bool) -> Vec<Op> {
    let mut t = Vec::new();
    for _ in 0..len {
        if coord {
            let home = rng.below(u64::from(ntx)) as u8;
            t.push(gen_coord_op(rng, home, ntx, nkeys));
        } else {
            let home = rng.below(u64::from(ntx)) as u8;
            t.push(gen_lm_op(rng, home, ntx, nkeys, true));
        }
    }
    if rng.chance(1, 2) {
        // everything expires, then the expiry sweep
        let over = if coord { 30_100 } else { (timeout / 100 + 1) * 100 };
        t.push(Op::Advance { ms: over as u32 });
        if !coord && rng.chance(1, 3) {
            t.push(Op::LockWt { tx: rng.below(u64::from(ntx)) as u8, keys: gen_mask(rng, nkeys), prio: None });
        }
        if coord && rng.chance(1, 3) {
            t.push(Op::Prepare { tx: rng.below(u64::from(ntx)) as u8, shard: rng.below(2) as u8, keys: gen_mask(rng, nkeys) });
        }
        t.push(if coord { Op::Timeouts } else { Op::Sweep { wc: rng.chance(3, 4) } });
    }
    t.push(Op::Detect);
    t
}

/// Every field of the detector's configuration, small values included.
fn gen_det(rng: &mut Rng) -> DetCase {
    DetCase {
        max_cycle_len: match rng.below(10) {
            0..=3 => 0,
            4..=8 => rng.range(2, 5) as u8,
            _ => *rng.pick(&[1u8, 6, 7, 8, 50]),
        },
        cascade_depth: if rng.chance(1, 2) { None } else { Some(rng.below(5) as u8) },
        disabled: rng.chance(1, 30),
        no_auto_abort: rng.chance(1, 4),
        interval_ms: if rng.chance(1, 2) { 0 } else { *rng.pick(&[1u32, 10, 1000]) },
        edge_ttl_ms: if rng.chance(1, 3) { 0 } else { *rng.pick(&[20u32, 100, 500, 5000]) },
    }
}

fn gen_lock_counts(rng: &mut Rng) -> Vec<u8> {
    if rng.chance(2, 3) {
        (0..8).map(|_| rng.below(5) as u8).collect()
    } else {
        vec![]
    }
}

/// One participant-level operation. `last` = per transaction the latest
/// prepare generated for it (what a coordinator would retransmit).
fn gen_part_op(rng: &mut Rng, tx: u8, nkeys: u8, timeout: u64, last: &mut BTreeMap<u8, (u8, u8)>) -> Op {
    match rng.below(100) {
        0..=54 => {
            let (keys, val) = match last.get(&tx).copied() {
                // the identical request again
                Some(l) if rng.chance(1, 2) => l,
                // a changed one: other value, other key set
                Some((k, v)) if rng.chance(1, 2) => {
                    if rng.chance(1, 2) {
                        (k, v.wrapping_add(1) % 4)
                    } else {
                        (gen_mask(rng, nkeys), v)
                    }
                },
                _ => (if rng.chance(3, 4) { 1u8 << rng.below(u64::from(nkeys)) } else { gen_mask(rng, nkeys) }, rng.below(4) as u8),
            };
            last.insert(tx, (keys, val));
            Op::PPrepare { tx, keys, val }
        },
        55..=64 => {
            last.remove(&tx);
            Op::PCommit { tx }
        },
        65..=74 => {
            last.remove(&tx);
            Op::PAbort { tx }
        },
        75..=94 => {
            // short of the lease, just past it, far past it
            let over = (timeout / 100 + 1) * 100;
            Op::Advance { ms: *rng.pick(&[100u64, over, over, over + 100, 3 * over]) as u32 }
        },
        _ => Op::Observe { key: rng.below(u64::from(nkeys)) as u8 },
    }
}

fn gen_part(rng: &mut Rng, nkeys: u8, sticky: u64) -> Case {
    let timeout = *rng.pick(&[150u64, 250, 950]);
    let ntx = rng.range(2, 4) as u8;
    let nthreads = if rng.chance(1, 2) { 0 } else { rng.range(1, 3) as u8 };
    let mut last: BTreeMap<u8, (u8, u8)> = BTreeMap::new();
    let mut threads = Vec::new();
    for t in 0..nthreads {
        // the transactions this thread speaks for: World::part_owns
        let own: Vec<u8> = (0..ntx).filter(|x| (x % nthreads) == t).collect();
        let n = rng.range(2, 6) as usize;
        let mut p = Vec::new();
        for _ in 0..n {
            if own.is_empty() {
                p.push(Op::Advance { ms: 100 });
            } else {
                let tx = *rng.pick(&own);
                p.push(gen_part_op(rng, tx, nkeys, timeout, &mut last));
            }
        }
        threads.push(p);
    }
    let tl = if nthreads == 0 { rng.range(6, 20) as usize } else { rng.below(8) as usize };
    let mut tail = Vec::new();
    for _ in 0..tl {
        let tx = rng.below(u64::from(ntx)) as u8;
        tail.push(gen_part_op(rng, tx, nkeys, timeout, &mut last));
    }
    let slen = rng.range(60, 300) as usize;
    Case {
        mode: Mode::Part,
        timeout_ms: timeout,
        ntx,
        nshards: 1,
        schedule: if nthreads == 0 { vec![] } else { sched::gen_schedule(rng, slen, sticky) },
        threads,
        tail,
        policy: 0,
        cap: 0,
        lock_counts: vec![],
        det: DetCase::default(),
    }
}

fn gen_coord_op(rng: &mut Rng, home: u8, ntx: u8, nkeys: u8) -> Op {
    let tx = if rng.chance(3, 4) { home } else { rng.below(u64::from(ntx)) as u8 };
    match rng.below(100) {
        0..=49 => Op::Prepare { tx, shard: rng.below(2) as u8, keys: gen_mask(rng, nkeys) },
        50..=61 => Op::Commit { tx },
        62..=73 => Op::Abort { tx },
        74..=81 => Op::Timeouts,
        82..=91 => Op::Advance { ms: *rng.pick(&[100u32, 1000, 4900, 5100, 30_100]) },
        92..=96 => Op::Observe { key: rng.below(u64::from(nkeys)) as u8 },
        _ => Op::Detect,
    }
}

impl Scenario for C12 {
    type Case = Case;
    fn id(&self) -> &'static str {
        "C12"
    }
    fn level(&self) -> &'static str {
        "exploration"
    }
    fn runs(&self, tier: Tier) -> u64 {
        match tier {
            Tier::Quick => 60_000,
            Tier::Thorough => 1_500_000,
        }
    }

    fn generate(&self, rng: &mut Rng, _tier: Tier, _index: u64) -> Case {
        let nkeys = rng.range(2, u64::from(NKEYS)) as u8;
        let sticky = *rng.pick(&[20u64, 50, 70, 85, 95]);
        match rng.below(100) {
            // (a) concurrent lock-manager programs
            0..=40 => {
                let nthreads = rng.range(2, 6) as u8;
                let ntx = rng.range(u64::from(nthreads), u64::from((nthreads + 2).min(8))) as u8;
                let timeout = *rng.pick(&[250u64, 950, 2950]);
                let mut threads = Vec::new();
                for t in 0..nthreads {
                    let n = rng.range(2, 5) as usize;
                    let mut p: Vec<Op> = (0..n).map(|_| gen_lm_op(rng, t, ntx, nkeys, false)).collect();
                    if rng.chance(1, 2) {
                        p.push(Op::Finish { tx: t, plain: rng.chance(1, 3) });
                    }
                    threads.push(p);
                }
                let tl = rng.below(4) as usize;
                let slen = rng.range(100, 400) as usize;
                Case {
                    mode: Mode::Lm,
                    timeout_ms: timeout,
                    ntx,
                    nshards: 1,
                    threads,
                    schedule: sched::gen_schedule(rng, slen, sticky),
                    tail: gen_tail(rng, ntx, nkeys, timeout, tl, false),
                    policy: rng.below(4) as u8,
                    cap: if rng.chance(1, 8) { rng.range(1, 3) as u8 } else { 0 },
                    lock_counts: gen_lock_counts(rng),
                    det: gen_det(rng),
                }
            },
            // (b) sequential programs incl. serialize/restore
            41..=53 => {
                let ntx = rng.range(2, 6) as u8;
                let timeout = *rng.pick(&[250u64, 950, 2950]);
                let tl = rng.range(6, 24) as usize;
                Case {
                    mode: Mode::Lm,
                    timeout_ms: timeout,
                    ntx,
                    nshards: 1,
                    threads: vec![],
                    schedule: vec![],
                    tail: gen_tail(rng, ntx, nkeys, timeout, tl, false),
                    policy: rng.below(4) as u8,
                    cap: if rng.chance(1, 8) { rng.range(1, 3) as u8 } else { 0 },
                    lock_counts: gen_lock_counts(rng),
                    det: gen_det(rng),
                }
            },
            // coordinator paths
            54..=71 => {
                let nthreads = rng.range(2, 5) as u8;
                let ntx = rng.range(2, 5) as u8;
                let nshards = rng.range(1, 2) as u8;
                let mut threads = Vec::new();
                for t in 0..nthreads {
                    let home = t % ntx;
                    let mut p = Vec::new();
                    if rng.chance(2, 3) {
                        // a plausible life: prepare every shard, then decide
                        for s in 0..nshards {
                            p.push(Op::Prepare { tx: home, shard: s, keys: gen_mask(rng, nkeys) });
                        }
                        p.push(if rng.chance(1, 2) { Op::Commit { tx: home } } else { Op::Abort { tx: home } });
                        for _ in 0..rng.below(3) {
                            let at = rng.usize_below(p.len() + 1);
                            p.insert(at, gen_coord_op(rng, home, ntx, nkeys));
                        }
                    } else {
                        for _ in 0..rng.range(2, 5) {
                            p.push(gen_coord_op(rng, home, ntx, nkeys));
                        }
                    }
                    threads.push(p);
                }
                let tl = rng.below(4) as usize;
                let slen = rng.range(100, 500) as usize;
                Case {
                    mode: Mode::Coord,
                    timeout_ms: 4950,
                    ntx,
                    nshards,
                    threads,
                    schedule: sched::gen_schedule(rng, slen, sticky),
                    tail: gen_tail(rng, ntx, nkeys, 4950, tl, true),
                    policy: 0,
                    cap: 0,
                    lock_counts: vec![],
                    det: DetCase::default(),
                }
            },
            // (part) a participant shard: prepares (first, retransmitted, changed),
            // commits, aborts for 2-4 transactions, sequentially or from 1-3 threads
            72..=83 => gen_part(rng, nkeys, sticky),
            // (c) wait-for graphs
            _ => {
                let ntx = rng.range(3, 8) as u8;
                let n = rng.range(4, 30) as usize;
                let mut ops = Vec::new();
                while ops.len() < n {
                    let prio = if rng.chance(1, 2) { Some(rng.below(6) as u8) } else { None };
                    match rng.below(100) {
                        0..=39 => ops.push(Op::AddWait { w: rng.below(u64::from(ntx)) as u8, h: rng.below(u64::from(ntx)) as u8, prio }),
                        40..=47 => {
                            // a queue of waiters leading into a ring: q0 -> q1 -> .. -> r0 -> r1 -> .. -> r0,
                            // edges added in any order
                            let ring = rng.range(2, u64::from(ntx.min(5))) as u8;
                            let queue = rng.range(0, u64::from(ntx - ring)) as u8;
                            let s = rng.below(u64::from(ntx)) as u8;
                            let node = |i: u8| (s + i) % ntx;
                            let mut es: Vec<(u8, u8)> = (0..queue).map(|i| (node(i), node(i + 1))).collect();
                            for i in 0..ring {
                                es.push((node(queue + i), node(queue + (i + 1) % ring)));
                            }
                            if rng.chance(1, 2) {
                                for i in (1..es.len()).rev() {
                                    let j = rng.usize_below(i + 1);
                                    es.swap(i, j);
                                }
                            }
                            for (a, b) in es {
                                ops.push(Op::AddWait { w: a, h: b, prio });
                                if rng.chance(1, 4) {
                                    ops.push(Op::Advance { ms: rng.range(1, 50) as u32 });
                                }
                            }
                            if rng.chance(1, 2) {
                                ops.push(Op::Check);
                            }
                        },
                        48..=54 => {
                            // a chain, possibly closed into a ring
                            let len = rng.range(2, u64::from(ntx)) as u8;
                            let s = rng.below(u64::from(ntx)) as u8;
                            for i in 0..len - 1 {
                                ops.push(Op::AddWait { w: (s + i) % ntx, h: (s + i + 1) % ntx, prio });
                                if rng.chance(1, 3) {
                                    ops.push(Op::Advance { ms: rng.range(1, 50) as u32 });
                                }
                            }
                            if rng.chance(2, 3) {
                                ops.push(Op::AddWait { w: (s + len - 1) % ntx, h: s, prio });
                            }
                        },
                        55..=64 => ops.push(Op::RemoveWait { w: rng.below(u64::from(ntx)) as u8, h: rng.below(u64::from(ntx)) as u8 }),
                        65..=74 => ops.push(Op::RemoveTx { t: rng.below(u64::from(ntx)) as u8 }),
                        75..=80 => ops.push(Op::Advance { ms: rng.range(1, 200) as u32 }),
                        81..=83 => ops.push(Op::CleanStale),
                        _ => ops.push(Op::Check),
                    }
                }
                Case {
                    mode: Mode::Graph,
                    timeout_ms: 0,
                    ntx,
                    nshards: 1,
                    threads: vec![],
                    schedule: vec![],
                    tail: ops,
                    policy: rng.below(4) as u8,
                    cap: if rng.chance(1, 6) { rng.range(1, 3) as u8 } else { 0 },
                    lock_counts: gen_lock_counts(rng),
                    det: gen_det(rng),
                }
            },
        }
    }

    fn run(&self, case: &Case, ctx: &Arc<RunCtx>) -> RunOut {
        // switch threads only at this scenario's own layer's sites (see sched::Baton::allow)
        crate::sched::set_allowed_sites(&["c12.", "tensor_chain."]);
        ctx.event(&format!("C12 mode={:?} threads={} tail={}", case.mode, case.threads.len(), case.tail.len()));
        match case.mode {
            Mode::Graph => run_graph(case, ctx),
            _ => run_lm_or_coord(case, ctx),
        }
    }

    fn shrink(&self, case: &Case) -> Vec<Case> {
        let mut v = Vec::new();
        // whole threads
        if case.threads.len() > 1 {
            for i in 0..case.threads.len() {
                let mut c = case.clone();
                c.threads.remove(i);
                v.push(c);
            }
        }
        for (i, p) in case.threads.iter().enumerate() {
            for q in drop_chunks(p) {
                let mut c = case.clone();
                c.threads[i] = q;
                v.push(c);
            }
        }
        for t in drop_chunks(&case.tail) {
            let mut c = case.clone();
            c.tail = t;
            v.push(c);
        }
        if !case.schedule.is_empty() {
            let mut c = case.clone();
            c.schedule = vec![];
            v.push(c);
            for s in drop_chunks(&case.schedule).into_iter().take(12) {
                let mut c = case.clone();
                c.schedule = s;
                v.push(c);
            }
            for (i, p) in case.schedule.iter().enumerate() {
                if *p != sched::STAY {
                    let mut c = case.clone();
                    c.schedule[i] = sched::STAY;
                    v.push(c);
                }
            }
        }
        // fewer keys per request
        let simpler = |op: &Op| -> Option<Op> {
            match op {
                Op::Lock { tx, keys } if keys.count_ones() > 1 => Some(Op::Lock { tx: *tx, keys: keys & (keys - 1) }),
                Op::LockWt { tx, keys, prio } if keys.count_ones() > 1 => Some(Op::LockWt { tx: *tx, keys: keys & (keys - 1), prio: *prio }),
                Op::LockWt { tx, keys, prio: Some(_) } => Some(Op::LockWt { tx: *tx, keys: *keys, prio: None }),
                Op::LockWt { tx, keys, prio: None } => Some(Op::Lock { tx: *tx, keys: *keys }),
                Op::Prepare { tx, shard, keys } if keys.count_ones() > 1 => Some(Op::Prepare { tx: *tx, shard: *shard, keys: keys & (keys - 1) }),
                Op::PPrepare { tx, keys, val } if *val > 1 => Some(Op::PPrepare { tx: *tx, keys: *keys, val: 1 }),
                _ => None,
            }
        };
        for (i, p) in case.threads.iter().enumerate() {
            for (j, op) in p.iter().enumerate() {
                if let Some(s) = simpler(op) {
                    let mut c = case.clone();
                    c.threads[i][j] = s;
                    v.push(c);
                }
            }
        }
        for (j, op) in case.tail.iter().enumerate() {
            if let Some(s) = simpler(op) {
                let mut c = case.clone();
                c.tail[j] = s;
                v.push(c);
            }
        }
        if case.cap != 0 {
            let mut c = case.clone();
            c.cap = 0;
            v.push(c);
        }
        // detector configuration: towards the defaults, field by field
        if case.det != DetCase::default() {
            let d = DetCase::default();
            let mut c = case.clone();
            c.det = DetCase { max_cycle_len: case.det.max_cycle_len, ..d.clone() };
            if c.det != case.det {
                v.push(c);
            }
            for f in 0..6 {
                let mut c = case.clone();
                match f {
                    0 => c.det.max_cycle_len = 0,
                    1 => c.det.cascade_depth = None,
                    2 => c.det.disabled = false,
                    3 => c.det.no_auto_abort = false,
                    4 => c.det.interval_ms = 0,
                    _ => c.det.edge_ttl_ms = 0,
                }
                if c.det != case.det {
                    v.push(c);
                }
            }
        }
        if case.policy % 4 != 0 {
            let mut c = case.clone();
            c.policy = 0;
            v.push(c);
        }
        if !case.lock_counts.is_empty() {
            let mut c = case.clone();
            c.lock_counts = vec![];
            v.push(c);
        }
        v
    }

    fn required_probes(&self) -> Vec<&'static str> {
        vec![
            "calls_overlapped_runs",
            "conflict_partial_overlap",
            "takeover_of_expired_lock",
            "clock_advanced_inside_trylock_window",
            "add_wait_interleaved_with_remove_transaction",
            "linearization_differs_from_return_order",
            "clean_end_in_concurrent_phase",
            "timed_out_tx_checked",
            "save_restore",
            "coord_commit_ok",
            "coord_abort_ok",
            "coord_timeout",
            "cycle_len_ge3_detected",
            "victim_policy_youngest",
            "victim_policy_oldest",
            "victim_policy_lowest_priority",
            "victim_policy_most_locks",
            // detector configuration as part of the case
            "small_cycle_limit",
            "cycle_within_small_limit",
            "waiters_queued_behind_cycle_within_small_limit",
            "cycle_within_small_limit_beside_longer_cycle",
            "only_cycles_beyond_limit",
            "cascade_depth_non_default_with_several_cycles",
            "several_deadlocks_reported",
            "detector_disabled",
            "lm_cycle_recorded",
            "stale_waits_cleaned",
            // participant configuration
            "part_retransmission_granted",
            "part_retransmission_refused_after_takeover",
            "part_changed_prepare",
            "part_commit_of_prepared",
            "part_abort_of_prepared",
            "part_calls_overlapped",
            "part_takeover_of_expired_lock",
        ]
    }

    /// a run is ~100-1000 baton hand-overs between OS threads; on a heavily
    /// loaded machine (load average ~100 was seen) each can wait for a time
    /// slice, so the default 120 s is too tight for a *harness* verdict
    fn watchdog_secs(&self) -> u64 {
        600
    }

    fn rule(&self) -> String {
        "A case is one of: (a) 2-6 baton-scheduled threads each running 2-6 lock-manager operations (try_lock, try_lock_with_wait_tracking, release, release_by_handle[_with_wait_cleanup], end-of-transaction, cleanup_expired[_with_wait_cleanup], clock advance, lock_holder, detect_cycles) over 2-4 keys and <=8 transactions under an explicit schedule, followed by a sequential tail; (b) a sequential program of 6-24 such operations incl. serialize/restore; (coord) 2-5 threads of handle_prepare+record_vote/commit/abort/cleanup_timeouts/clock advance on a DistributedTxCoordinator with 2-5 begun transactions; (c) a sequential program of 4-30 add_wait/remove_wait/remove_transaction/cleanup_stale_edges/check operations on <=8 transactions (single edges, chains, rings, queues of waiters leading into a ring); (part) a real TxParticipant (own LockManager with a lease of 150/250/950 ms, own in-memory store) receiving prepare (first, identical retransmission, changed value or key set; Put/Delete operations), commit and abort for 2-4 transactions over 2-4 keys with clock advances short of / past the lease, either as a sequential program of 6-20 operations or from 1-3 baton-scheduled threads (each transaction driven by one thread, as by its coordinator) followed by a sequential tail; every prepare is judged as the lock request it is (Yes = grant under the returned handle, or a repeated vote under an earlier handle whose keys the transaction all still holds unexpired; Conflict = refusal), commit/abort as the release of the recorded handle followed by the none-left-behind check on the participant's lock manager. In (a), (b) and (c) the wait-for graph is the one of a DeadlockDetector whose whole configuration is drawn with the case: victim policy (4), max_edges_per_tx (default or 1-3), max_cycle_length (default or 1-8, 50), victim_cascade_depth (default or 0-4), enabled, auto_abort_victim, detection_interval_ms, edge_ttl_ms; detect() is judged at every check. Non-trivial: (a)/(coord)/(part, threads) at least two lock-manager calls of different threads overlapped in time; (b)/(part, sequential) at least one grant and one refusal; (c) at least one reported cycle was checked. Distinct: hash of configuration and the sequence of call kinds/outcomes in linearization order.".into()
    }

    fn components(&self) -> Value {
        json!({
            "real": ["tensor_chain::LockManager", "tensor_chain::WaitForGraph", "tensor_chain::DeadlockDetector", "tensor_chain::DistributedTxCoordinator (begin, handle_prepare, record_vote, commit, abort, cleanup_timeouts; no WAL)", "tensor_chain::sync_compat locks in their neumann_verif form (every acquisition a schedule point)", "SerializableLockState via serde_json", "tensor_chain::TxParticipant (prepare, commit, abort) with its own LockManager and an in-memory TensorStore"],
            "simulated": ["thread interleaving: baton scheduler, explicit schedule in the case", "wall clock (lock expiry, transaction timeout, wait start times)", "getrandom (HashMap order, tx ids)"],
            "stub": ["no network, no participants: votes are fed straight from handle_prepare into record_vote"]
        })
    }

    fn assumptions(&self) -> Vec<String> {
        vec![
            "a lock is expired exactly when now_ms - acquired_at_ms > timeout_ms (the code's own rule); clock advances are multiples of 100 ms and Lm timeouts end in 50, so no verdict hinges on the boundary".into(),
            "'ends' at lock-manager level means what the coordinator does: release_by_handle_with_wait_cleanup for every granted handle followed by remove_transaction, or release + remove_transaction (the coordinator configuration uses the coordinator's own commit/abort/cleanup_timeouts instead)".into(),
            "a transaction has timed out when it lost a lock through expiry (swept or taken over) while it had issued no operation since before that lock expired, and an expiry sweep ran afterwards".into(),
            "under concurrency the wait-for graph is judged only at quiescence (its updates span several critical sections; the property speaks of the recorded relations)".into(),
            "which blocker a refusal names and which edges a refused request records are not judged beyond: the named blocker holds one of the requested keys".into(),
            "max_cycle_length ('Maximum cycle length to detect') may suppress the report of cycles LONGER than it and nothing else: when the recorded relations contain a cycle of at most max_cycle_length transactions, detect() must report a deadlock; when every recorded cycle is longer, reporting nothing is accepted; a disabled detector is not expected to report; whatever is reported must be a cycle of the recorded relations with the victim on it".into(),
            "a wait has timed out for cleanup_stale_edges(edge_ttl_ms) when its recorded start (get_wait_start) is more than edge_ttl_ms before the simulated clock; the step is skipped when a wait is exactly at the boundary".into(),
        ]
    }
}
