//! Shared Raft harness: real `RaftNode`s on `SimTransport`, driven by the
//! kernel instead of `RaftNode::run`'s tokio select loop; node images through
//! the public `save_to_store`/`load_from_store` observers.

use crate::ctx::RunCtx;
use crate::net::{new_net, now_or_never, InFlight, Net, SimTransport};
use std::sync::Arc;
use tensor_chain::block::{Block, BlockHeader};
use tensor_chain::network::{LogEntry, Message};
use tensor_chain::raft::{RaftConfig, RaftNode, RaftState};
use tensor_store::{SparseVector, TensorStore};

#[derive(Clone, Debug, PartialEq, Eq)]
pub struct Ent {
    pub term: u64,
    pub index: u64,
    /// unique payload id (block height field) and proposer
    pub payload: u64,
    pub proposer: String,
}

#[derive(Clone, Debug, PartialEq, Eq)]
pub struct Image {
    pub term: u64,
    pub vote: Option<String>,
    pub log: Vec<Ent>,
}

pub fn ent_of(e: &LogEntry) -> Ent {
    Ent { term: e.term, index: e.index, payload: e.block.header.height, proposer: e.block.header.proposer.clone() }
}

pub fn mk_block(payload: u64, proposer: &str, with_embedding: bool) -> Block {
    let mut h = BlockHeader::default();
    h.height = payload;
    h.proposer = proposer.to_string();
    if with_embedding {
        let mut sv = SparseVector::new(8);
        sv.set((payload % 8) as usize, 1.0);
        sv.set(((payload / 8) % 8) as usize, 0.5);
        h.delta_embedding = sv;
    }
    Block { header: h, transactions: Vec::new(), signatures: Vec::new() }
}

/// (term, vote, log) of a live node through its public persistence observer.
pub fn image(node: &RaftNode) -> Image {
    // TensorStore::new() pre-allocates its embedding slab (expensive); one scratch
    // store per thread is reused, the node's key is overwritten on every call.
    thread_local! {
        static SCRATCH: TensorStore = TensorStore::new();
    }
    SCRATCH.with(|st| {
        node.save_to_store(st).expect("save_to_store");
        let (term, vote, log) = RaftNode::load_from_store(node.node_id(), st).expect("load_from_store");
        Image { term, vote, log: log.iter().map(ent_of).collect() }
    })
}

pub fn role_str(r: RaftState) -> &'static str {
    match r {
        RaftState::Follower => "F",
        RaftState::Candidate => "C",
        RaftState::Leader => "L",
        _ => "?",
    }
}

pub fn msg_kind(m: &Message) -> &'static str {
    match m {
        Message::RequestVote(_) => "RV",
        Message::RequestVoteResponse(_) => "RVR",
        Message::PreVote(_) => "PV",
        Message::PreVoteResponse(_) => "PVR",
        Message::TimeoutNow(_) => "TN",
        Message::AppendEntries(_) => "AE",
        Message::AppendEntriesResponse(_) => "AER",
        Message::SnapshotRequest(_) => "SR",
        Message::SnapshotResponse(_) => "SRR",
        _ => "other",
    }
}

/// The sender's term carried by a message that makes its receiver adopt a higher term.
pub fn msg_term(m: &Message) -> Option<u64> {
    match m {
        Message::RequestVote(r) => Some(r.term),
        Message::RequestVoteResponse(r) => Some(r.term),
        Message::AppendEntries(a) => Some(a.term),
        Message::AppendEntriesResponse(r) => Some(r.term),
        _ => None,
    }
}

pub fn msg_brief(m: &Message) -> String {
    match m {
        Message::RequestVote(r) => format!("RV(t{} c={} last={}@{})", r.term, r.candidate_id, r.last_log_index, r.last_log_term),
        Message::RequestVoteResponse(r) => format!("RVR(t{} granted={})", r.term, r.vote_granted),
        Message::PreVote(r) => format!("PV(t{} c={})", r.term, r.candidate_id),
        Message::PreVoteResponse(r) => format!("PVR(t{} granted={})", r.term, r.vote_granted),
        Message::TimeoutNow(r) => format!("TN(t{})", r.term),
        Message::AppendEntries(a) => format!(
            "AE(t{} prev={}@{} n={} [{}] commit={})",
            a.term,
            a.prev_log_index,
            a.prev_log_term,
            a.entries.len(),
            a.entries.iter().map(|e| format!("{}:{}#{}", e.index, e.term, e.block.header.height)).collect::<Vec<_>>().join(","),
            a.leader_commit
        ),
        Message::AppendEntriesResponse(r) => format!("AER(t{} ok={} match={})", r.term, r.success, r.match_index),
        _ => "other".into(),
    }
}

pub struct Cluster {
    pub ids: Vec<String>,
    pub nodes: Vec<Option<Arc<RaftNode>>>,
    pub net: Net,
    pub cfg: RaftConfig,
    pub with_wal: bool,
    pub ctx: Arc<RunCtx>,
}

impl Cluster {
    pub fn new(ctx: &Arc<RunCtx>, n: usize, cfg: RaftConfig, with_wal: bool) -> Self {
        let ids: Vec<String> = (0..n).map(|i| format!("n{i}")).collect();
        let mut c = Cluster { ids, nodes: vec![None; n], net: new_net(), cfg, with_wal, ctx: ctx.clone() };
        for i in 0..n {
            let _ = c.start(i);
        }
        c
    }

    /// Cluster object in which only the listed nodes are real; the others are
    /// played by the scenario (scripted peers).
    pub fn new_partial(ctx: &Arc<RunCtx>, n: usize, cfg: RaftConfig, with_wal: bool, start: &[usize]) -> (Self, Vec<Result<(), String>>) {
        let ids: Vec<String> = (0..n).map(|i| format!("n{i}")).collect();
        let mut c = Cluster { ids, nodes: vec![None; n], net: new_net(), cfg, with_wal, ctx: ctx.clone() };
        let r = start.iter().map(|i| c.start(*i)).collect();
        (c, r)
    }

    pub fn drain_inflight(&self) -> Vec<InFlight> {
        std::mem::take(&mut self.net.lock().unwrap().inflight)
    }

    pub fn wal_path(&self, i: usize) -> String {
        format!("{}/raft.wal", self.ctx.node_dir(&self.ids[i]))
    }

    /// (Re)start node i from its durable state. Err = recovery failed.
    pub fn start(&mut self, i: usize) -> Result<(), String> {
        let id = self.ids[i].clone();
        self.ctx.set_node(Some(&id));
        let tr = SimTransport::new(&id, &self.ids, &self.net);
        let peers: Vec<String> = self.ids.iter().filter(|p| **p != id).cloned().collect();
        let node = if self.with_wal {
            match RaftNode::with_wal(id.clone(), peers, tr, self.cfg.clone(), self.wal_path(i)) {
                Ok(n) => n,
                Err(e) => {
                    self.ctx.set_node(None);
                    return Err(e.to_string());
                },
            }
        } else {
            RaftNode::new(id.clone(), peers, tr, self.cfg.clone())
        };
        self.nodes[i] = Some(Arc::new(node));
        self.ctx.set_node(None);
        Ok(())
    }

    pub fn up(&self, i: usize) -> bool {
        self.nodes[i].is_some()
    }

    pub fn leaders(&self) -> Vec<usize> {
        (0..self.ids.len())
            .filter(|i| self.nodes[*i].as_ref().is_some_and(|n| n.state() == RaftState::Leader))
            .collect()
    }

    pub fn inflight_len(&self) -> usize {
        self.net.lock().unwrap().inflight.len()
    }

    pub fn take_inflight(&self, pick: usize) -> Option<InFlight> {
        let mut g = self.net.lock().unwrap();
        if g.inflight.is_empty() {
            return None;
        }
        let k = pick % g.inflight.len();
        Some(g.inflight.remove(k))
    }

    pub fn idx(&self, id: &str) -> Option<usize> {
        self.ids.iter().position(|x| x == id)
    }

    pub fn blocked(&self, from: &str, to: &str) -> bool {
        self.net.lock().unwrap().blocked.iter().any(|(a, b)| a == from && b == to)
    }

    pub fn push(&self, from: &str, to: &str, msg: Message) {
        let mut g = self.net.lock().unwrap();
        g.next_id += 1;
        let id = g.next_id;
        g.inflight.push(InFlight { id, from: from.to_string(), to: to.to_string(), msg });
    }

    /// Deliver one message to its destination node through `handle_message`,
    /// sending the response (if any) the way `handle_message_async` would.
    /// Returns the response that was queued, for the oracle.
    pub fn deliver(&self, m: &InFlight) -> Option<Message> {
        let i = self.idx(&m.to)?;
        let node = self.nodes[i].as_ref()?.clone();
        self.ctx.set_node(Some(&m.to));
        let resp = node.handle_message(&m.from, &m.msg);
        self.ctx.set_node(None);
        if let Some(r) = &resp {
            self.push(&m.to, &m.from, r.clone());
        }
        resp
    }

    pub fn on_node<R>(&self, i: usize, f: impl FnOnce(&Arc<RaftNode>) -> R) -> Option<R> {
        let node = self.nodes[i].as_ref()?.clone();
        self.ctx.set_node(Some(&self.ids[i]));
        let r = f(&node);
        self.ctx.set_node(None);
        Some(r)
    }

    pub fn tick(&self, i: usize) {
        self.on_node(i, |n| {
            let _ = now_or_never(n.tick_async());
        });
    }
    pub fn election(&self, i: usize) {
        self.on_node(i, |n| {
            let _ = now_or_never(n.start_election_async());
        });
    }
    pub fn pre_vote(&self, i: usize) {
        self.on_node(i, |n| {
            let _ = now_or_never(n.start_pre_vote_async());
        });
    }
    pub fn heartbeat(&self, i: usize) {
        self.on_node(i, |n| {
            let _ = now_or_never(n.send_heartbeats());
        });
    }
}
