#!/usr/bin/env python3
"""Regenerates /verif/MANIFEST.json from the table below (keeps it valid at all times)."""
import json, subprocess
TECH = "deterministic simulation with fault injection"
CLAIMED = {
 "C01": ("exploration", "Seeded search over schedules and fault sequences on a simulated 3/5-node cluster of real RaftNodes (SimTransport: loss, duplication, reordering, partitions; crashes between steps and inside WAL writes; restarts); the six Raft safety invariants are evaluated on the real nodes after every step.", "Sampling, not proof. Fixed membership, no compaction/InstallSnapshot; the tokio run loop is replaced by the kernel calling the same entry points.", TECH + " (SimTransport + interposed clock/disk, Raft invariants as run-time oracle, ddmin-minimised replay)", "DESIGN.md §6 C01"),
 "C02": ("fault_enumeration", "Seeded search over generated programs; for each program every mutating syscall boundary and sampled byte offsets of every log write are enumerated as crash points against the real store on a simulated disk, judged by a prefix-durability model; the rest of the program and a second recovery follow every crash.", "Sampling of programs, complete enumeration of syscall-boundary crash points per program; assumes atomic durable rename/truncate, prefix-granular power loss on log files only.", TECH + " (crash-point enumeration on an interposed disk, prefix-durability reference model)", "DESIGN.md §6 C02"),
 "C10": ("fault_enumeration", "One real WAL-backed RaftNode driven by scripted peers through elections, votes, appends, conflict truncations, leadership and proposals; every mutating syscall boundary and sampled byte offsets of every WAL write are crash points, up to three chained crashes; after each restart (real with_wal) term, vote and acknowledged entries are judged against the promises contained in the messages the node actually released.", "Sampling of programs, complete enumeration of syscall-boundary crash points per program; the two other voters are scripted; snapshot install/compaction not driven.", TECH + " (crash-point enumeration on an interposed disk, promise ledger oracle)", "DESIGN.md §6 C10"),
 "C05": ("exploration", "Seeded search over thread schedules: 1-8 scheduled threads run short programs of node/edge create/delete/update (directed, undirected, self-loops, parallel edges, hubs) on the real GraphEngine; the baton scheduler switches threads at operation boundaries and at hook sites inside the adjacency read-modify-write and between the steps of create_edge/delete_edge/delete_node; at quiescence the five structural clauses and the create/delete accounting are checked through public calls only. Every fifth case is single-threaded (the sequential clause).", "Sampling of schedules (sticky random walks), not enumeration; switches only at hook sites and operation boundaries; node degree < 100 so the rayon branch of delete_node is not entered; TensorStore calls treated as atomic (C11 covers them).", TECH + " (baton scheduler over hook sites, structural invariant oracle at quiescence)", "DESIGN.md §6 C05"),
}
NA_PURE = {
 "C04": "pure function of table content and predicate: no schedule, clock, fault or peer to simulate",
 "C06": "sequential search over stored vectors; HNSW level draws are algorithm input, not a schedule or fault",
 "C15": "parsing is a pure function of the input string",
 "C18": "graph algorithms over a quiescent graph are pure functions of the graph",
 "C20": "byte-slice codecs are pure; only the framing corner touches a stream, too small a part to claim the property",
}
def main():
    props=[json.loads(l) for l in open('/verif/properties.jsonl')]
    hooks=subprocess.run(["git","-C","/repo","log","--format=%H %s","--grep=^verif hook"],capture_output=True,text=True).stdout.strip().splitlines()
    m={"version":1,
       "setup_cmd":"cd sim && CARGO_NET_OFFLINE=true cargo build --release --offline",
       "hooks":{"guard":"neumann_verif (cargo feature; declared in tensor_store, forwarded by graph_engine, relational_engine, tensor_blob, tensor_chain; no workspace member enables it)",
                "enable":"/verif/sim/Cargo.toml depends on the /repo crates by path with features=[\"neumann_verif\"]; every check rebuilds nsim from /repo's working tree",
                "baseline_off_cmd":"cd /repo && cargo nextest run --workspace --no-fail-fast --test-threads 8 --offline || cargo test --workspace --no-fail-fast --offline",
                "source_commits":[h.split()[0] for h in hooks],
                "add_only":False},
       "engines":[{"name":"nsim","path":"sim","serves_properties":sorted(CLAIMED),"kind_free_text":"deterministic simulator: libc interposition (clock, randomness, sleep, file I/O with crash/power-loss model), SimTransport, baton thread scheduler over hook sites, seeded search driver with minimisation, replay files and evidence writer"}],
       "checks":[],"not_applicable":[],
       "notes":"add_only is false because one hook edit changes an existing cfg attribute (tensor_chain/src/sync_compat.rs: the parking_lot re-export gains not(feature=neumann_verif)); all other hook edits are additions. Defects found and repaired are listed in known_findings.json (fixed) with their fix: commits."}
    for p in props:
        i=p['id']
        if i in CLAIMED:
            lvl,text,note,tech,ref=CLAIMED[i]
            m["checks"].append({"property_id":i,"quick_cmd":f"./check {i} --tier quick","thorough_cmd":f"./check {i} --tier thorough","evidence_file":f"evidence/{i}.json","replay_cmd_template":"./check replay {path}","engine":"nsim",
              "level_claimed":{"category":lvl,"text":text,"design_ref":ref},"level_note":note,"technique":tech})
        elif i in NA_PURE:
            m["not_applicable"].append({"property_id":i,"reason":NA_PURE[i]})
        else:
            m["not_applicable"].append({"property_id":i,"reason":"check planned in DESIGN.md but not built yet; not claimed until it exists"})
    json.dump(m,open('/verif/MANIFEST.json','w'),indent=1)
main()
