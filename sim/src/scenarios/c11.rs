//! C11 — Concurrent store operations behave as if executed one at a time.
//!
//! One real `TensorStore`, built the way the case says (plain / capacity hint /
//! Bloom filter / instrumentation / both; `open_durable[_with_bloom]` on the
//! simulated disk with the case's `WalConfig` knobs; optionally dropped and
//! `recover[_with_bloom]`ed after the setup), 2-8 threads under the baton scheduler. Every thread issues put / get /
//! delete / exists / scan(prefix) (put_durable / delete_durable when the log is
//! on) on a few contended keys of every key class. Thread switches happen at
//! operation boundaries and at the `neumann_verif` hook sites inside
//! `SlabRouter`, `MetadataSlab` and `CacheRing` (between the slabs an embedding
//! operation touches, between `exists` and the removal in `delete`, between
//! shards / sources of a scan, between the log append and the in-memory apply
//! of a durable write), at every slab-lock acquisition (`store.lock`) and at the
//! Bloom filter update (`store.bloom.add`).
//!
//! Oracle (1): the invoke/return history (stamped with the kernel's sequence
//! numbers) must be linearizable against the store's *sequential* semantics
//! (per-key register; scan = atomic read of the key set under a prefix),
//! decided by a Wing-Gong/Lowe search with memoisation.
//! A write the store rejected (`Err`: the log refused the record) must have no
//! effect any reader can see.
//! Oracle (2), log on: after all threads joined the log is synced (batched /
//! manual modes), the store is dropped (clean, or power loss), recovered from
//! the log, and must equal what readers last saw.

use crate::ctx::RunCtx;
use crate::driver::{drop_chunks, RunOut, Scenario, Tier, Violation};
use crate::rng::Rng;
use crate::sched;
use crate::storeutil::{canon_data, canon_map, dump_store_data, gen_value};
use serde::{Deserialize, Serialize};
use serde_json::{json, Value};
use std::collections::{BTreeMap, BTreeSet, HashSet};
use std::sync::{Arc, Mutex};
use tensor_store::{ScalarValue, SyncMode, TensorData, TensorStore, TensorValue, WalConfig};

// ---------------------------------------------------------------------------
// key universe
// ---------------------------------------------------------------------------

#[derive(Clone, Copy, PartialEq, Eq, Debug, PartialOrd, Ord)]
pub enum Kc {
    Plain,
    Emb,
    Graph,
    Table,
    Cache,
}

impl Kc {
    fn name(self) -> &'static str {
        match self {
            Kc::Plain => "plain",
            Kc::Emb => "emb",
            Kc::Graph => "graph",
            Kc::Table => "table",
            Kc::Cache => "cache",
        }
    }
}

pub const NK: usize = 16;
/// The contended keys. First bytes spread over metadata shards 0 (`p`),
/// 5 (`e`, `u`), 14 (`n`), 4 (`t`), 15 (`_`); `_cache:` keys live in the cache
/// ring. The last two are plain keys that share a proper prefix of a class
/// prefix with keys of that class (`_cache`, `emb`) without belonging to it.
/// (New keys are appended: operations of old replay files keep their meaning.)
pub const KEYS: [(&str, Kc); NK] = [
    ("plain:a", Kc::Plain),
    ("plain:b", Kc::Plain),
    ("user:x", Kc::Plain),
    ("emb:a", Kc::Emb),
    ("emb:b", Kc::Emb),
    ("node:1", Kc::Graph),
    ("edge:1", Kc::Graph),
    ("node:2", Kc::Graph),
    ("table:t:1", Kc::Table),
    ("table:t:2", Kc::Table),
    ("_cache:c", Kc::Cache),
    ("_cache:d", Kc::Cache),
    ("_cachestats", Kc::Plain),
    ("embassy", Kc::Plain),
    // two cache keys longer than 64 bytes, equally long, equal in their first 64 bytes
    // (cache keys embed whole query texts; an index keyed by part of the key confuses them)
    ("_cache:q:SELECT name, total FROM orders_by_customer_and_region WHERE region = 'north' LIMIT 10#1", Kc::Cache),
    ("_cache:q:SELECT name, total FROM orders_by_customer_and_region WHERE region = 'north' LIMIT 10#2", Kc::Cache),
];

/// scan prefixes: (prefix, stable name used in violation classes). Several
/// prefixes of one shape share a name, which keeps the set of classes closed.
/// Shapes: the empty prefix; the class prefixes; proper prefixes of every class
/// prefix (down to one byte); prefixes longer than a class prefix (a whole
/// key); prefixes that match no key of the universe. (The first 8 entries are
/// the original table: `Scan { p }` of old replay files keeps its meaning.)
pub const PREFIXES: [(&str, &str); 44] = [
    ("", "all"),
    ("plain:", "plain"),
    ("emb:", "emb"),
    ("node:", "node"),
    ("table:t:", "table"),
    ("_cache:", "cache"),
    ("e", "e"),
    ("edge:", "edge"),
    // proper prefixes of class prefixes
    ("p", "sub-plain"),
    ("pla", "sub-plain"),
    ("plain", "sub-plain"),
    ("em", "e"),
    ("emb", "e"),
    ("n", "sub-node"),
    ("nod", "sub-node"),
    ("node", "sub-node"),
    ("ed", "sub-edge"),
    ("edge", "sub-edge"),
    ("t", "sub-table"),
    ("tab", "sub-table"),
    ("table", "sub-table"),
    ("table:", "sub-table"),
    ("table:t", "sub-table"),
    ("_", "sub-cache"),
    ("_c", "sub-cache"),
    ("_cach", "sub-cache"),
    ("_cache", "sub-cache"),
    ("u", "sub-user"),
    ("user", "sub-user"),
    ("user:", "user"),
    // longer than a class prefix
    ("plain:a", "key-plain"),
    ("emb:a", "emb"),
    ("node:1", "key-graph"),
    ("edge:1", "key-graph"),
    ("table:t:1", "key-table"),
    ("_cache:c", "key-cache"),
    ("user:x", "key-plain"),
    ("_cachestats", "key-plain"),
    // matching nothing
    ("zz", "none"),
    ("plain:zz", "none"),
    ("_cache:zz", "none"),
    ("emb:zz", "none"),
    ("plain:a:more", "none"),
    ("_blob:", "none"),
];

/// index of the first "matching nothing" prefix
const FIRST_NONE_PREFIX: usize = 38;

/// The key-class prefixes the router classifies by; a scan prefix that is a
/// proper prefix of one of them can match keys of that class although
/// `classify_key(prefix)` says otherwise.
const CLASS_PREFIXES: [&str; 5] = ["emb:", "node:", "edge:", "table:", "_cache:"];

fn key_of(k: u8) -> (usize, &'static str, Kc) {
    let i = k as usize % NK;
    (i, KEYS[i].0, KEYS[i].1)
}

fn prefix_of(p: u8) -> (&'static str, &'static str) {
    PREFIXES[p as usize % PREFIXES.len()]
}

fn prefix_mask(prefix: &str) -> u16 {
    let mut m = 0u16;
    for (i, (k, _)) in KEYS.iter().enumerate() {
        if k.starts_with(prefix) {
            m |= 1 << i;
        }
    }
    m
}

fn shard_of(key: &str) -> usize {
    key.as_bytes().first().map_or(0, |b| *b as usize % 16)
}

// ---------------------------------------------------------------------------
// case
// ---------------------------------------------------------------------------

#[derive(Serialize, Deserialize, Clone, Debug, PartialEq)]
pub enum Op {
    /// put (put_durable when the log is on); `u` is unique per case
    Put { k: u8, v: u8, u: u32 },
    Get { k: u8 },
    /// delete (delete_durable when the log is on)
    Del { k: u8 },
    Exists { k: u8 },
    Scan { p: u8 },
    /// `TensorStore::sync` (flush + fsync of the log; nothing without a log)
    Sync,
}

/// How the store under test is constructed (part of the case).
#[derive(Serialize, Deserialize, Clone, Debug, Default, PartialEq)]
pub struct Build {
    /// Bloom filter in front of get/exists: `(expected_items, false-positive
    /// rate in 1/1000)`; `expected_items == 0` = `with_default_bloom_filter`
    /// (plain stores). Durable: `open_durable_with_bloom` / `recover_with_bloom`.
    #[serde(default)]
    pub bloom: Option<(u32, u16)>,
    /// access instrumentation with this sample rate (plain stores only: the
    /// durable constructors offer none)
    #[serde(default)]
    pub instr: Option<u32>,
    /// `with_capacity` hint (plain stores without filter and instrumentation)
    #[serde(default)]
    pub capacity: Option<u32>,
    /// durable only: after the setup the store is synced, dropped and rebuilt
    /// with `recover` / `recover_with_bloom`; the threads run on the recovered store
    #[serde(default)]
    pub reopen: bool,
}

/// `WalConfig` knobs of a durable case.
#[derive(Serialize, Deserialize, Clone, Debug, PartialEq)]
pub struct WalKnobs {
    /// 0: the default (512 MB, auto_rotate on: no append ever fails for size).
    /// Otherwise `max_size_bytes` with `auto_rotate: false`: once the log is
    /// full, durable writes are rejected with an error.
    #[serde(default)]
    pub max_size: u64,
    /// 0 = `SyncMode::Immediate`, 255 = `Manual`, else `Batched { max_entries }`
    #[serde(default)]
    pub sync: u8,
    /// `enable_checksums` and `verify_on_replay`
    #[serde(default = "yes")]
    pub checksums: bool,
    /// the crash after quiescence is a power loss (un-fsynced bytes are cut)
    /// instead of a clean drop
    #[serde(default)]
    pub power_loss: bool,
}

fn yes() -> bool {
    true
}

impl Default for WalKnobs {
    fn default() -> Self {
        WalKnobs { max_size: 0, sync: 0, checksums: true, power_loss: false }
    }
}

impl WalKnobs {
    fn config(&self) -> WalConfig {
        let mut cfg = WalConfig::default();
        if self.max_size > 0 {
            cfg.max_size_bytes = self.max_size;
            cfg.auto_rotate = false;
        }
        cfg.sync_mode = match self.sync {
            0 => SyncMode::Immediate,
            255 => SyncMode::Manual,
            n => SyncMode::Batched { max_entries: n as usize },
        };
        cfg.enable_checksums = self.checksums;
        cfg.verify_on_replay = self.checksums;
        cfg
    }
}

#[derive(Serialize, Deserialize, Clone, Debug)]
pub struct Case {
    /// true: a durable store on the simulated disk, writes are the durable forms
    pub durable: bool,
    /// store construction variant (old replay files: `TensorStore::new` / `open_durable`)
    #[serde(default)]
    pub build: Build,
    /// log configuration (old replay files: `WalConfig::default()`)
    #[serde(default)]
    pub wal: WalKnobs,
    /// executed one after the other before the threads start
    pub setup: Vec<Op>,
    pub threads: Vec<Vec<Op>>,
    pub schedule: Vec<u8>,
}

pub struct C11;

const NODE: &str = "n0";
const SETUP_T: usize = 100;
const FINAL_T: usize = 200;

/// The value operation `Put{k,v,u}` writes. emb: keys always carry a full
/// 384-dim `_embedding` (a put without one leaves the previously stored vector
/// visible: sequential semantics of the store, kept out of this scenario);
/// other key classes never carry `_embedding` (it would register them in the
/// entity index: also sequential semantics, see C02).
fn value_for(kc: Kc, v: u8, u: u32) -> TensorData {
    if kc == Kc::Emb {
        gen_value(10, u)
    } else {
        gen_value(v % 10, u)
    }
}

// ---------------------------------------------------------------------------
// history
// ---------------------------------------------------------------------------

#[derive(Clone, Debug)]
enum Res {
    Put(Result<(), String>),
    Get(Option<TensorData>),
    Del(Result<(), String>),
    Exists(bool),
    Scan(Vec<String>),
    Sync(Result<(), String>),
}

#[derive(Clone, Debug)]
struct Rec {
    t: usize,
    op: Op,
    inv: u64,
    ret: u64,
    res: Res,
}

fn exec(store: &TensorStore, durable: bool, op: &Op) -> Res {
    match op {
        Op::Put { k, v, u } => {
            let (_, key, kc) = key_of(*k);
            let val = value_for(kc, *v, *u);
            let r = if durable { store.put_durable(key, val) } else { store.put(key, val) };
            Res::Put(r.map_err(|e| e.to_string()))
        },
        Op::Get { k } => Res::Get(store.get(key_of(*k).1).ok()),
        Op::Del { k } => {
            let key = key_of(*k).1;
            let r = if durable { store.delete_durable(key) } else { store.delete(key) };
            Res::Del(r.map_err(|e| e.to_string()))
        },
        Op::Exists { k } => Res::Exists(store.exists(key_of(*k).1)),
        Op::Scan { p } => {
            let mut v = store.scan(prefix_of(*p).0);
            v.sort();
            Res::Scan(v)
        },
        Op::Sync => Res::Sync(store.sync().map_err(|e| e.to_string())),
    }
}

/// An error result of a write that means "the log refused the record" (as
/// opposed to delete's NotFound).
fn is_log_error(e: &str) -> bool {
    e.contains("WAL error")
}

fn op_short(op: &Op) -> String {
    match op {
        Op::Put { k, u, .. } => format!("put({})=#{u}", key_of(*k).1),
        Op::Get { k } => format!("get({})", key_of(*k).1),
        Op::Del { k } => format!("delete({})", key_of(*k).1),
        Op::Exists { k } => format!("exists({})", key_of(*k).1),
        Op::Scan { p } => format!("scan({:?})", prefix_of(*p).0),
        Op::Sync => "sync()".into(),
    }
}

fn data_u(d: &TensorData) -> Option<i64> {
    match d.get("_u") {
        Some(TensorValue::Scalar(ScalarValue::Int(i))) => Some(*i),
        _ => None,
    }
}

fn res_short(res: &Res) -> String {
    match res {
        Res::Put(Ok(())) => "ok".into(),
        Res::Put(Err(e)) => format!("err({e})"),
        Res::Get(None) => "not-found".into(),
        Res::Get(Some(d)) => format!("value(_u={:?},h={:08x})", data_u(d), crate::rng::hash_str(&canon_data(d)) as u32),
        Res::Del(Ok(())) => "ok".into(),
        Res::Del(Err(e)) if is_log_error(e) => format!("err({e})"),
        Res::Del(Err(_)) => "not-found".into(),
        Res::Sync(Ok(())) => "ok".into(),
        Res::Sync(Err(e)) => format!("err({e})"),
        Res::Exists(b) => format!("{b}"),
        Res::Scan(v) => format!("{v:?}"),
    }
}

fn run_op(ctx: &Arc<RunCtx>, store: &TensorStore, durable: bool, t: usize, op: &Op, hist: &Mutex<Vec<Rec>>) {
    let inv = ctx.next_seq();
    ctx.event(&format!("t{t} invoke {}", op_short(op)));
    let res = exec(store, durable, op);
    let ret = ctx.next_seq();
    ctx.event(&format!("t{t} return {} -> {}", op_short(op), res_short(&res)));
    hist.lock().unwrap_or_else(|p| p.into_inner()).push(Rec { t, op: op.clone(), inv, ret, res });
}

// ---------------------------------------------------------------------------
// linearizability checker (Wing & Gong search, Lowe's memoisation)
// ---------------------------------------------------------------------------

/// model state: per key 0 = absent, else the id of the value last written
pub type State = [u32; NK];

#[derive(Clone, Debug, PartialEq)]
pub enum HKind {
    Put { k: usize, val: u32 },
    /// `seen` 0 = not found
    Get { k: usize, seen: u32 },
    /// `ok` false = NotFound
    Del { k: usize, ok: bool },
    Exists { k: usize, seen: bool },
    /// atomic read of the set of present keys among `mask`
    Scan { mask: u16, seen: u16 },
    /// a put / delete the store rejected with an error (the log refused the
    /// record): no effect
    Rejected { k: usize },
    /// an operation without effect on the key space (`sync`)
    Nop,
}

/// model value of a key under `Mode::taint` after a rejected write on it
const TAINT: u32 = u32::MAX;

#[derive(Clone, Debug)]
pub struct HOp {
    pub inv: u64,
    pub ret: u64,
    pub kind: HKind,
}

#[derive(Debug, PartialEq, Eq, Clone, Copy)]
pub enum Lin {
    Yes,
    /// not linearizable; `best` = most operations any explored order could place
    No { best: usize },
    /// search budget exhausted (no verdict)
    Budget,
}

/// Sequential semantics of the store (established by reading SlabRouter and by
/// the single-thread self-test): put overwrites and returns Ok; get returns
/// the last put value or NotFound; delete removes and returns Ok, or returns
/// NotFound on an absent key (no effect); exists; scan lists present keys.
///
/// `_cache:` keys (`cache_evicts`): the cache ring is documented as transient
/// and may drop an entry at any time, so an operation that finds a cache key
/// absent is always explainable (the entry was dropped just before it); what a
/// cache key may never do is show a value that was not the last one written,
/// or be present without a put.
///
/// A write that returned an error (`Rejected`) has no effect: "a read never
/// returns a value that was never written". `Mode::taint` (diagnosis only)
/// instead lets a rejected write leave the key in an arbitrary state until the
/// next successful write: a history that only this explains is reported as
/// `rejected-write-visible`.
fn apply(st: &State, kind: &HKind, mode: Mode) -> Option<State> {
    let mut s = *st;
    let evictable = |k: usize| mode.cache_evicts && KEYS[k].1 == Kc::Cache;
    match kind {
        HKind::Nop => Some(s),
        HKind::Rejected { k } => {
            if mode.taint & (1 << *k) != 0 {
                s[*k] = TAINT;
            }
            Some(s)
        },
        HKind::Get { k, .. } | HKind::Exists { k, .. } if s[*k] == TAINT => Some(s),
        HKind::Del { k, .. } if s[*k] == TAINT => {
            s[*k] = 0;
            Some(s)
        },
        HKind::Put { k, val } => {
            s[*k] = *val;
            Some(s)
        },
        HKind::Get { k, seen } => {
            if *seen == 0 && evictable(*k) {
                s[*k] = 0;
                return Some(s);
            }
            (s[*k] == *seen).then_some(s)
        },
        HKind::Del { k, ok } => {
            if mode.relax_delete {
                s[*k] = 0;
                Some(s)
            } else if *ok {
                if s[*k] != 0 {
                    s[*k] = 0;
                    Some(s)
                } else {
                    None
                }
            } else if evictable(*k) {
                s[*k] = 0;
                Some(s)
            } else {
                (s[*k] == 0).then_some(s)
            }
        },
        HKind::Exists { k, seen } => {
            if !*seen && evictable(*k) {
                s[*k] = 0;
                return Some(s);
            }
            ((s[*k] != 0) == *seen).then_some(s)
        },
        HKind::Scan { mask, seen } => {
            for i in 0..NK {
                if mask & (1 << i) == 0 {
                    continue;
                }
                let listed = seen & (1 << i) != 0;
                if s[i] == TAINT {
                    continue;
                }
                if listed != (s[i] != 0) {
                    if !listed && evictable(i) {
                        s[i] = 0;
                    } else {
                        return None;
                    }
                }
            }
            Some(s)
        },
    }
}

/// Diagnosis only (which class a non-linearizable history is reported under).
/// Accepted puts on an `emb:` key are known not to be atomic (three slabs, no
/// common lock: the key is listed before its value is readable). A history on
/// such a key that is explained when every *accepted* put may leave the key in
/// an arbitrary state from its invocation on — the rejected writes having no
/// effect — belongs to that root cause, also when a rejected write happens to
/// be in flight at the same time; only what this does not explain is
/// attributed to a rejected write.
fn explained_by_nonatomic_emb_puts(key: usize, sub: &[HOp], verdict: Mode) -> bool {
    if KEYS[key].1 != Kc::Emb {
        return false;
    }
    let mut v: Vec<HOp> = Vec::new();
    for o in sub {
        match o.kind {
            HKind::Rejected { .. } => {},
            HKind::Put { k, .. } if k == key => {
                v.push(HOp { inv: o.inv, ret: o.ret, kind: HKind::Rejected { k } });
                v.push(o.clone());
            },
            _ => v.push(o.clone()),
        }
    }
    matches!(check_lin(&v, Mode { taint: 1 << key, ..verdict }, BUDGET), Lin::Yes)
}

#[derive(Clone, Copy, Debug, PartialEq, Eq)]
pub struct Mode {
    /// delete's Ok/NotFound result is not judged (diagnosis only)
    pub relax_delete: bool,
    /// `_cache:` keys may be dropped by the store at any time
    pub cache_evicts: bool,
    /// keys (bit mask) on which a rejected write leaves an arbitrary state (diagnosis only)
    pub taint: u16,
}

/// the verdict mode
pub const VERDICT: Mode = Mode { relax_delete: false, cache_evicts: true, taint: 0 };
/// every key a strict register (used for observations and the checker self-test)
pub const STRICT: Mode = Mode { relax_delete: false, cache_evicts: false, taint: 0 };

struct Search<'a> {
    ops: &'a [HOp],
    mode: Mode,
    memo: HashSet<(u128, State)>,
    nodes: u64,
    budget: u64,
    best: usize,
    all: u128,
}

impl Search<'_> {
    /// Some(true): a linearization of the remaining operations exists.
    fn go(&mut self, done: u128, st: State, depth: usize) -> Option<bool> {
        if done == self.all {
            return Some(true);
        }
        if depth > self.best {
            self.best = depth;
        }
        if self.memo.contains(&(done, st)) {
            return Some(false);
        }
        self.nodes += 1;
        if self.nodes > self.budget {
            return None;
        }
        // an operation may be placed next iff no other pending operation
        // returned before it was invoked (real-time order)
        let mut min_ret = u64::MAX;
        for (i, o) in self.ops.iter().enumerate() {
            if done & (1u128 << i) == 0 && o.ret < min_ret {
                min_ret = o.ret;
            }
        }
        for i in 0..self.ops.len() {
            if done & (1u128 << i) != 0 || self.ops[i].inv > min_ret {
                continue;
            }
            if let Some(ns) = apply(&st, &self.ops[i].kind, self.mode) {
                match self.go(done | (1u128 << i), ns, depth + 1) {
                    Some(true) => return Some(true),
                    Some(false) => {},
                    None => return None,
                }
            }
        }
        self.memo.insert((done, st));
        Some(false)
    }
}

/// Is the complete history `ops` (every operation returned) linearizable from
/// the empty store?
pub fn check_lin(ops: &[HOp], mode: Mode, budget: u64) -> Lin {
    assert!(ops.len() <= 128, "history too long for the checker");
    let mut sorted: Vec<HOp> = ops.to_vec();
    sorted.sort_by_key(|o| o.inv);
    let all = if sorted.len() == 128 { u128::MAX } else { (1u128 << sorted.len()) - 1 };
    let mut s = Search { ops: &sorted, mode, memo: HashSet::new(), nodes: 0, budget, best: 0, all };
    match s.go(0, [0; NK], 0) {
        Some(true) => Lin::Yes,
        Some(false) => Lin::No { best: s.best },
        None => Lin::Budget,
    }
}

const BUDGET: u64 = 400_000;

fn kind_key(k: &HKind) -> Option<usize> {
    match k {
        HKind::Put { k, .. } | HKind::Get { k, .. } | HKind::Del { k, .. } | HKind::Exists { k, .. } | HKind::Rejected { k } => Some(*k),
        HKind::Scan { .. } | HKind::Nop => None,
    }
}

// ---------------------------------------------------------------------------
// judging a recorded history
// ---------------------------------------------------------------------------

fn describe(recs: &[&Rec]) -> String {
    let mut v: Vec<&&Rec> = recs.iter().collect();
    v.sort_by_key(|r| r.inv);
    let mut s = String::new();
    for r in v {
        let who = match r.t {
            SETUP_T => "setup".to_string(),
            FINAL_T => "final".to_string(),
            t => format!("t{t}"),
        };
        s.push_str(&format!("{who}[{}..{}] {} -> {}; ", r.inv, r.ret, op_short(&r.op), res_short(&r.res)));
    }
    s
}

struct Judged {
    violation: Option<Violation>,
    inconclusive: bool,
    /// a `_cache:` key's history is explainable only by the cache dropping an
    /// entry although it was nowhere near its capacity (observation, no verdict)
    cache_entry_lost: bool,
}

/// `verdict`: the model the history is judged against (`VERDICT` for concurrent
/// runs; `STRICT` for single-thread runs, where the cache ring, far below its
/// capacity, has no reason to drop anything).
fn judge(hist: &[Rec], verdict: Mode) -> Judged {
    // value ids: canon of every written value, per key. A put that returned an
    // error wrote nothing: its value is kept apart.
    let mut written: Vec<BTreeMap<String, u32>> = vec![BTreeMap::new(); NK];
    let mut written_u: Vec<BTreeSet<i64>> = vec![BTreeSet::new(); NK];
    let mut rejected: Vec<BTreeMap<String, u32>> = vec![BTreeMap::new(); NK];
    for r in hist {
        if let (Op::Put { k, v, u }, Res::Put(res)) = (&r.op, &r.res) {
            let (i, _, kc) = key_of(*k);
            if res.is_ok() {
                written[i].insert(canon_data(&value_for(kc, *v, *u)), *u);
                written_u[i].insert(i64::from(*u));
            } else {
                rejected[i].insert(canon_data(&value_for(kc, *v, *u)), *u);
            }
        }
    }
    let mut hops: Vec<HOp> = Vec::new();
    for r in hist {
        let kind = match (&r.op, &r.res) {
            (Op::Put { k, u, .. }, Res::Put(Ok(()))) => HKind::Put { k: key_of(*k).0, val: *u },
            (Op::Put { k, .. }, Res::Put(Err(_))) => HKind::Rejected { k: key_of(*k).0 },
            (Op::Get { k }, Res::Get(None)) => HKind::Get { k: key_of(*k).0, seen: 0 },
            (Op::Get { k }, Res::Get(Some(d))) => {
                let (i, key, kc) = key_of(*k);
                let canon = canon_data(d);
                if let (None, Some(u)) = (written[i].get(&canon), rejected[i].get(&canon)) {
                    // "a read never returns a value that was never written": the
                    // put of this value returned an error
                    let on_key: Vec<&Rec> = hist.iter().filter(|x| op_key(&x.op) == Some(i)).collect();
                    return Judged {
                        violation: Some(Violation {
                            class: format!("read-value-of-rejected-write:{}", kc.name()),
                            detail: format!(
                                "get({key}) at [{}..{}] returned the value #{u} although the put of #{u} returned an error (a rejected write must not be visible to readers); operations on the key: {}",
                                r.inv,
                                r.ret,
                                describe(&on_key)
                            ),
                        }),
                        inconclusive: false,
                        cache_entry_lost: false,
                    };
                }
                match written[i].get(&canon) {
                    Some(u) => HKind::Get { k: i, seen: *u },
                    None => {
                        // "a read never returns a value that was never written, a
                        // mixture of two writes"
                        let mixed = data_u(d).is_some_and(|u| written_u[i].contains(&u));
                        let class = if mixed { "read-mixed-value" } else { "read-unwritten-value" };
                        let mut fields: Vec<&String> = d.keys().collect();
                        fields.sort();
                        let on_key: Vec<&Rec> = hist.iter().filter(|x| op_key(&x.op) == Some(i)).collect();
                        return Judged {
                            violation: Some(Violation {
                                class: format!("{class}:{}", kc.name()),
                                detail: format!(
                                    "get({key}) at [{}..{}] returned a value no put wrote (fields {fields:?}, _u={:?}{}); operations on the key: {}",
                                    r.inv,
                                    r.ret,
                                    data_u(d),
                                    if mixed { ", other fields belong to a different write" } else { "" },
                                    describe(&on_key)
                                ),
                            }),
                            inconclusive: false,
                            cache_entry_lost: false,
                        };
                    },
                }
            },
            (Op::Del { k }, Res::Del(Err(e))) if is_log_error(e) => HKind::Rejected { k: key_of(*k).0 },
            (Op::Del { k }, Res::Del(res)) => HKind::Del { k: key_of(*k).0, ok: res.is_ok() },
            (Op::Exists { k }, Res::Exists(b)) => HKind::Exists { k: key_of(*k).0, seen: *b },
            (Op::Scan { p }, Res::Scan(keys)) => {
                let (prefix, pname) = prefix_of(*p);
                let mut seen = 0u16;
                let mut last: Option<&String> = None;
                for key in keys {
                    let pos = KEYS.iter().position(|(n, _)| n == key);
                    let dup = last == Some(key);
                    last = Some(key);
                    match pos {
                        Some(i) if key.starts_with(prefix) && !dup => seen |= 1 << i,
                        _ => {
                            return Judged {
                                violation: Some(Violation {
                                    class: format!("scan-bogus-key:{pname}"),
                                    detail: format!("scan({prefix:?}) returned {keys:?}: {key:?} is duplicated, outside the prefix or never written"),
                                }),
                                inconclusive: false,
                                cache_entry_lost: false,
                            }
                        },
                    }
                }
                HKind::Scan { mask: prefix_mask(prefix), seen }
            },
            (Op::Sync, Res::Sync(_)) => HKind::Nop,
            _ => unreachable!("result kind matches operation kind"),
        };
        hops.push(HOp { inv: r.inv, ret: r.ret, kind });
    }

    let mut inconclusive = false;
    let mut cache_entry_lost = false;
    // (a) per key: linearizability is local, so a history without scans is
    // linearizable iff each key's sub-history is.
    for i in 0..NK {
        let idx: Vec<usize> = (0..hops.len()).filter(|j| kind_key(&hops[*j].kind) == Some(i)).collect();
        if idx.is_empty() {
            continue;
        }
        let sub: Vec<HOp> = idx.iter().map(|j| hops[*j].clone()).collect();
        if KEYS[i].1 == Kc::Cache && matches!(check_lin(&sub, STRICT, BUDGET), Lin::No { .. }) {
            cache_entry_lost = true;
        }
        match check_lin(&sub, verdict, BUDGET) {
            Lin::Yes => {},
            Lin::Budget => inconclusive = true,
            Lin::No { best } => {
                // "consistent with some single order of all operations that respects real time"
                let has_rejected = sub.iter().any(|o| matches!(o.kind, HKind::Rejected { .. }));
                let diag = if has_rejected && !explained_by_nonatomic_emb_puts(i, &sub, verdict) && matches!(check_lin(&sub, Mode { taint: 1 << i, ..verdict }, BUDGET), Lin::Yes) {
                    "rejected-write"
                } else if matches!(check_lin(&sub, Mode { relax_delete: true, ..verdict }, BUDGET), Lin::Yes) {
                    "delete-result"
                } else {
                    "order"
                };
                let recs: Vec<&Rec> = idx.iter().map(|j| &hist[*j]).collect();
                if diag == "rejected-write" {
                    return Judged {
                        violation: Some(Violation {
                            class: format!("rejected-write-visible:{}", KEYS[i].1.name()),
                            detail: format!(
                                "a write on {} that returned an error left an effect readers can see: the {} operations on the key have no single order when the rejected write has no effect, and have one when it may change the key: {}",
                                KEYS[i].0,
                                sub.len(),
                                describe(&recs)
                            ),
                        }),
                        inconclusive,
                        cache_entry_lost,
                    };
                }
                return Judged {
                    violation: Some(Violation {
                        class: format!("nonlinearizable:{}:{diag}", KEYS[i].1.name()),
                        detail: format!(
                            "no single order of the {} operations on {} explains their results (at most {best} can be ordered{}): {}",
                            sub.len(),
                            KEYS[i].0,
                            if diag == "delete-result" { "; it is linearizable once delete's Ok/NotFound is ignored" } else { "" },
                            describe(&recs)
                        ),
                    }),
                    inconclusive,
                    cache_entry_lost,
                };
            },
        }
    }
    let scans: Vec<usize> = (0..hops.len()).filter(|j| matches!(hops[*j].kind, HKind::Scan { .. })).collect();
    // (a') per key, with what the scans say about the key: an atomic scan is in
    // particular a read of each single key under its prefix somewhere between
    // its invocation and its return. This is weaker than (b) — it does not ask
    // the keys of one listing to be read at the same instant — so it holds even
    // for a scan that visits its sources one after the other; what fails here is
    // not explained by the scan being a non-atomic multi-key read.
    for i in 0..NK {
        let views: Vec<usize> = scans.iter().copied().filter(|j| matches!(hops[*j].kind, HKind::Scan { mask, .. } if mask & (1 << i) != 0)).collect();
        let idx: Vec<usize> = (0..hops.len()).filter(|j| kind_key(&hops[*j].kind) == Some(i) || views.contains(j)).collect();
        if views.is_empty() || idx.len() == views.len() {
            continue;
        }
        let sub: Vec<HOp> = idx
            .iter()
            .map(|j| match hops[*j].kind {
                HKind::Scan { seen, .. } => HOp { inv: hops[*j].inv, ret: hops[*j].ret, kind: HKind::Exists { k: i, seen: seen & (1 << i) != 0 } },
                _ => hops[*j].clone(),
            })
            .collect();
        match check_lin(&sub, verdict, BUDGET) {
            Lin::Yes => {},
            Lin::Budget => inconclusive = true,
            Lin::No { best } => {
                let has_rejected = sub.iter().any(|o| matches!(o.kind, HKind::Rejected { .. }));
                let recs: Vec<&Rec> = idx.iter().map(|j| &hist[*j]).collect();
                let class = if has_rejected && !explained_by_nonatomic_emb_puts(i, &sub, verdict) && matches!(check_lin(&sub, Mode { taint: 1 << i, ..verdict }, BUDGET), Lin::Yes) {
                    format!("rejected-write-visible:{}", KEYS[i].1.name())
                } else {
                    format!("nonlinearizable:{}:scan-view", KEYS[i].1.name())
                };
                return Judged {
                    violation: Some(Violation {
                        class,
                        detail: format!(
                            "the operations on {} are explainable on their own, but not together with what the prefix scans covering the key report about it (each scan taken as a read of this one key somewhere between its invocation and return; at most {best} of {} can be ordered): {}",
                            KEYS[i].0,
                            sub.len(),
                            describe(&recs)
                        ),
                    }),
                    inconclusive,
                    cache_entry_lost,
                };
            },
        }
    }
    // (b) whole history including scans ("prefix scan ... consistent with some
    // single order of all operations")
    if !scans.is_empty() {
        match check_lin(&hops, verdict, BUDGET) {
            Lin::Yes => {},
            Lin::Budget => inconclusive = true,
            Lin::No { .. } => {
                // (what a scan shows of a rejected write was judged per key in (a'):
                // what fails here is the scan as an atomic multi-key read)
                // blame: the first scan that alone (with all key operations) is not linearizable
                let mut blame: Option<usize> = None;
                for s in &scans {
                    let sub: Vec<HOp> = (0..hops.len())
                        .filter(|j| j == s || !matches!(hops[*j].kind, HKind::Scan { .. }))
                        .map(|j| hops[j].clone())
                        .collect();
                    if matches!(check_lin(&sub, verdict, BUDGET), Lin::No { .. }) {
                        blame = Some(*s);
                        break;
                    }
                }
                let (pname, detail) = match blame {
                    Some(s) if hist[s].t == FINAL_T => {
                        // the quiescent scan contradicts the quiescent exists() calls around it
                        let r = &hist[s];
                        let Op::Scan { p } = &r.op else { unreachable!() };
                        let (prefix, pname) = prefix_of(*p);
                        let mask = prefix_mask(prefix);
                        let listed: Vec<&String> = match &r.res {
                            Res::Scan(v) => v.iter().collect(),
                            _ => Vec::new(),
                        };
                        let mut ghosts: BTreeSet<&'static str> = BTreeSet::new();
                        let mut missed: BTreeSet<&'static str> = BTreeSet::new();
                        let mut what = String::new();
                        for x in hist.iter().filter(|x| x.t == FINAL_T) {
                            if let (Op::Exists { k }, Res::Exists(b)) = (&x.op, &x.res) {
                                let (i, key, kc) = key_of(*k);
                                if mask & (1 << i) == 0 {
                                    continue;
                                }
                                let l = listed.iter().any(|n| n.as_str() == key);
                                // the cache may drop an entry between the two reads (in that order only)
                                let exists_first = x.ret < r.inv;
                                let droppable = kc == Kc::Cache && verdict.cache_evicts;
                                if l && !*b && !(droppable && !exists_first) {
                                    ghosts.insert(kc.name());
                                    what.push_str(&format!("[{key}: exists=false, get fails, but the scan lists it] "));
                                } else if !l && *b && !(droppable && exists_first) {
                                    missed.insert(kc.name());
                                    what.push_str(&format!("[{key}: exists=true but the scan does not list it] "));
                                }
                            }
                        }
                        // one key class per verdict keeps the set of classes closed
                        let class = if let Some(g) = ghosts.iter().next() {
                            format!("quiescent-scan-lists-absent-key:{g}")
                        } else if let Some(m) = missed.iter().next() {
                            format!("quiescent-scan-misses-key:{m}")
                        } else {
                            format!("nonlinearizable-scan:{pname}:quiescent")
                        };
                        let all: Vec<&Rec> = hist.iter().filter(|x| is_write(&x.op) || x.t == FINAL_T).collect();
                        return Judged {
                            violation: Some(Violation {
                                class,
                                detail: format!("with all threads joined, scan({prefix:?}) returned {} although {what}; writes and quiescent reads: {}", res_short(&r.res), describe(&all)),
                            }),
                            inconclusive,
                            cache_entry_lost,
                        };
                    },
                    Some(s) => {
                        let r = &hist[s];
                        let Op::Scan { p } = &r.op else { unreachable!() };
                        let (prefix, pname) = prefix_of(*p);
                        let mask = prefix_mask(prefix);
                        // which part of the listing is inexplicable: the keys held by the
                        // metadata shards alone, those plus emb: keys (entity index as a
                        // second source), or only with `_cache:` keys (cache ring)
                        let class_mask = |cs: &[Kc]| -> u16 {
                            let mut m = 0u16;
                            for (i, (_, c)) in KEYS.iter().enumerate() {
                                if cs.contains(c) {
                                    m |= 1 << i;
                                }
                            }
                            m
                        };
                        let fails_with = |keep: u16| -> bool {
                            let sub: Vec<HOp> = (0..hops.len())
                                .filter(|j| *j == s || !matches!(hops[*j].kind, HKind::Scan { .. }))
                                .map(|j| {
                                    let mut o = hops[j].clone();
                                    if let HKind::Scan { mask, seen } = &mut o.kind {
                                        *mask &= keep;
                                        *seen &= keep;
                                    }
                                    o
                                })
                                .collect();
                            matches!(check_lin(&sub, verdict, BUDGET), Lin::No { .. })
                        };
                        let core = class_mask(&[Kc::Plain, Kc::Graph, Kc::Table]);
                        let cause = if fails_with(core) {
                            "metadata"
                        } else if fails_with(core | class_mask(&[Kc::Emb])) {
                            "emb"
                        } else {
                            "cache"
                        };
                        let pname = format!("{pname}:{cause}");
                        let rel: Vec<&Rec> = hist
                            .iter()
                            .enumerate()
                            .filter(|(j, x)| *j == s || (op_key(&x.op).is_some_and(|k| mask & (1 << k) != 0) && matches!(x.op, Op::Put { .. } | Op::Del { .. })))
                            .map(|(_, x)| x)
                            .collect();
                        (
                            pname,
                            format!(
                                "scan({prefix:?}) at [{}..{}] returned {} — a key set the store never held at any instant compatible with the other operations' results; writes under the prefix and the scan: {}",
                                r.inv,
                                r.ret,
                                res_short(&r.res),
                                describe(&rel)
                            ),
                        )
                    },
                    None => {
                        let all: Vec<&Rec> = hist.iter().collect();
                        ("several".to_string(), format!("the scans are only jointly inconsistent: {}", describe(&all)))
                    },
                };
                return Judged { violation: Some(Violation { class: format!("nonlinearizable-scan:{pname}"), detail }), inconclusive, cache_entry_lost };
            },
        }
    }
    Judged { violation: None, inconclusive, cache_entry_lost }
}

fn op_key(op: &Op) -> Option<usize> {
    match op {
        Op::Put { k, .. } | Op::Get { k } | Op::Del { k } | Op::Exists { k } => Some(key_of(*k).0),
        Op::Scan { .. } | Op::Sync => None,
    }
}

fn overlap(a: &Rec, b: &Rec) -> bool {
    a.inv < b.ret && b.inv < a.ret
}

fn is_write(op: &Op) -> bool {
    matches!(op, Op::Put { .. } | Op::Del { .. })
}

fn probes(ctx: &Arc<RunCtx>, case: &Case, hist: &[Rec]) -> bool {
    let mut concurrent = false;
    let th: Vec<&Rec> = hist.iter().filter(|r| r.t < SETUP_T).collect();
    for (x, a) in th.iter().enumerate() {
        for b in th.iter().skip(x + 1) {
            if a.t == b.t || !overlap(a, b) {
                continue;
            }
            let (ka, kb) = (op_key(&a.op), op_key(&b.op));
            if ka.is_some() && ka == kb {
                concurrent = true;
                let kc = KEYS[ka.unwrap()].1;
                if is_write(&a.op) && is_write(&b.op) {
                    ctx.probe("overlap_two_writers_same_key");
                    if case.durable && kc != Kc::Cache {
                        ctx.probe("overlap_two_durable_writers_same_key");
                    }
                }
                let pd = |x: &Op, y: &Op| matches!(x, Op::Put { .. }) && matches!(y, Op::Del { .. });
                if pd(&a.op, &b.op) || pd(&b.op, &a.op) {
                    ctx.probe("overlap_delete_put_same_key");
                }
                let gp = |x: &Op, y: &Op| matches!(x, Op::Get { .. }) && matches!(y, Op::Put { .. });
                if kc == Kc::Emb && (gp(&a.op, &b.op) || gp(&b.op, &a.op)) {
                    ctx.probe("overlap_get_embedding_put");
                }
                if kc == Kc::Cache && is_write(&a.op) && is_write(&b.op) {
                    ctx.probe("overlap_two_cache_writers");
                }
            }
        }
    }
    for s in th.iter().filter(|r| matches!(r.op, Op::Scan { .. })) {
        let Op::Scan { p } = &s.op else { continue };
        let mask = prefix_mask(prefix_of(*p).0);
        let mut shards = BTreeSet::new();
        for w in th.iter().filter(|w| w.t != s.t && is_write(&w.op) && overlap(s, w)) {
            let k = op_key(&w.op).unwrap();
            if mask & (1 << k) != 0 {
                concurrent = true;
                ctx.probe("overlap_scan_write");
                if KEYS[k].1 != Kc::Cache {
                    shards.insert(shard_of(KEYS[k].0));
                }
            }
        }
        if prefix_of(*p).0.is_empty() && shards.len() >= 2 {
            ctx.probe("overlap_scan_all_writes_two_shards");
        }
    }
    // ---- scan prefix shapes (thread scans only)
    for s in th.iter() {
        let (Op::Scan { p }, Res::Scan(keys)) = (&s.op, &s.res) else { continue };
        let prefix = prefix_of(*p).0;
        if prefix.is_empty() {
            continue;
        }
        // a proper prefix of a router class prefix that listed a key of that class
        let sub_of: Vec<&&str> = CLASS_PREFIXES.iter().filter(|c| c.len() > prefix.len() && c.starts_with(prefix)).collect();
        if sub_of.iter().any(|c| keys.iter().any(|k| k.starts_with(**c))) {
            ctx.probe("scan_short_prefix_lists_class_key");
            if keys.iter().any(|k| k.starts_with("_cache:")) {
                ctx.probe("scan_short_prefix_lists_cache_key");
            }
            if keys.iter().any(|k| !CLASS_PREFIXES.iter().any(|c| k.starts_with(c))) {
                ctx.probe("scan_short_prefix_lists_two_classes");
            }
        }
        if CLASS_PREFIXES.iter().any(|c| prefix.len() > c.len() && prefix.starts_with(c)) && !keys.is_empty() {
            ctx.probe("scan_long_prefix_lists_key");
        }
        if keys.is_empty() && prefix_mask(prefix) == 0 {
            ctx.probe("scan_prefix_matching_nothing");
        }
    }
    // ---- rejected writes (the log refused the record)
    for w in th.iter() {
        let rejected = match &w.res {
            Res::Put(Err(_)) => true,
            Res::Del(Err(e)) => is_log_error(e),
            _ => false,
        };
        if !rejected {
            continue;
        }
        ctx.probe("rejected_write");
        let k = op_key(&w.op);
        if hist.iter().any(|r| r.inv > w.ret && op_key(&r.op) == k && !is_write(&r.op)) {
            ctx.probe("rejected_write_then_read_of_key");
        }
        if th.iter().any(|r| r.t != w.t && op_key(&r.op) == k && overlap(r, w) && !is_write(&r.op)) {
            ctx.probe("rejected_write_overlaps_read_of_key");
        }
        if th.iter().any(|r| r.ret < w.inv && op_key(&r.op) == k && matches!(r.res, Res::Put(Ok(())))) {
            ctx.probe("rejected_write_after_accepted_write_of_key");
        }
    }
    // ---- Bloom filter: first put of a key (not yet in the filter) overlapping a
    // scan that covers it, followed by a point read of the key
    if case.build.bloom.is_some() {
        for w in th.iter().filter(|w| matches!(w.op, Op::Put { .. })) {
            let k = op_key(&w.op).unwrap();
            let first = !hist.iter().any(|r| r.inv < w.inv && matches!(r.op, Op::Put { .. }) && op_key(&r.op) == Some(k));
            if !first {
                continue;
            }
            for s in th.iter().filter(|s| s.t != w.t && overlap(s, w)) {
                let Op::Scan { p } = &s.op else { continue };
                if prefix_mask(prefix_of(*p).0) & (1 << k) == 0 {
                    continue;
                }
                ctx.probe("bloom_first_put_overlaps_scan");
                if th.iter().any(|r| r.inv > s.ret && overlap(r, w) && op_key(&r.op) == Some(k) && matches!(r.op, Op::Get { .. } | Op::Exists { .. })) {
                    ctx.probe("bloom_first_put_overlaps_scan_then_point_read");
                }
            }
        }
    }
    concurrent
}

impl Scenario for C11 {
    type Case = Case;
    fn id(&self) -> &'static str {
        "C11"
    }
    fn level(&self) -> &'static str {
        "exploration"
    }
    fn runs(&self, tier: Tier) -> u64 {
        match tier {
            Tier::Quick => 40_000,
            Tier::Thorough => 600_000,
        }
    }

    fn generate(&self, rng: &mut Rng, _tier: Tier, _index: u64) -> Case {
        let durable = rng.chance(1, 2);
        // key classes in play: mostly one class (high contention), sometimes several
        let all = [Kc::Plain, Kc::Emb, Kc::Graph, Kc::Table, Kc::Cache];
        let mut classes: Vec<Kc> = Vec::new();
        if rng.chance(3, 5) {
            classes.push(*rng.pick(&all));
        } else {
            for c in all {
                if rng.chance(1, 2) {
                    classes.push(c);
                }
            }
            if classes.is_empty() {
                classes.push(Kc::Plain);
            }
        }
        // 1-3 keys per class, at most 4 in total: contention matters more than spread
        let mut keys: Vec<u8> = Vec::new();
        for c in &classes {
            let mut of: Vec<u8> = (0..NK as u8).filter(|i| KEYS[*i as usize].1 == *c).collect();
            let n = rng.range(1, of.len().min(if classes.len() == 1 { 3 } else { 2 }) as u64) as usize;
            for _ in 0..n {
                let j = rng.usize_below(of.len());
                keys.push(of.remove(j));
            }
        }
        while keys.len() > 4 {
            let j = rng.usize_below(keys.len());
            keys.remove(j);
        }
        // scan prefixes: every shape that matches at least one key in play
        // (proper prefixes of class prefixes, class prefixes, whole keys) ...
        let mut prefixes: Vec<u8> = Vec::new();
        for (pi, (p, _)) in PREFIXES.iter().enumerate().skip(1) {
            if keys.iter().any(|k| KEYS[*k as usize].0.starts_with(p)) {
                prefixes.push(pi as u8);
            }
        }
        // ... plus one that matches nothing, plus one of a class not in play
        prefixes.push(rng.range(FIRST_NONE_PREFIX as u64, PREFIXES.len() as u64 - 1) as u8);
        prefixes.push(rng.range(1, PREFIXES.len() as u64 - 1) as u8);
        let mut u = 0u32;
        let mut setup = Vec::new();
        for k in &keys {
            if rng.chance(1, 2) {
                u += 1;
                setup.push(Op::Put { k: *k, v: rng.below(10) as u8, u });
            }
        }
        // 1 case in 40 is a single-thread "model conformance" run: it cannot
        // violate C11; it checks that the sequential model used by the oracle
        // still is the store's sequential behaviour (a mismatch is a harness error)
        let n_threads = if rng.chance(1, 40) {
            1
        } else {
            match rng.below(10) {
            0..=3 => 2,
            4..=6 => 3,
            7 => 4,
            8 => rng.range(5, 6),
            _ => rng.range(7, 8),
            }
        } as usize;
        // ---- how the store is built
        let mut build = Build::default();
        if rng.chance(2, 5) {
            // filter sizes from "every key collides" to the default
            build.bloom = Some(*rng.pick(&[(0u32, 0u16), (1, 500), (4, 100), (16, 10), (1000, 10), (10_000, 1)]));
        }
        if durable {
            build.reopen = rng.chance(1, 4);
        } else {
            if rng.chance(1, 4) {
                build.instr = Some(*rng.pick(&[1u32, 1, 2, 100]));
            }
            if build.bloom.is_none() && build.instr.is_none() && rng.chance(1, 4) {
                build.capacity = Some(*rng.pick(&[0u32, 1, 64, 100_000]));
            }
        }
        // ---- log configuration
        let mut wal = WalKnobs::default();
        if durable {
            wal.sync = match rng.below(6) {
                0..=2 => 0,
                3 => 1,
                4 => rng.range(2, 6) as u8,
                _ => 255,
            };
            wal.checksums = !rng.chance(1, 6);
            wal.power_loss = rng.chance(1, 3);
            // a hard size limit somewhere inside the run: the log fills up and
            // rejects later writes (single-thread conformance runs included:
            // a rejected write has no effect there either)
            // (rarer with emb: keys: their rejected puts hit a known finding,
            // which ends the run before anything else is judged)
            let emb = classes.contains(&Kc::Emb);
            if rng.chance(1, if emb { 10 } else { 3 }) {
                wal.max_size = if emb { *rng.pick(&[600u64, 2000, 3600, 5200, 9000]) } else { *rng.pick(&[40u64, 120, 200, 300, 450, 700]) };
            }
        }
        let sync_ops = durable && (wal.sync != 0 || rng.chance(1, 8));
        let cap: u64 = if rng.chance(1, 2) { 12 } else { 24 };
        let total = rng.range(n_threads as u64, cap.max(n_threads as u64)) as usize;
        let scan_w = *rng.pick(&[0u64, 2, 3]);
        let mut threads: Vec<Vec<Op>> = vec![Vec::new(); n_threads];
        for i in 0..total {
            let t = if i < n_threads { i } else { rng.usize_below(n_threads) };
            let k = *rng.pick(&keys);
            let r = rng.below(20);
            // a client that scans often goes on to read what the listing covers
            let after_scan: Option<u8> = match threads[t].last() {
                Some(Op::Scan { p }) if rng.chance(1, 2) => {
                    let under: Vec<u8> = keys.iter().copied().filter(|k| KEYS[*k as usize].0.starts_with(prefix_of(*p).0)).collect();
                    if under.is_empty() {
                        None
                    } else {
                        Some(*rng.pick(&under))
                    }
                },
                _ => None,
            };
            let op = if let Some(k) = after_scan {
                if rng.chance(1, 2) {
                    Op::Get { k }
                } else {
                    Op::Exists { k }
                }
            } else if r < 7 {
                u += 1;
                Op::Put { k, v: rng.below(10) as u8, u }
            } else if r < 11 {
                Op::Get { k }
            } else if r < 15 {
                Op::Del { k }
            } else if r < 17 {
                Op::Exists { k }
            } else if r < 17 + scan_w {
                Op::Scan { p: if rng.chance(1, 4) { 0 } else { *rng.pick(&prefixes) } }
            } else if sync_ops && r == 19 {
                Op::Sync
            } else {
                Op::Get { k }
            };
            threads[t].push(op);
        }
        // schedules: random walks of varying stickiness, or (1 in 3) bounded
        // preemption: one thread runs until one of 1-3 preemption points, where
        // another thread is picked and runs on (most atomicity bugs need few
        // preemptions, but at an exact place and with a long run after it)
        let schedule = if rng.chance(1, 3) {
            let mut sch = vec![sched::STAY; 320];
            sch[0] = rng.below(16) as u8;
            let horizon = (total as u64 * *rng.pick(&[2u64, 4, 8])).clamp(4, 300);
            for _ in 0..rng.range(1, 3) {
                let at = rng.range(1, horizon) as usize;
                sch[at] = rng.below(16) as u8;
            }
            sch
        } else {
            let stick = *rng.pick(&[0u64, 30, 60, 85, 95]);
            sched::gen_schedule(rng, 320, stick)
        };
        Case { durable, build, wal, setup, threads, schedule }
    }

    fn run(&self, case: &Case, ctx: &Arc<RunCtx>) -> RunOut {
        // switch threads only at this scenario's own layer's sites (see sched::Baton::allow)
        crate::sched::set_allowed_sites(&["c11.", "router.", "metadata.", "cache.", "store."]);
        let mut out = RunOut::default();
        let dir = ctx.node_dir(NODE);
        let wal = format!("{dir}/store.wal");
        let cfg = case.wal.config();
        let bloom_params = |b: (u32, u16)| -> (usize, f64) {
            // expected_items 0 means "the default filter" (10 000 items, 1 %)
            if b.0 == 0 {
                (10_000, 0.01)
            } else {
                (b.0 as usize, f64::from(b.1.clamp(1, 999)) / 1000.0)
            }
        };
        let store = if case.durable {
            let r = match case.build.bloom {
                Some(b) => {
                    let (n, fp) = bloom_params(b);
                    TensorStore::open_durable_with_bloom(&wal, cfg.clone(), n, fp)
                },
                None => TensorStore::open_durable(&wal, cfg.clone()),
            };
            match r {
                Ok(s) => s,
                Err(e) => {
                    out.harness_error = Some(format!("open_durable: {e}"));
                    return out;
                },
            }
        } else {
            match (case.build.bloom, case.build.instr, case.build.capacity) {
                (Some((0, _)), None, _) => TensorStore::with_default_bloom_filter(),
                (Some(b), None, _) => {
                    let (n, fp) = bloom_params(b);
                    TensorStore::with_bloom_filter(n, fp)
                },
                (Some(b), Some(rate), _) => {
                    let (n, fp) = bloom_params(b);
                    TensorStore::with_bloom_and_instrumentation(n, fp, rate)
                },
                (None, Some(rate), _) => TensorStore::with_instrumentation(rate),
                (None, None, Some(c)) => TensorStore::with_capacity(c as usize),
                (None, None, None) => TensorStore::new(),
            }
        };
        if case.build.bloom.is_some() != store.has_bloom_filter() || (!case.durable && case.build.instr.is_some() != store.has_instrumentation()) {
            out.harness_error = Some("the store was not built the way the case says".into());
            return out;
        }
        // a write may be rejected only by a log with a hard size limit
        let may_reject = case.durable && case.wal.max_size > 0;
        let hist: Arc<Mutex<Vec<Rec>>> = Arc::new(Mutex::new(Vec::new()));
        // setup; with `reopen` the operations on `_cache:` keys run after the
        // rebuild (the cache is not durable: recovery would drop what they wrote)
        let reopen = case.durable && case.build.reopen;
        for op in case.setup.iter().filter(|op| !(reopen && op_key(op).is_some_and(|k| KEYS[k].1 == Kc::Cache))) {
            run_op(ctx, &store, case.durable, SETUP_T, op, &hist);
        }
        let store = if reopen {
            if let Err(e) = store.sync() {
                out.harness_error = Some(format!("sync before the rebuild: {e}"));
                return out;
            }
            drop(store);
            let r = match case.build.bloom {
                Some(b) => {
                    let (n, fp) = bloom_params(b);
                    TensorStore::recover_with_bloom(&wal, &cfg, None, n, fp)
                },
                None => TensorStore::recover(&wal, &cfg, None),
            };
            let s = match r {
                Ok(s) => s,
                Err(e) => {
                    out.harness_error = Some(format!("recover after the setup (no concurrency yet: C02's subject): {e}"));
                    return out;
                },
            };
            ctx.event("store rebuilt from the log after the setup");
            ctx.probe("threads_on_recovered_store");
            for op in case.setup.iter().filter(|op| op_key(op).is_some_and(|k| KEYS[k].1 == Kc::Cache)) {
                run_op(ctx, &s, case.durable, SETUP_T, op, &hist);
            }
            s
        } else {
            store
        };
        let mut bodies: Vec<sched::Body> = Vec::new();
        let mut tid = 0usize;
        for ops in &case.threads {
            if ops.is_empty() {
                continue;
            }
            let (ops, store, ctx2, hist2, durable, t) = (ops.clone(), store.clone(), ctx.clone(), hist.clone(), case.durable, tid);
            tid += 1;
            bodies.push(Box::new(move || {
                for op in &ops {
                    sched::yield_point("c11.op");
                    run_op(&ctx2, &store, durable, t, op, &hist2);
                }
            }));
        }
        let n_threads = bodies.len();
        let res = sched::run_threads(ctx, &case.schedule, 50_000, bodies);
        if res.exhausted {
            out.harness_error = Some(format!("scheduler step limit reached after {} steps (a thread spins or is blocked)", res.steps));
            return out;
        }
        ctx.event(&format!("threads joined: steps={} switches={}", res.steps, res.switches));
        if !res.panics.is_empty() {
            out.nontrivial = true;
            out.violation = Some(Violation {
                class: "panic-in-store-operation".into(),
                detail: format!("a store operation panicked under this interleaving: {:?}", res.panics),
            });
            return out;
        }
        for (site, n) in &res.preempted_at {
            for _ in 0..*n {
                ctx.probe(site);
            }
        }
        // quiescent reads on this thread: what "readers last saw". Order: the
        // prefixes the threads scanned, then get/exists of every touched key,
        // then scan("") (a `_cache:` entry may legally vanish, never come back)
        let touched: BTreeSet<usize> = case
            .setup
            .iter()
            .chain(case.threads.iter().flatten())
            .filter_map(op_key)
            .collect();
        let scanned: BTreeSet<u8> = case
            .threads
            .iter()
            .flatten()
            .filter_map(|op| match op {
                Op::Scan { p } if *p as usize % PREFIXES.len() != 0 => Some((*p as usize % PREFIXES.len()) as u8),
                _ => None,
            })
            .collect();
        for p in &scanned {
            run_op(ctx, &store, case.durable, FINAL_T, &Op::Scan { p: *p }, &hist);
        }
        for k in &touched {
            run_op(ctx, &store, case.durable, FINAL_T, &Op::Get { k: *k as u8 }, &hist);
            run_op(ctx, &store, case.durable, FINAL_T, &Op::Exists { k: *k as u8 }, &hist);
        }
        run_op(ctx, &store, case.durable, FINAL_T, &Op::Scan { p: 0 }, &hist);
        let hist_v: Vec<Rec> = hist.lock().unwrap_or_else(|p| p.into_inner()).clone();
        for r in &hist_v {
            match &r.res {
                // a put fails only when the log refuses the record, and the log
                // refuses only for its size limit (no disk faults in this scenario)
                Res::Put(Err(e)) if !(may_reject && is_log_error(e) && KEYS[op_key(&r.op).unwrap_or(0)].1 != Kc::Cache) => {
                    out.harness_error = Some(format!("{} failed: {e}", op_short(&r.op)));
                    return out;
                },
                Res::Del(Err(e)) if is_log_error(e) && !may_reject => {
                    out.harness_error = Some(format!("{} failed: {e}", op_short(&r.op)));
                    return out;
                },
                Res::Sync(Err(e)) => {
                    out.harness_error = Some(format!("{} failed: {e}", op_short(&r.op)));
                    return out;
                },
                _ => {},
            }
        }
        let concurrent = probes(ctx, case, &hist_v);
        out.nontrivial = concurrent && n_threads >= 2;
        if case.durable && case.wal.sync != 0 && hist_v.iter().any(|r| r.t < SETUP_T && r.op == Op::Sync) {
            ctx.probe("sync_op_in_batched_or_manual_mode");
        }
        // fingerprint: completion order of (thread, op kind, key)
        let mut by_ret: Vec<&Rec> = hist_v.iter().filter(|r| r.t < SETUP_T).collect();
        by_ret.sort_by_key(|r| r.ret);
        let mut fp = String::new();
        for r in by_ret {
            fp.push_str(&format!("{}{}|", r.t, op_short(&r.op)));
        }
        ctx.fp(&fp);
        ctx.fp(&format!("{:?}", res.trace));

        // ---- oracle (1)
        let j = judge(&hist_v, if n_threads <= 1 { STRICT } else { VERDICT });
        if j.inconclusive {
            ctx.probe("checker_budget_exhausted");
            out.observations.push("linearizability search budget exhausted for a (sub)history: no verdict for it".into());
        }
        if j.cache_entry_lost {
            ctx.probe("cache_entry_lost_without_capacity_pressure");
            out.observations.push("observation (no verdict: the cache is transient by design): the operations on one `_cache:` key are explainable only by the cache dropping the entry although the ring was nowhere near its capacity".into());
        }
        if let Some(v) = j.violation {
            if n_threads <= 1 && (v.class.starts_with("rejected-write-visible:") || v.class.starts_with("read-value-of-rejected-write:")) {
                // one thread is outside C11's quantifier (2-8 threads): no verdict.
                // Not a model difference either (the model of a rejected write is
                // "no effect", which is what the statement demands): an observation.
                ctx.probe("single_thread_rejected_write_visible");
                out.observations.push(format!("observation (single thread, outside the quantifier: no verdict): {}", v.class));
                return out;
            }
            if n_threads <= 1 {
                // One thread alone is the degenerate interleaving (the other threads have
                // empty programs): "every read returns the value of the latest write in
                // some single order" has exactly one order to choose from. The sequential
                // model is validated by `nsim selftest C11` and by every single-thread run
                // of every batch on the unchanged tree; far below capacity a `_cache:` key
                // is a register too (STRICT mode).
                let mut v = v;
                v.class = format!("sequential:{}", v.class);
                out.violation = Some(v);
                return out;
            }
            out.violation = Some(v);
            return out;
        }
        if j.cache_entry_lost {
            // The ring drops entries only to make room (10 000 slots; this universe has
            // six `_cache:` keys) or on an explicit evict call, which nothing here makes:
            // no entry can have been dropped, so a `_cache:` key is a register like any
            // other and "explainable only by a dropped entry" is not explainable by any
            // single order of the operations. (Single-thread histories are judged this
            // way throughout; 600 000 runs of the thorough tier on the unchanged tree
            // never met the situation.)
            out.violation = Some(Violation {
                class: "nonlinearizable:cache:entry-lost-far-below-capacity".into(),
                detail: "the operations on one `_cache:` key are explainable only by the cache dropping the entry between two of them, although the ring (10 000 slots) holds at most six keys and nothing calls evict: a read missed a key that was written and not deleted".into(),
            });
            return out;
        }
        if n_threads <= 1 {
            ctx.probe("model_conformance_run");
        }
        ctx.probe("history_checked");
        if case.build.bloom.is_some() && n_threads >= 2 {
            ctx.probe("history_checked_bloom_store");
        }

        // ---- oracle (2): "the order in which concurrent writes become durable is
        // the same order in which they took effect in memory, so a crash after
        // quiescence recovers the state readers last saw"
        if case.durable {
            let mem = dump_store_data(&store, true);
            // batched / manual sync: durability is promised from the sync on
            if case.wal.sync != 0 {
                if let Err(e) = store.sync() {
                    out.harness_error = Some(format!("final sync: {e}"));
                    return out;
                }
            }
            if case.wal.power_loss {
                // power loss after quiescence: the process dies (nothing it still
                // buffers reaches the disk), every file is cut back to its fsynced length
                ctx.kill(NODE);
                drop(store);
                let cuts = ctx.crash_image(NODE, true, |_, durable, _| durable);
                ctx.event(&format!("power loss after quiescence: {} file(s) cut", cuts.len()));
                ctx.fault_fired("power_loss_after_quiescence");
                if !cuts.is_empty() {
                    ctx.probe("power_loss_cut_unsynced_bytes");
                }
            } else {
                drop(store);
            }
            let rec = match case.build.bloom {
                Some(b) => {
                    let (n, fp) = bloom_params(b);
                    TensorStore::recover_with_bloom(&wal, &cfg, None, n, fp)
                },
                None => TensorStore::recover(&wal, &cfg, None),
            };
            let rec = match rec {
                Ok(s) => s,
                Err(e) => {
                    out.violation = Some(Violation {
                        class: "recover-failed".into(),
                        detail: format!("recovery of the log written by the concurrent run failed: {e}"),
                    });
                    return out;
                },
            };
            let got = dump_store_data(&rec, true);
            ctx.probe("recovered_and_compared");
            match case.wal.sync {
                0 => {},
                255 => ctx.probe("recovered_and_compared_manual_sync"),
                _ => ctx.probe("recovered_and_compared_batched_sync"),
            }
            if may_reject && hist_v.iter().any(|r| matches!(&r.res, Res::Put(Err(_)))) {
                ctx.probe("recovered_and_compared_after_rejected_write");
            }
            let (m, g) = (canon_map(&mem), canon_map(&got));
            if m != g {
                let mut kcs: BTreeSet<&'static str> = BTreeSet::new();
                let mut diff = String::new();
                let short = |d: Option<&TensorData>| match d {
                    None => "<absent>".to_string(),
                    Some(d) => format!("_u={:?}", data_u(d)),
                };
                for k in m.keys().chain(g.keys()).collect::<BTreeSet<_>>() {
                    if m.get(k) != g.get(k) {
                        let kc = KEYS.iter().find(|(n, _)| n == k).map(|(_, c)| c.name()).unwrap_or("other");
                        kcs.insert(kc);
                        diff.push_str(&format!("[{k}: memory {} / recovered {}] ", short(mem.get(k)), short(got.get(k))));
                    }
                }
                let writes: Vec<&Rec> = hist_v.iter().filter(|r| is_write(&r.op)).collect();
                if n_threads <= 1 {
                    out.harness_error = Some(format!("single-thread durable run: recovery differs from memory ({diff}) — sequential durability is C02's subject, not a C11 verdict"));
                    return out;
                }
                out.violation = Some(Violation {
                    // one key class per verdict keeps the set of classes closed
                    class: format!("durable-state-differs-from-memory:{}", kcs.iter().next().unwrap_or(&"none")),
                    detail: format!(
                        "after quiescence{} and a {}, recovery from the log yields a different state than readers last saw: {diff}; writes: {}",
                        if case.wal.sync != 0 { ", a sync" } else { "" },
                        if case.wal.power_loss { "power loss" } else { "clean drop" },
                        describe(&writes)
                    ),
                });
                return out;
            }
        }
        out
    }

    fn shrink(&self, case: &Case) -> Vec<Case> {
        let mut v = Vec::new();
        // operations of all threads as one list
        let flat: Vec<(usize, Op)> = case.threads.iter().enumerate().flat_map(|(t, ops)| ops.iter().map(move |o| (t, o.clone()))).collect();
        for sub in drop_chunks(&flat) {
            let mut c = case.clone();
            c.threads = vec![Vec::new(); case.threads.len()];
            for (t, o) in sub {
                c.threads[t].push(o);
            }
            v.push(c);
        }
        for s in drop_chunks(&case.setup) {
            let mut c = case.clone();
            c.setup = s;
            v.push(c);
        }
        // drop empty threads (changes the meaning of schedule picks: only kept if it still fails)
        if case.threads.iter().any(Vec::is_empty) {
            let mut c = case.clone();
            c.threads.retain(|t| !t.is_empty());
            v.push(c);
        }
        if case.durable {
            let mut c = case.clone();
            c.durable = false;
            v.push(c);
        }
        // simpler construction / log configuration, one knob at a time
        if case.build != Build::default() {
            let mut c = case.clone();
            c.build = Build::default();
            v.push(c);
            for f in 0..4 {
                let mut c = case.clone();
                match f {
                    0 => c.build.bloom = None,
                    1 => c.build.instr = None,
                    2 => c.build.capacity = None,
                    _ => c.build.reopen = false,
                }
                if c.build != case.build {
                    v.push(c);
                }
            }
        }
        if case.wal != WalKnobs::default() {
            let mut c = case.clone();
            c.wal = WalKnobs::default();
            v.push(c);
            for f in 0..4 {
                let mut c = case.clone();
                match f {
                    0 => c.wal.max_size = 0,
                    1 => c.wal.sync = 0,
                    2 => c.wal.checksums = true,
                    _ => c.wal.power_loss = false,
                }
                if c.wal != case.wal {
                    v.push(c);
                }
            }
        }
        // schedule: shorter, then fewer explicit picks
        let n = case.schedule.len();
        for cut in [n / 2, n * 3 / 4, n.saturating_sub(8), n.saturating_sub(1)] {
            if cut < n {
                let mut c = case.clone();
                c.schedule.truncate(cut);
                v.push(c);
            }
        }
        for (i, p) in case.schedule.iter().enumerate() {
            if *p != sched::STAY {
                let mut c = case.clone();
                c.schedule[i] = sched::STAY;
                v.push(c);
            }
        }
        for (i, p) in case.schedule.iter().enumerate() {
            if *p != sched::STAY && *p > 7 {
                let mut c = case.clone();
                c.schedule[i] = *p % 8;
                v.push(c);
            }
        }
        // simpler values
        for (t, ops) in case.threads.iter().enumerate() {
            for (i, op) in ops.iter().enumerate() {
                if let Op::Put { k, v: kind, u } = op {
                    if *kind != 2 {
                        let mut c = case.clone();
                        c.threads[t][i] = Op::Put { k: *k, v: 2, u: *u };
                        v.push(c);
                    }
                }
            }
        }
        v
    }

    fn required_probes(&self) -> Vec<&'static str> {
        vec![
            "history_checked",
            "recovered_and_compared",
            "overlap_two_durable_writers_same_key",
            "overlap_get_embedding_put",
            "overlap_scan_all_writes_two_shards",
            "overlap_delete_put_same_key",
            "router.put.emb.after_slab",
            "router.delete.after_exists",
            "metadata.scan_all.before_shard",
            // store construction variants
            "history_checked_bloom_store",
            "store.bloom.add",
            "bloom_first_put_overlaps_scan_then_point_read",
            "threads_on_recovered_store",
            // scan prefix shapes
            "scan_short_prefix_lists_class_key",
            "scan_short_prefix_lists_cache_key",
            "scan_short_prefix_lists_two_classes",
            "scan_long_prefix_lists_key",
            "scan_prefix_matching_nothing",
            // log configuration
            "rejected_write",
            "rejected_write_then_read_of_key",
            "rejected_write_overlaps_read_of_key",
            "rejected_write_after_accepted_write_of_key",
            "recovered_and_compared_after_rejected_write",
            "sync_op_in_batched_or_manual_mode",
            "recovered_and_compared_batched_sync",
            "recovered_and_compared_manual_sync",
        ]
    }

    fn rule(&self) -> String {
        "A case is a store construction variant (new / with_capacity / with_bloom_filter / with_default_bloom_filter / with_instrumentation / with_bloom_and_instrumentation; open_durable / open_durable_with_bloom on the simulated disk, optionally dropped and rebuilt with recover / recover_with_bloom after the setup), for durable stores a log configuration (sync mode immediate / batched(n) / manual, checksums on/off, default size or a hard size limit with auto_rotate off that makes later durable writes fail, clean drop or power loss after quiescence), a sequential setup, 2-8 thread programs of put/get/delete/exists/scan/sync (durable forms when the log is on) with <=24 operations in total on 1-4 contended keys drawn from all key classes (plain, emb:, node:/edge:, table:, _cache:, and plain keys sharing a proper prefix of a class prefix), scan prefixes of every shape (empty, proper prefixes of class prefixes, class prefixes, whole keys, prefixes matching nothing), and an explicit schedule (320 picks) that decides which thread runs at every operation boundary, every hook site inside the store, every slab-lock acquisition and every Bloom-filter update. After the threads joined, quiescent reads (the scanned prefixes, get and exists of every touched key, scan(\"\")) are appended to the history; the whole invoke/return history is checked for linearizability (per key, then with scans; a write that returned an error has no effect) and, with the log, the store is synced (batched/manual), dropped or power-cut, recovered and compared with memory. Non-trivial: at least two operations of different threads on the same key (or a scan and a write under its prefix) overlapped in time. Distinct: hash of (completion order of thread operations, scheduler trace).".into()
    }

    fn components(&self) -> Value {
        json!({
            "real": ["tensor_store::TensorStore (all in-memory and durable constructors except the snapshot loaders; put, get, delete, exists, scan, put_durable, delete_durable, sync, recover, recover_with_bloom)", "BloomFilter", "ShardAccessTracker", "SlabRouter", "MetadataSlab (16 shards)", "EntityIndex", "EmbeddingSlab", "CacheRing", "TensorWal (SyncMode::Immediate / Batched / Manual, size limit with auto_rotate off)"],
            "simulated": ["thread interleaving: baton scheduler over real OS threads, switches at operation boundaries, neumann_verif hook sites, slab-lock acquisitions and Bloom-filter updates only", "disk: interposed libc, files on tmpfs; power loss after quiescence cuts every file to its fsynced length"],
            "stub": []
        })
    }

    fn assumptions(&self) -> Vec<String> {
        vec![
            "interleavings are explored at the granularity of the hook sites and lock acquisitions (between critical sections); code between two schedule points runs without interruption, so data races inside one critical section and weak-memory effects are not explored".into(),
            "emb: keys are always written with a full 384-dim `_embedding`, other keys never carry `_embedding` (sequential-semantics quirks of the store are kept out of the workload)".into(),
            "the cache ring never reaches its capacity (no eviction), so `_cache:` keys behave as registers; they are ignored in the durable comparison".into(),
            "no checkpoint and no rotation (auto_rotate with a small limit loses records: C02's known finding); a hard size limit is the only reason a write is rejected (no disk faults: outside the quantifier); every write of a durable run is a durable write".into(),
            "stores loaded from snapshots (load_snapshot*) are not among the construction variants: the snapshot formats store 384-dim embeddings lossily, which is C07's subject".into(),
            "a delete that returns NotFound is modelled as having no effect; Ok/NotFound of delete is part of the judged result (reported under its own class ...:delete-result)".into(),
            "in batched / manual sync modes the log is synced once after quiescence before the drop / power loss (durability is promised from the sync on)".into(),
        ]
    }

    fn watchdog_secs(&self) -> u64 {
        300
    }
}

// ---------------------------------------------------------------------------
// self-test of the checker and of the sequential model (`nsim selftest C11`)
// ---------------------------------------------------------------------------

fn h(inv: u64, ret: u64, kind: HKind) -> HOp {
    HOp { inv, ret, kind }
}

/// Hand-made histories: (name, history, expected strict verdict).
fn handmade() -> Vec<(&'static str, Vec<HOp>, bool)> {
    use HKind::*;
    vec![
        ("empty", vec![], true),
        ("sequential put/get", vec![h(1, 2, Put { k: 0, val: 1 }), h(3, 4, Get { k: 0, seen: 1 })], true),
        ("get of a never-present key finds nothing", vec![h(1, 2, Get { k: 0, seen: 0 })], true),
        ("stale read after a completed overwrite", vec![h(1, 2, Put { k: 0, val: 1 }), h(3, 4, Put { k: 0, val: 2 }), h(5, 6, Get { k: 0, seen: 1 })], false),
        ("read concurrent with a put may see old", vec![h(1, 2, Put { k: 0, val: 1 }), h(3, 8, Put { k: 0, val: 2 }), h(4, 5, Get { k: 0, seen: 1 })], true),
        ("read concurrent with a put may see new", vec![h(1, 2, Put { k: 0, val: 1 }), h(3, 8, Put { k: 0, val: 2 }), h(4, 5, Get { k: 0, seen: 2 })], true),
        (
            "new then old while the put is still running",
            vec![h(1, 2, Put { k: 0, val: 1 }), h(3, 10, Put { k: 0, val: 2 }), h(4, 5, Get { k: 0, seen: 2 }), h(6, 7, Get { k: 0, seen: 1 })],
            false,
        ),
        ("read of a value before it is written", vec![h(1, 2, Get { k: 0, seen: 1 }), h(3, 4, Put { k: 0, val: 1 })], false),
        ("two concurrent deletes of one value both succeed", vec![h(1, 2, Put { k: 0, val: 1 }), h(3, 6, Del { k: 0, ok: true }), h(4, 7, Del { k: 0, ok: true })], false),
        ("two concurrent deletes, one succeeds", vec![h(1, 2, Put { k: 0, val: 1 }), h(3, 6, Del { k: 0, ok: true }), h(4, 7, Del { k: 0, ok: false })], true),
        ("delete of an absent key reports not-found", vec![h(1, 2, Del { k: 0, ok: false }), h(3, 4, Exists { k: 0, seen: false })], true),
        ("delete of an absent key reports ok", vec![h(1, 2, Del { k: 0, ok: true })], false),
        (
            "lost update: put overlapping a delete, delete wins but value stays",
            vec![h(1, 6, Put { k: 0, val: 1 }), h(2, 4, Del { k: 0, ok: true }), h(7, 8, Get { k: 0, seen: 1 })],
            false,
        ),
        (
            "put overlapping a failed delete, value stays",
            vec![h(1, 6, Put { k: 0, val: 1 }), h(2, 4, Del { k: 0, ok: false }), h(7, 8, Get { k: 0, seen: 1 })],
            true,
        ),
        (
            "scan sees the later of two sequential puts only",
            vec![h(2, 3, Put { k: 0, val: 1 }), h(4, 5, Put { k: 8, val: 2 }), h(1, 9, Scan { mask: 0xfff, seen: 1 << 8 })],
            false,
        ),
        (
            "scan sees the earlier of two sequential puts only",
            vec![h(2, 3, Put { k: 0, val: 1 }), h(4, 5, Put { k: 8, val: 2 }), h(1, 9, Scan { mask: 0xfff, seen: 1 })],
            true,
        ),
        (
            "scan sees the later of two concurrent puts only",
            vec![h(2, 6, Put { k: 0, val: 1 }), h(4, 5, Put { k: 8, val: 2 }), h(1, 9, Scan { mask: 0xfff, seen: 1 << 8 })],
            true,
        ),
        (
            "scan returns a set that never existed (delete a, then put b)",
            vec![h(1, 2, Put { k: 3, val: 1 }), h(4, 5, Del { k: 3, ok: true }), h(6, 7, Put { k: 4, val: 2 }), h(3, 9, Scan { mask: 0b11000, seen: 0b11000 })],
            false,
        ),
        (
            "prefix scan ignores keys outside its mask",
            vec![h(1, 2, Put { k: 0, val: 1 }), h(3, 4, Put { k: 3, val: 2 }), h(5, 6, Scan { mask: 0b11000, seen: 0b01000 })],
            true,
        ),
        (
            "two keys, each linearizable, no common order needed without scans",
            vec![h(1, 10, Put { k: 0, val: 1 }), h(2, 9, Put { k: 1, val: 2 }), h(3, 4, Get { k: 0, seen: 1 }), h(5, 6, Get { k: 1, seen: 0 }), h(7, 8, Get { k: 1, seen: 2 })],
            true,
        ),
        (
            "exists contradicts a completed put",
            vec![h(1, 2, Put { k: 5, val: 7 }), h(3, 4, Exists { k: 5, seen: false })],
            false,
        ),
        (
            "three threads, value overwritten twice, reader sees each in order",
            vec![
                h(1, 4, Put { k: 0, val: 1 }),
                h(2, 8, Put { k: 0, val: 2 }),
                h(5, 6, Get { k: 0, seen: 1 }),
                h(9, 10, Get { k: 0, seen: 2 }),
            ],
            true,
        ),
        (
            "reader sees 2 then 1 then 2 with only two puts",
            vec![
                h(1, 20, Put { k: 0, val: 1 }),
                h(2, 21, Put { k: 0, val: 2 }),
                h(3, 4, Get { k: 0, seen: 2 }),
                h(5, 6, Get { k: 0, seen: 1 }),
                h(7, 8, Get { k: 0, seen: 2 }),
            ],
            false,
        ),
    ]
}

/// Debug aid: the replay file of generated case `idx` of `verif_seed` (violation
/// fields are placeholders), so a single run can be examined with `nsim replay`.
pub fn dump_case(verif_seed: u64, idx: u64) -> String {
    let cs = crate::driver::case_seed(verif_seed, "C11", idx);
    let mut rng = Rng::new(cs);
    let case = C11.generate(&mut rng, Tier::Quick, idx);
    serde_json::to_string_pretty(&json!({
        "property": "C11", "seed": cs, "case": case,
        "violation": {"class": "none", "detail": ""}, "digest": 0, "note": format!("generated case {idx} of VERIF_SEED={verif_seed}")
    }))
    .unwrap_or_default()
}

/// Returns a report; Err on the first discrepancy.
pub fn selftest() -> Result<String, String> {
    let mut rep = String::new();
    let (mut n_yes, mut n_no) = (0, 0);
    for (name, hist, expect) in handmade() {
        let got = check_lin(&hist, STRICT, BUDGET);
        let ok = matches!((got, expect), (Lin::Yes, true) | (Lin::No { .. }, false));
        if !ok {
            return Err(format!("checker self-test '{name}': expected linearizable={expect}, got {got:?}"));
        }
        if expect {
            n_yes += 1;
        } else {
            n_no += 1;
        }
    }
    // relaxation used for diagnosis only
    let dd = vec![
        h(1, 2, HKind::Put { k: 0, val: 1 }),
        h(3, 6, HKind::Del { k: 0, ok: true }),
        h(4, 7, HKind::Del { k: 0, ok: true }),
    ];
    if check_lin(&dd, Mode { relax_delete: true, ..STRICT }, BUDGET) != Lin::Yes {
        return Err("relaxed check must accept the double delete".into());
    }
    // cache keys under the verdict mode: entries may vanish, but never show a
    // stale value, reappear without a put, or be deleted twice
    let ck = 10usize;
    let cache_cases: Vec<(&str, Vec<HOp>, bool)> = vec![
        ("cache entry vanished", vec![h(1, 2, HKind::Put { k: ck, val: 1 }), h(3, 4, HKind::Get { k: ck, seen: 0 })], true),
        ("cache entry vanished, then back without a put", vec![h(1, 2, HKind::Put { k: ck, val: 1 }), h(3, 4, HKind::Exists { k: ck, seen: false }), h(5, 6, HKind::Get { k: ck, seen: 1 })], false),
        ("cache stale value", vec![h(1, 2, HKind::Put { k: ck, val: 1 }), h(3, 4, HKind::Put { k: ck, val: 2 }), h(5, 6, HKind::Get { k: ck, seen: 1 })], false),
        ("cache double delete", vec![h(1, 2, HKind::Put { k: ck, val: 1 }), h(3, 6, HKind::Del { k: ck, ok: true }), h(4, 7, HKind::Del { k: ck, ok: true })], false),
        ("scan lists a cache key after exists denied it", vec![h(1, 2, HKind::Put { k: ck, val: 1 }), h(3, 4, HKind::Exists { k: ck, seen: false }), h(5, 6, HKind::Scan { mask: 0xfff, seen: 1 << ck })], false),
        ("scan misses an evicted cache key", vec![h(1, 2, HKind::Put { k: ck, val: 1 }), h(5, 6, HKind::Scan { mask: 0xfff, seen: 0 })], true),
        ("a plain key may not vanish", vec![h(1, 2, HKind::Put { k: 0, val: 1 }), h(5, 6, HKind::Scan { mask: 0xfff, seen: 0 })], false),
    ];
    for (name, hist, expect) in cache_cases {
        let got = check_lin(&hist, VERDICT, BUDGET);
        if !matches!((got, expect), (Lin::Yes, true) | (Lin::No { .. }, false)) {
            return Err(format!("checker self-test (verdict mode) '{name}': expected linearizable={expect}, got {got:?}"));
        }
        if expect {
            n_yes += 1;
        } else {
            n_no += 1;
        }
    }
    // budget handling
    let mut big = Vec::new();
    for t in 0..8u64 {
        for i in 0..3u64 {
            big.push(h(1 + t + i * 100, 50 + t + i * 100, HKind::Put { k: (t % 4) as usize, val: (t * 3 + i + 1) as u32 }));
        }
    }
    big.push(h(1000, 1001, HKind::Get { k: 0, seen: 999 }));
    if check_lin(&big, STRICT, 50) != Lin::Budget {
        return Err("budget exhaustion must be reported as such".into());
    }
    if !matches!(check_lin(&big, STRICT, 5_000_000), Lin::No { .. }) {
        return Err("8-thread history with an impossible read must be rejected".into());
    }
    rep.push_str(&format!("checker: {n_yes} linearizable and {n_no} non-linearizable hand-made histories judged as expected; relaxation and budget paths ok\n"));

    // sequential model against the real store: one thread, every key class,
    // both modes. With one thread linearizable == equal to the model step by step.
    let scn = Arc::new(C11);
    let mut runs = 0;
    for seed in 0..300u64 {
        let mut rng = Rng::new(crate::rng::mix(&[0xC11, seed]));
        let mut case = scn.generate(&mut rng, Tier::Quick, seed);
        let flat: Vec<Op> = case.threads.iter().flatten().cloned().collect();
        case.threads = vec![flat];
        match crate::driver::exec_case(&scn, &case, seed, false) {
            Err(e) => return Err(format!("sequential run {seed}: {e}")),
            Ok(ex) => {
                if let Some(e) = ex.out.harness_error {
                    return Err(format!("sequential run {seed}: harness error {e}"));
                }
                if let Some(v) = ex.out.violation {
                    return Err(format!(
                        "sequential run {seed}: the model disagrees with the real store in a single-thread run: {} — {}; case={}",
                        v.class,
                        v.detail,
                        serde_json::to_string(&case).unwrap_or_default()
                    ));
                }
                runs += 1;
            },
        }
    }
    rep.push_str(&format!("model: {runs} single-thread programs (all key classes, plain and durable incl. recovery) agree with the sequential model\n"));
    Ok(rep)
}

#[cfg(test)]
mod tests {
    #[test]
    fn checker_and_model_selftest() {
        crate::sched::install_repo_hook();
        let r = super::selftest();
        assert!(r.is_ok(), "{r:?}");
    }
}
