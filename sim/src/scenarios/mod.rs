pub mod c01;
pub mod c02;
pub mod c10;
