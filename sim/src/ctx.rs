//! Per-run simulation context: the clock, the random stream, the simulated
//! disk bookkeeping, crash/fault arming, the event log and the counters.
//!
//! One `RunCtx` exists per simulated run. It is installed in a thread-local of
//! every thread that belongs to the run; the libc overrides in `interpose.rs`
//! consult it. Threads without a context see the real libc.

use crate::rng::{hash_str, Rng};
use std::cell::Cell;
use std::collections::BTreeMap;
use std::sync::{Arc, Mutex, MutexGuard};

pub const WALL_START_NS: u64 = 1_700_000_000 * 1_000_000_000;
pub const MONO_START_NS: u64 = 1_000_000 * 1_000_000_000;

#[derive(Clone, Copy, Debug, PartialEq, Eq)]
pub enum DiskFault {
    /// return -1/EIO, nothing written
    Eio,
    /// return -1/ENOSPC, nothing written
    Enospc,
    /// return -1/EINTR, nothing written (callers must retry)
    Eintr,
    /// write only this many bytes and return that count (legal short write)
    Short(usize),
}

#[derive(Clone, Debug)]
pub struct FileSt {
    pub len: u64,
    pub durable: u64,
}

#[derive(Clone, Debug)]
pub struct SysEvent {
    pub kind: &'static str,
    pub path: String,
    pub len: usize,
}

pub struct Inner {
    pub mono_ns: u64,
    pub wall_ns: u64,
    /// per-node wall-clock offset (ns, signed), applied when `cur_node` is set
    pub skew: BTreeMap<String, i64>,
    pub cur_node: Option<String>,
    pub rand: Rng,
    pub root: String,
    pub files: BTreeMap<String, FileSt>,
    pub fds: BTreeMap<i32, String>,
    /// mutating syscalls seen on tracked paths, per node, since last reset
    pub sys_count: BTreeMap<String, u64>,
    pub sys_log: Vec<SysEvent>,
    pub record_sys: bool,
    /// (node, countdown of mutating syscalls, bytes kept if it is a write)
    pub crash_arm: Option<(String, u64, Option<usize>)>,
    pub fault_arm: Vec<(String, u64, DiskFault)>,
    pub dead: BTreeMap<String, bool>,
    pub disk_full: BTreeMap<String, bool>,
    pub crash_fired: Option<SysEvent>,
    pub log: Vec<String>,
    pub keep_log: bool,
    pub digest: u64,
    pub fingerprint: u64,
    pub probes: BTreeMap<&'static str, u64>,
    pub faults: BTreeMap<&'static str, u64>,
    pub seq: u64,
    pub untracked_mutations: u64,
}

pub struct RunCtx {
    pub inner: Mutex<Inner>,
}

thread_local! {
    static CTX: Cell<*const RunCtx> = const { Cell::new(std::ptr::null()) };
    static IN_HOOK: Cell<bool> = const { Cell::new(false) };
}

/// RAII installation of a context on the current thread.
pub struct Installed {
    _keep: Arc<RunCtx>,
    prev: *const RunCtx,
}
impl Drop for Installed {
    fn drop(&mut self) {
        CTX.with(|c| c.set(self.prev));
    }
}

pub fn install(ctx: &Arc<RunCtx>) -> Installed {
    let prev = CTX.with(|c| c.replace(Arc::as_ptr(ctx)));
    Installed { _keep: ctx.clone(), prev }
}

/// Run `f` with the current thread's context, if any. Re-entrancy guarded:
/// a libc override that is entered while the context is already in use on this
/// thread (e.g. an allocation inside the override calling back) sees `None`.
pub fn with_ctx<R>(f: impl FnOnce(&RunCtx) -> R) -> Option<R> {
    let p = CTX.try_with(|c| c.get()).unwrap_or(std::ptr::null());
    if p.is_null() {
        return None;
    }
    let busy = IN_HOOK.try_with(|b| b.replace(true)).unwrap_or(true);
    if busy {
        return None;
    }
    // SAFETY: the pointer is kept alive by the `Installed` guard on this thread.
    let r = f(unsafe { &*p });
    let _ = IN_HOOK.try_with(|b| b.set(false));
    Some(r)
}

pub fn current() -> Option<Arc<RunCtx>> {
    let p = CTX.with(|c| c.get());
    if p.is_null() {
        None
    } else {
        // SAFETY: pointer originates from an Arc kept alive by `Installed`.
        unsafe {
            Arc::increment_strong_count(p);
            Some(Arc::from_raw(p))
        }
    }
}

impl RunCtx {
    pub fn new(seed: u64, root: String, keep_log: bool) -> Arc<Self> {
        Arc::new(RunCtx {
            inner: Mutex::new(Inner {
                mono_ns: MONO_START_NS,
                wall_ns: WALL_START_NS,
                skew: BTreeMap::new(),
                cur_node: None,
                rand: Rng::new(seed ^ 0x5eed_5eed),
                root,
                files: BTreeMap::new(),
                fds: BTreeMap::new(),
                sys_count: BTreeMap::new(),
                sys_log: Vec::new(),
                record_sys: false,
                crash_arm: None,
                fault_arm: Vec::new(),
                dead: BTreeMap::new(),
                disk_full: BTreeMap::new(),
                crash_fired: None,
                log: Vec::new(),
                keep_log,
                digest: 0xdead_beef,
                fingerprint: 0x1234_5678,
                probes: BTreeMap::new(),
                faults: BTreeMap::new(),
                seq: 0,
                untracked_mutations: 0,
            }),
        })
    }

    pub fn lock(&self) -> MutexGuard<'_, Inner> {
        match self.inner.lock() {
            Ok(g) => g,
            Err(p) => p.into_inner(),
        }
    }

    // ---- clock ----
    pub fn advance_ms(&self, ms: u64) {
        let mut g = self.lock();
        g.mono_ns += ms * 1_000_000;
        g.wall_ns += ms * 1_000_000;
    }
    pub fn advance_ns(&self, ns: u64) {
        let mut g = self.lock();
        g.mono_ns += ns;
        g.wall_ns += ns;
    }
    pub fn now_mono_ns(&self) -> u64 {
        self.lock().mono_ns
    }
    pub fn sim_elapsed_ns(&self) -> u64 {
        self.lock().mono_ns - MONO_START_NS
    }
    /// Step the wall clock only (clock jump); may be negative.
    pub fn step_wall_ms(&self, ms: i64) {
        let mut g = self.lock();
        g.wall_ns = (g.wall_ns as i64 + ms * 1_000_000) as u64;
    }
    pub fn set_skew_ms(&self, node: &str, ms: i64) {
        self.lock().skew.insert(node.to_string(), ms * 1_000_000);
    }
    pub fn set_node(&self, node: Option<&str>) {
        self.lock().cur_node = node.map(str::to_string);
    }

    // ---- log / counters ----
    /// Record an event: goes into the digest (determinism check) always and
    /// into the textual log when kept. Never reads a clock or the PRNG.
    pub fn event(&self, s: &str) {
        let mut g = self.lock();
        g.seq += 1;
        g.digest = g.digest.rotate_left(5) ^ hash_str(s);
        if g.keep_log {
            let seq = g.seq;
            g.log.push(format!("{seq:05} {s}"));
        }
    }
    /// Record a coarse event class for the trace fingerprint (distinctness).
    pub fn fp(&self, class: &str) {
        let mut g = self.lock();
        g.fingerprint = g.fingerprint.rotate_left(7) ^ hash_str(class);
    }
    pub fn probe(&self, name: &'static str) {
        *self.lock().probes.entry(name).or_insert(0) += 1;
    }
    pub fn fault_fired(&self, name: &'static str) {
        *self.lock().faults.entry(name).or_insert(0) += 1;
    }
    pub fn next_seq(&self) -> u64 {
        let mut g = self.lock();
        g.seq += 1;
        g.seq
    }

    // ---- disk ----
    pub fn root(&self) -> String {
        self.lock().root.clone()
    }
    pub fn node_dir(&self, node: &str) -> String {
        let d = format!("{}/{}", self.lock().root, node);
        let _ = std::fs::create_dir_all(&d);
        d
    }
    /// Arm a crash of `node` at its `nth` (0-based) mutating syscall from now;
    /// if that syscall is a write, keep only `bytes` of it (None = none).
    pub fn arm_crash(&self, node: &str, nth: u64, bytes: Option<usize>) {
        self.lock().crash_arm = Some((node.to_string(), nth, bytes));
    }
    pub fn disarm_crash(&self) {
        self.lock().crash_arm = None;
    }
    pub fn arm_fault(&self, node: &str, nth: u64, f: DiskFault) {
        self.lock().fault_arm.push((node.to_string(), nth, f));
    }
    pub fn clear_faults(&self) {
        self.lock().fault_arm.clear();
    }
    pub fn is_dead(&self, node: &str) -> bool {
        self.lock().dead.get(node).copied().unwrap_or(false)
    }
    /// Kill a node between steps: from now on its mutating syscalls are discarded.
    pub fn kill(&self, node: &str) {
        self.lock().dead.insert(node.to_string(), true);
    }
    pub fn set_disk_full(&self, node: &str, full: bool) {
        self.lock().disk_full.insert(node.to_string(), full);
    }
    pub fn start_sys_recording(&self) {
        let mut g = self.lock();
        g.record_sys = true;
        g.sys_log.clear();
    }
    pub fn take_sys_log(&self) -> Vec<SysEvent> {
        std::mem::take(&mut self.lock().sys_log)
    }
    pub fn sys_count(&self, node: &str) -> u64 {
        self.lock().sys_count.get(node).copied().unwrap_or(0)
    }
    pub fn crash_fired(&self) -> Option<SysEvent> {
        self.lock().crash_fired.clone()
    }

    /// Produce the post-crash disk image for `node` and bring the node back to
    /// life (its next incarnation may write again).
    ///
    /// `power_loss = false`: process crash — all bytes handed to write survive.
    /// `power_loss = true`: every file of the node that has bytes above its
    /// durable watermark is cut to a length chosen by `choose(durable, len)`.
    /// Returns the list of (path, old_len, new_len) cuts made.
    pub fn crash_image(
        &self,
        node: &str,
        power_loss: bool,
        mut choose: impl FnMut(&str, u64, u64) -> u64,
    ) -> Vec<(String, u64, u64)> {
        let mut cuts = Vec::new();
        let mut g = self.lock();
        let prefix = format!("{}/{}/", g.root, node);
        // close bookkeeping of fds of the dead incarnation is done by close();
        // here only lengths matter.
        let paths: Vec<String> = g.files.keys().filter(|p| p.starts_with(&prefix)).cloned().collect();
        for p in paths {
            let st = g.files.get(&p).cloned().unwrap();
            if power_loss && st.durable < st.len {
                let new_len = choose(&p, st.durable, st.len).clamp(st.durable, st.len);
                if new_len < st.len {
                    crate::interpose::real_truncate(&p, new_len);
                    cuts.push((p.clone(), st.len, new_len));
                }
                g.files.insert(p, FileSt { len: new_len, durable: new_len });
            } else {
                g.files.insert(p, FileSt { len: st.len, durable: st.len });
            }
        }
        g.dead.insert(node.to_string(), false);
        g.crash_arm = None;
        g.crash_fired = None;
        g.fault_arm.retain(|(n, _, _)| n != node);
        cuts
    }

    /// Forget bookkeeping for files under `prefix` (after the scenario removed them).
    pub fn forget_prefix(&self, prefix: &str) {
        let mut g = self.lock();
        g.files.retain(|p, _| !p.starts_with(prefix));
    }

    pub fn finish(&self) -> RunTotals {
        let g = self.lock();
        RunTotals {
            digest: g.digest,
            fingerprint: g.fingerprint,
            probes: g.probes.clone(),
            faults: g.faults.clone(),
            sim_ns: g.mono_ns - MONO_START_NS,
            log: g.log.clone(),
            untracked_mutations: g.untracked_mutations,
        }
    }
}

#[derive(Clone, Debug, Default)]
pub struct RunTotals {
    pub digest: u64,
    pub fingerprint: u64,
    pub probes: BTreeMap<&'static str, u64>,
    pub faults: BTreeMap<&'static str, u64>,
    pub sim_ns: u64,
    pub log: Vec<String>,
    pub untracked_mutations: u64,
}

impl Inner {
    /// node name of a tracked path ("<root>/<node>/..."), if tracked
    pub fn node_of(&self, path: &str) -> Option<String> {
        let rest = path.strip_prefix(self.root.as_str())?.strip_prefix('/')?;
        let node = rest.split('/').next()?;
        if node.is_empty() || !rest.contains('/') {
            // a file directly under root belongs to pseudo-node "_"
            return Some("_".to_string());
        }
        Some(node.to_string())
    }
}
