//! libc overrides. Symbols defined in the executable win over glibc's at link
//! time, so `std::fs`, `std::time`, `rand`, `uuid`, `HashMap`'s RandomState and
//! `thread::sleep` inside the code under test all end up here. A thread without
//! an installed `RunCtx` gets the real behaviour through raw syscalls.
#![allow(clippy::missing_safety_doc)]

use crate::ctx::{with_ctx, DiskFault, FileSt, Inner, SysEvent};
use libc::{c_char, c_int, c_long, c_uint, c_void, mode_t, off_t, size_t, ssize_t, timespec};
use std::ffi::CStr;

unsafe fn set_errno(e: c_int) {
    *libc::__errno_location() = e;
}

unsafe fn cstr(p: *const c_char) -> String {
    if p.is_null() {
        return String::new();
    }
    CStr::from_ptr(p).to_string_lossy().into_owned()
}

pub fn real_truncate(path: &str, len: u64) {
    let c = std::ffi::CString::new(path).unwrap();
    unsafe {
        libc::syscall(libc::SYS_truncate, c.as_ptr(), len as c_long);
    }
}

// ------------------------------------------------------------------ raw syscalls

/// The real system call, without going through libc's `syscall` wrapper
/// (which this file overrides below).
#[inline]
unsafe fn raw_syscall6(num: c_long, a1: c_long, a2: c_long, a3: c_long, a4: c_long, a5: c_long, a6: c_long) -> c_long {
    let ret: c_long;
    std::arch::asm!(
        "syscall",
        inlateout("rax") num => ret,
        in("rdi") a1,
        in("rsi") a2,
        in("rdx") a3,
        in("r10") a4,
        in("r8") a5,
        in("r9") a6,
        lateout("rcx") _,
        lateout("r11") _,
        options(nostack)
    );
    ret
}

/// Override of libc's variadic `syscall(2)` wrapper: some crates (getrandom 0.2 /
/// rand_core 0.6, used for ed25519 key generation) issue `SYS_getrandom` through it
/// instead of calling `getrandom(3)`. Everything else passes straight through.
#[no_mangle]
pub unsafe extern "C" fn syscall(num: c_long, a1: c_long, a2: c_long, a3: c_long, a4: c_long, a5: c_long, a6: c_long) -> c_long {
    if num == libc::SYS_getrandom {
        let filled = with_ctx(|c| {
            let mut g = c.lock();
            let s = std::slice::from_raw_parts_mut(a1 as *mut u8, a2 as usize);
            g.rand.fill(s);
        });
        if filled.is_some() {
            return a2;
        }
    }
    let r = raw_syscall6(num, a1, a2, a3, a4, a5, a6);
    if (-4095..0).contains(&r) {
        set_errno(-r as c_int);
        return -1;
    }
    r
}

// ------------------------------------------------------------------ clock

unsafe fn real_clock_gettime(clk: c_int, ts: *mut timespec) -> c_int {
    libc::syscall(libc::SYS_clock_gettime, clk as c_long, ts) as c_int
}

#[no_mangle]
pub unsafe extern "C" fn clock_gettime(clk: c_int, ts: *mut timespec) -> c_int {
    let simulated = match clk {
        libc::CLOCK_REALTIME | libc::CLOCK_REALTIME_COARSE => Some(true),
        libc::CLOCK_MONOTONIC
        | libc::CLOCK_MONOTONIC_RAW
        | libc::CLOCK_MONOTONIC_COARSE
        | libc::CLOCK_BOOTTIME => Some(false),
        _ => None,
    };
    if let Some(wall) = simulated {
        let r = with_ctx(|c| {
            let mut g = c.lock();
            // every read moves time by 100ns: two reads never return the same
            // instant, deterministically.
            g.mono_ns += 100;
            g.wall_ns += 100;
            if wall {
                let skew = g
                    .cur_node
                    .as_ref()
                    .and_then(|n| g.skew.get(n))
                    .copied()
                    .unwrap_or(0);
                (g.wall_ns as i64 + skew) as u64
            } else {
                g.mono_ns
            }
        });
        if let Some(ns) = r {
            (*ts).tv_sec = (ns / 1_000_000_000) as libc::time_t;
            (*ts).tv_nsec = (ns % 1_000_000_000) as c_long;
            return 0;
        }
    }
    real_clock_gettime(clk, ts)
}

#[no_mangle]
pub unsafe extern "C" fn gettimeofday(tv: *mut libc::timeval, _tz: *mut c_void) -> c_int {
    let mut ts: timespec = std::mem::zeroed();
    clock_gettime(libc::CLOCK_REALTIME, &mut ts);
    if !tv.is_null() {
        (*tv).tv_sec = ts.tv_sec;
        (*tv).tv_usec = ts.tv_nsec / 1000;
    }
    0
}

#[no_mangle]
pub unsafe extern "C" fn nanosleep(req: *const timespec, rem: *mut timespec) -> c_int {
    let ns = (*req).tv_sec as u64 * 1_000_000_000 + (*req).tv_nsec as u64;
    if with_ctx(|c| {
        c.advance_ns(ns);
        c.probe("sim_sleep");
    })
    .is_some()
    {
        return 0;
    }
    libc::syscall(libc::SYS_nanosleep, req, rem) as c_int
}

#[no_mangle]
pub unsafe extern "C" fn clock_nanosleep(
    clk: c_int,
    flags: c_int,
    req: *const timespec,
    rem: *mut timespec,
) -> c_int {
    let ns = (*req).tv_sec as u64 * 1_000_000_000 + (*req).tv_nsec as u64;
    if with_ctx(|c| {
        if flags & libc::TIMER_ABSTIME != 0 {
            let mut g = c.lock();
            let now = if clk == libc::CLOCK_REALTIME { g.wall_ns } else { g.mono_ns };
            if ns > now {
                let d = ns - now;
                g.mono_ns += d;
                g.wall_ns += d;
            }
        } else {
            c.advance_ns(ns);
        }
        c.probe("sim_sleep");
    })
    .is_some()
    {
        return 0;
    }
    // clock_nanosleep returns the error number directly
    let r = libc::syscall(libc::SYS_clock_nanosleep, clk as c_long, flags as c_long, req, rem);
    if r == 0 {
        0
    } else {
        *libc::__errno_location()
    }
}

// ------------------------------------------------------------------ randomness

#[no_mangle]
pub unsafe extern "C" fn getrandom(buf: *mut c_void, len: size_t, flags: c_uint) -> ssize_t {
    if with_ctx(|c| {
        let mut g = c.lock();
        let s = std::slice::from_raw_parts_mut(buf as *mut u8, len);
        g.rand.fill(s);
    })
    .is_some()
    {
        return len as ssize_t;
    }
    libc::syscall(libc::SYS_getrandom, buf, len, flags as c_long) as ssize_t
}

#[no_mangle]
pub unsafe extern "C" fn getentropy(buf: *mut c_void, len: size_t) -> c_int {
    if getrandom(buf, len, 0) == len as ssize_t {
        0
    } else {
        -1
    }
}

// ------------------------------------------------------------------ files

enum Verdict {
    Pass,
    /// pretend success, do nothing
    Swallow,
    /// fail with errno
    Fail(c_int),
    /// write only this many bytes; `die` marks the node dead afterwards;
    /// report `ret` to the caller
    Partial { bytes: usize, die: bool },
}

fn on_mutation(g: &mut Inner, kind: &'static str, path: &str, len: usize) -> Verdict {
    let Some(node) = g.node_of(path) else {
        return Verdict::Pass;
    };
    if g.dead.get(&node).copied().unwrap_or(false) {
        return Verdict::Swallow;
    }
    *g.sys_count.entry(node.clone()).or_insert(0) += 1;
    let ev = SysEvent { kind, path: path.to_string(), len };
    if g.record_sys {
        g.sys_log.push(ev.clone());
    }
    // crash?
    if let Some((n, cnt, bytes)) = g.crash_arm.clone() {
        if n == node {
            if cnt == 0 {
                g.crash_arm = None;
                g.dead.insert(node.clone(), true);
                g.crash_fired = Some(ev);
                if kind == "write" {
                    let b = bytes.unwrap_or(0).min(len);
                    return Verdict::Partial { bytes: b, die: true };
                }
                return Verdict::Swallow;
            }
            g.crash_arm = Some((n, cnt - 1, bytes));
        }
    }
    // disk fault?
    let mut verdict = Verdict::Pass;
    let mut i = 0;
    while i < g.fault_arm.len() {
        if g.fault_arm[i].0 == node {
            if g.fault_arm[i].1 == 0 {
                let f = g.fault_arm.remove(i).2;
                verdict = match f {
                    DiskFault::Eio => {
                        *g.faults.entry("disk_eio").or_insert(0) += 1;
                        Verdict::Fail(libc::EIO)
                    },
                    DiskFault::Enospc => {
                        *g.faults.entry("disk_enospc").or_insert(0) += 1;
                        Verdict::Fail(libc::ENOSPC)
                    },
                    DiskFault::Eintr => {
                        *g.faults.entry("disk_eintr").or_insert(0) += 1;
                        Verdict::Fail(libc::EINTR)
                    },
                    DiskFault::Short(b) => {
                        if kind == "write" && len > 1 {
                            *g.faults.entry("disk_short_write").or_insert(0) += 1;
                            Verdict::Partial { bytes: b.clamp(1, len - 1), die: false }
                        } else {
                            Verdict::Pass
                        }
                    },
                };
                continue;
            }
            g.fault_arm[i].1 -= 1;
        }
        i += 1;
    }
    verdict
}

unsafe fn real_write(fd: c_int, buf: *const c_void, n: size_t) -> ssize_t {
    libc::syscall(libc::SYS_write, fd as c_long, buf, n) as ssize_t
}

fn after_write(g: &mut Inner, fd: c_int, path: &str) {
    let pos = unsafe { libc::syscall(libc::SYS_lseek, fd as c_long, 0 as c_long, libc::SEEK_CUR as c_long) };
    let e = g.files.entry(path.to_string()).or_insert(FileSt { len: 0, durable: 0 });
    if pos >= 0 && (pos as u64) > e.len {
        e.len = pos as u64;
    }
}

#[no_mangle]
pub unsafe extern "C" fn write(fd: c_int, buf: *const c_void, n: size_t) -> ssize_t {
    let r = with_ctx(|c| {
        let mut g = c.lock();
        let Some(path) = g.fds.get(&fd).cloned() else {
            return None;
        };
        match on_mutation(&mut g, "write", &path, n) {
            Verdict::Pass => {
                let r = real_write(fd, buf, n);
                after_write(&mut g, fd, &path);
                Some(r)
            },
            Verdict::Swallow => Some(n as ssize_t),
            Verdict::Fail(e) => {
                set_errno(e);
                Some(-1)
            },
            Verdict::Partial { bytes, die } => {
                if bytes > 0 {
                    real_write(fd, buf, bytes);
                    after_write(&mut g, fd, &path);
                }
                if die {
                    Some(n as ssize_t)
                } else {
                    Some(bytes as ssize_t)
                }
            },
        }
    });
    match r {
        Some(Some(v)) => v,
        _ => real_write(fd, buf, n),
    }
}

#[no_mangle]
pub unsafe extern "C" fn writev(fd: c_int, iov: *const libc::iovec, cnt: c_int) -> ssize_t {
    let tracked = with_ctx(|c| c.lock().fds.contains_key(&fd)).unwrap_or(false);
    if !tracked {
        return libc::syscall(libc::SYS_writev, fd as c_long, iov, cnt as c_long) as ssize_t;
    }
    // flatten and go through write()
    let mut all = Vec::new();
    for i in 0..cnt as usize {
        let v = &*iov.add(i);
        all.extend_from_slice(std::slice::from_raw_parts(v.iov_base as *const u8, v.iov_len));
    }
    write(fd, all.as_ptr() as *const c_void, all.len())
}

#[no_mangle]
pub unsafe extern "C" fn pwrite64(fd: c_int, buf: *const c_void, n: size_t, off: off_t) -> ssize_t {
    let r = with_ctx(|c| {
        let mut g = c.lock();
        let Some(path) = g.fds.get(&fd).cloned() else {
            return None;
        };
        match on_mutation(&mut g, "write", &path, n) {
            Verdict::Pass => {
                let r = libc::syscall(libc::SYS_pwrite64, fd as c_long, buf, n, off) as ssize_t;
                let e = g.files.entry(path).or_insert(FileSt { len: 0, durable: 0 });
                if r > 0 {
                    e.len = e.len.max(off as u64 + r as u64);
                }
                Some(r)
            },
            Verdict::Swallow => Some(n as ssize_t),
            Verdict::Fail(e) => {
                set_errno(e);
                Some(-1)
            },
            Verdict::Partial { bytes, die } => {
                if bytes > 0 {
                    libc::syscall(libc::SYS_pwrite64, fd as c_long, buf, bytes, off);
                    let e = g.files.entry(path).or_insert(FileSt { len: 0, durable: 0 });
                    e.len = e.len.max(off as u64 + bytes as u64);
                }
                Some(if die { n as ssize_t } else { bytes as ssize_t })
            },
        }
    });
    match r {
        Some(Some(v)) => v,
        _ => libc::syscall(libc::SYS_pwrite64, fd as c_long, buf, n, off) as ssize_t,
    }
}

unsafe fn sync_common(fd: c_int, nr: c_long) -> c_int {
    let r = with_ctx(|c| {
        let mut g = c.lock();
        let Some(path) = g.fds.get(&fd).cloned() else {
            return None;
        };
        match on_mutation(&mut g, "fsync", &path, 0) {
            Verdict::Pass | Verdict::Partial { .. } => {
                if let Some(e) = g.files.get_mut(&path) {
                    e.durable = e.len;
                }
                Some(0)
            },
            Verdict::Swallow => Some(0),
            Verdict::Fail(e) => {
                set_errno(e);
                Some(-1)
            },
        }
    });
    match r {
        Some(Some(v)) => v,
        _ => libc::syscall(nr, fd as c_long) as c_int,
    }
}

#[no_mangle]
pub unsafe extern "C" fn fsync(fd: c_int) -> c_int {
    sync_common(fd, libc::SYS_fsync)
}

#[no_mangle]
pub unsafe extern "C" fn fdatasync(fd: c_int) -> c_int {
    sync_common(fd, libc::SYS_fdatasync)
}

unsafe fn real_openat(dirfd: c_int, path: *const c_char, flags: c_int, mode: mode_t) -> c_int {
    libc::syscall(libc::SYS_openat, dirfd as c_long, path, flags as c_long, mode as c_long) as c_int
}

unsafe fn open_common(dirfd: c_int, path: *const c_char, flags: c_int, mode: mode_t) -> c_int {
    let p = cstr(path);
    let r = with_ctx(|c| {
        let mut g = c.lock();
        if dirfd != libc::AT_FDCWD || !p.starts_with(g.root.as_str()) {
            return None;
        }
        let node = g.node_of(&p)?;
        let acc = flags & libc::O_ACCMODE;
        let writes = acc == libc::O_WRONLY || acc == libc::O_RDWR;
        let creat = flags & libc::O_CREAT != 0;
        let trunc = flags & libc::O_TRUNC != 0;
        if flags & libc::O_DIRECTORY != 0 {
            return None;
        }
        if g.dead.get(&node).copied().unwrap_or(false) {
            if writes || creat || trunc {
                let devnull = b"/dev/null\0";
                let fd = real_openat(
                    libc::AT_FDCWD,
                    devnull.as_ptr() as *const c_char,
                    (if acc == libc::O_RDWR { libc::O_RDWR } else { libc::O_WRONLY }) | libc::O_CLOEXEC,
                    0,
                );
                if fd >= 0 {
                    g.fds.insert(fd, p.clone());
                }
                return Some(fd);
            }
            return None;
        }
        let exists = {
            let mut st: libc::stat = std::mem::zeroed();
            libc::syscall(libc::SYS_newfstatat, libc::AT_FDCWD as c_long, path, &mut st as *mut libc::stat, 0 as c_long) == 0
        };
        // creating a new file or truncating an existing non-empty one mutates the disk
        let known_len = g.files.get(&p).map(|f| f.len);
        if (creat && !exists) || (trunc && exists && known_len != Some(0)) {
            let kind = if trunc && exists { "open_trunc" } else { "open_creat" };
            match on_mutation(&mut g, kind, &p, 0) {
                Verdict::Pass | Verdict::Partial { .. } => {},
                Verdict::Swallow => {
                    // crash fired exactly here: the open never happened
                    let devnull = b"/dev/null\0";
                    let fd = real_openat(
                        libc::AT_FDCWD,
                        devnull.as_ptr() as *const c_char,
                        libc::O_WRONLY | libc::O_CLOEXEC,
                        0,
                    );
                    if fd >= 0 {
                        g.fds.insert(fd, p.clone());
                    }
                    return Some(fd);
                },
                Verdict::Fail(e) => {
                    set_errno(e);
                    return Some(-1);
                },
            }
        }
        let fd = real_openat(dirfd, path, flags, mode);
        if fd >= 0 {
            if !g.files.contains_key(&p) {
                let mut st: libc::stat = std::mem::zeroed();
                let sz = if libc::syscall(libc::SYS_fstat, fd as c_long, &mut st as *mut libc::stat) == 0 {
                    st.st_size as u64
                } else {
                    0
                };
                g.files.insert(p.clone(), FileSt { len: sz, durable: sz });
            }
            if trunc {
                g.files.insert(p.clone(), FileSt { len: 0, durable: 0 });
            }
            g.fds.insert(fd, p.clone());
        }
        Some(fd)
    });
    match r {
        Some(Some(fd)) => fd,
        _ => real_openat(dirfd, path, flags, mode),
    }
}

#[no_mangle]
pub unsafe extern "C" fn open(path: *const c_char, flags: c_int, mode: mode_t) -> c_int {
    open_common(libc::AT_FDCWD, path, flags, mode)
}
#[no_mangle]
pub unsafe extern "C" fn open64(path: *const c_char, flags: c_int, mode: mode_t) -> c_int {
    open_common(libc::AT_FDCWD, path, flags | libc::O_LARGEFILE, mode)
}
#[no_mangle]
pub unsafe extern "C" fn openat(dirfd: c_int, path: *const c_char, flags: c_int, mode: mode_t) -> c_int {
    open_common(dirfd, path, flags, mode)
}
#[no_mangle]
pub unsafe extern "C" fn openat64(dirfd: c_int, path: *const c_char, flags: c_int, mode: mode_t) -> c_int {
    open_common(dirfd, path, flags | libc::O_LARGEFILE, mode)
}

#[no_mangle]
pub unsafe extern "C" fn close(fd: c_int) -> c_int {
    with_ctx(|c| {
        c.lock().fds.remove(&fd);
    });
    libc::syscall(libc::SYS_close, fd as c_long) as c_int
}

#[no_mangle]
pub unsafe extern "C" fn rename(from: *const c_char, to: *const c_char) -> c_int {
    let a = cstr(from);
    let b = cstr(to);
    let r = with_ctx(|c| {
        let mut g = c.lock();
        if !a.starts_with(g.root.as_str()) {
            return None;
        }
        match on_mutation(&mut g, "rename", &a, 0) {
            Verdict::Pass | Verdict::Partial { .. } => {
                let r = libc::syscall(libc::SYS_rename, from, to) as c_int;
                if r == 0 {
                    if let Some(st) = g.files.remove(&a) {
                        g.files.insert(b.clone(), st);
                    }
                    let fds: Vec<c_int> = g.fds.iter().filter(|(_, p)| **p == a).map(|(f, _)| *f).collect();
                    for f in fds {
                        g.fds.insert(f, b.clone());
                    }
                }
                Some(r)
            },
            Verdict::Swallow => Some(0),
            Verdict::Fail(e) => {
                set_errno(e);
                Some(-1)
            },
        }
    });
    match r {
        Some(Some(v)) => v,
        _ => libc::syscall(libc::SYS_rename, from, to) as c_int,
    }
}

#[no_mangle]
pub unsafe extern "C" fn unlink(path: *const c_char) -> c_int {
    let a = cstr(path);
    let r = with_ctx(|c| {
        let mut g = c.lock();
        if !a.starts_with(g.root.as_str()) {
            return None;
        }
        match on_mutation(&mut g, "unlink", &a, 0) {
            Verdict::Pass | Verdict::Partial { .. } => {
                let r = libc::syscall(libc::SYS_unlink, path) as c_int;
                if r == 0 {
                    g.files.remove(&a);
                }
                Some(r)
            },
            Verdict::Swallow => Some(0),
            Verdict::Fail(e) => {
                set_errno(e);
                Some(-1)
            },
        }
    });
    match r {
        Some(Some(v)) => v,
        _ => libc::syscall(libc::SYS_unlink, path) as c_int,
    }
}

unsafe fn ftruncate_common(fd: c_int, len: off_t) -> c_int {
    let r = with_ctx(|c| {
        let mut g = c.lock();
        let Some(path) = g.fds.get(&fd).cloned() else {
            return None;
        };
        match on_mutation(&mut g, "ftruncate", &path, 0) {
            Verdict::Pass | Verdict::Partial { .. } => {
                let r = libc::syscall(libc::SYS_ftruncate, fd as c_long, len) as c_int;
                if r == 0 {
                    let e = g.files.entry(path).or_insert(FileSt { len: 0, durable: 0 });
                    e.len = len as u64;
                    e.durable = e.durable.min(len as u64);
                }
                Some(r)
            },
            Verdict::Swallow => Some(0),
            Verdict::Fail(e) => {
                set_errno(e);
                Some(-1)
            },
        }
    });
    match r {
        Some(Some(v)) => v,
        _ => libc::syscall(libc::SYS_ftruncate, fd as c_long, len) as c_int,
    }
}

/// In-kernel copies (what `std::fs::copy` tries first) would move bytes into a
/// tracked file behind the simulated disk's back: no crash point inside the copy,
/// no durable-watermark bookkeeping. Under a run context both calls report "not
/// supported", which makes std fall back to a read/write loop the disk sees.
#[no_mangle]
pub unsafe extern "C" fn copy_file_range(fd_in: c_int, off_in: *mut libc::off64_t, fd_out: c_int, off_out: *mut libc::off64_t, len: libc::size_t, flags: libc::c_uint) -> libc::ssize_t {
    if with_ctx(|_| ()).is_some() {
        *libc::__errno_location() = libc::ENOSYS;
        return -1;
    }
    libc::syscall(libc::SYS_copy_file_range, fd_in as c_long, off_in, fd_out as c_long, off_out, len, flags as c_long) as libc::ssize_t
}

#[no_mangle]
pub unsafe extern "C" fn sendfile(out_fd: c_int, in_fd: c_int, offset: *mut off_t, count: libc::size_t) -> libc::ssize_t {
    if with_ctx(|_| ()).is_some() {
        *libc::__errno_location() = libc::EINVAL;
        return -1;
    }
    libc::syscall(libc::SYS_sendfile, out_fd as c_long, in_fd as c_long, offset, count) as libc::ssize_t
}

#[no_mangle]
pub unsafe extern "C" fn sendfile64(out_fd: c_int, in_fd: c_int, offset: *mut libc::off64_t, count: libc::size_t) -> libc::ssize_t {
    if with_ctx(|_| ()).is_some() {
        *libc::__errno_location() = libc::EINVAL;
        return -1;
    }
    libc::syscall(libc::SYS_sendfile, out_fd as c_long, in_fd as c_long, offset, count) as libc::ssize_t
}

#[no_mangle]
pub unsafe extern "C" fn ftruncate(fd: c_int, len: off_t) -> c_int {
    ftruncate_common(fd, len)
}
#[no_mangle]
pub unsafe extern "C" fn ftruncate64(fd: c_int, len: off_t) -> c_int {
    ftruncate_common(fd, len)
}

#[no_mangle]
pub unsafe extern "C" fn statvfs(path: *const c_char, buf: *mut libc::statvfs) -> c_int {
    let p = cstr(path);
    let full = with_ctx(|c| {
        let g = c.lock();
        if !p.starts_with(g.root.as_str()) {
            return None;
        }
        let node = g.node_of(&format!("{p}/x"))?;
        Some(g.disk_full.get(&node).copied().unwrap_or(false))
    })
    .flatten();
    // real statfs, converted
    let mut sfs: libc::statfs = std::mem::zeroed();
    let r = libc::syscall(libc::SYS_statfs, path, &mut sfs as *mut libc::statfs) as c_int;
    if r != 0 {
        return r;
    }
    std::ptr::write_bytes(buf, 0, 1);
    (*buf).f_bsize = sfs.f_bsize as _;
    (*buf).f_frsize = if sfs.f_frsize != 0 { sfs.f_frsize as _ } else { sfs.f_bsize as _ };
    (*buf).f_blocks = sfs.f_blocks as _;
    (*buf).f_bfree = sfs.f_bfree as _;
    (*buf).f_bavail = sfs.f_bavail as _;
    (*buf).f_files = sfs.f_files as _;
    (*buf).f_ffree = sfs.f_ffree as _;
    (*buf).f_favail = sfs.f_ffree as _;
    (*buf).f_namemax = sfs.f_namelen as _;
    match full {
        Some(true) => {
            with_ctx(|c| c.fault_fired("disk_full_statvfs"));
            (*buf).f_bavail = 16; // 16 blocks: far below any min_free_space
            (*buf).f_bfree = 16;
        },
        Some(false) => {
            // plenty, independent of the real tmpfs fill level
            (*buf).f_bavail = (1u64 << 40) / (*buf).f_frsize.max(1);
            (*buf).f_bfree = (*buf).f_bavail;
        },
        None => {},
    }
    0
}

#[no_mangle]
pub unsafe extern "C" fn statvfs64(path: *const c_char, buf: *mut libc::statvfs) -> c_int {
    statvfs(path, buf)
}
