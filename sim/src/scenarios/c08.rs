//! C08 — Rollback to a checkpoint restores exactly the checkpointed database.
//!
//! Real `QueryRouter` (relational, graph, vector and unified engines over one
//! shared `TensorStore`), real `BlobStore`, real `CheckpointManager`; every
//! statement goes through `QueryRouter::execute_parsed` as query text, on the
//! one kernel thread. What simulation contributes is the clock: `created_at`
//! and default checkpoint names are read from `SystemTime` with one-second
//! resolution, so the `Clock` steps between statements decide which
//! checkpoints share a tick and therefore what retention's "newest" means.
//!
//! Runtime arrangement: the router creates its own tokio runtime in
//! `init_blob_with_config` (`Runtime::new()`, hard-wired) and uses it only
//! through `Runtime::block_on` from the calling thread; with the blob GC task
//! never started (`start_blob` is not called) nothing is ever spawned onto the
//! runtime, no future suspends and no timer is armed, so every future is
//! polled to completion on the run thread under the simulation context. The
//! runtime's worker thread (count pinned to 1 by `TOKIO_WORKER_THREADS`, set in
//! `main`) parks for the whole run; the scenario asserts at the end of every
//! run that the runtime never had a live task (harness error otherwise).

use crate::ctx::RunCtx;
use crate::driver::{drop_chunks, RunOut, Scenario, Tier, Violation};
use crate::rng::Rng;
use query_router::{QueryResult, QueryRouter, RouterError};
use relational_engine::Value as RelValue;
use serde::{Deserialize, Serialize};
use serde_json::{json, Value};
use std::collections::{BTreeMap, BTreeSet};
use std::sync::Arc;
use tensor_blob::BlobConfig;
use tensor_checkpoint::CheckpointConfig;

const N_TABLES: u8 = 3;
const N_GROUPS: u8 = 3;
const N_LABELS: u8 = 2;
const N_ETYPES: u8 = 2;
const N_EMB: u8 = 5;
/// whether `generate` draws cases with `QueryRouter::init_cache` (see `generate`)
const GENERATE_QUERY_CACHE: bool = true;

#[derive(Serialize, Deserialize, Clone, Debug, PartialEq)]
pub enum Step {
    // ---- relational ----
    CreateTable { t: u8 },
    /// col 0 = k (unique), 1 = g (small domain), 2 = v (text)
    CreateIndex { t: u8, col: u8 },
    DropTable { t: u8 },
    /// `DROP INDEX ON t(col)` of the n-th (modulo) index that CREATE INDEX
    /// statements of this run have built and nothing has dropped since, in
    /// creation order (no-op when there is none)
    DropIndex { n: u8 },
    Insert { t: u8, g: u8, u: u32 },
    /// as Insert, with a text value of `kib` KiB: rows of widely varying
    /// size, so the database (and every checkpoint artifact, which embeds a
    /// snapshot of it) can outgrow a configured artifact size limit
    InsertWide { t: u8, g: u8, u: u32, kib: u16 },
    Update { t: u8, g: u8, u: u32 },
    Delete { t: u8, g: u8 },
    // ---- graph ----
    NodeCreate { label: u8, u: u32 },
    /// n-th node id ever returned (modulo)
    NodeDelete { n: u8 },
    EdgeCreate { a: u8, b: u8, ty: u8 },
    EdgeDelete { e: u8 },
    // ---- vector ----
    EmbedStore { k: u8, u: u32 },
    EmbedDelete { k: u8 },
    // ---- checkpoints ----
    /// named: `CHECKPOINT 'cp<seq>'`, else `CHECKPOINT` (default name embeds the second)
    Checkpoint { named: bool },
    /// roll back to the `pick`-th (modulo) checkpoint the reference model
    /// holds as retained, oldest first; by name or by id
    Rollback { pick: u8, by_name: bool },
    // ---- clock ----
    Clock { ms: u64 },
    /// wall clock stepped BACKWARDS: outside the quantifier; from this step
    /// on the run is a labelled observation and can produce no verdict
    ClockBack { ms: u64 },
}

#[derive(Serialize, Deserialize, Clone, Debug)]
pub struct Case {
    /// CheckpointConfig::max_checkpoints (1..=4, or 11..=12: more than the
    /// default configuration's 10 and more than a page of CHECKPOINTS)
    pub max_checkpoints: usize,
    /// CheckpointConfig::auto_checkpoint (the default configuration has it on):
    /// destructive statements take a checkpoint of their own first
    pub auto_checkpoint: bool,
    /// final sweep over every retained checkpoint: 0 none, 1 oldest first, 2 newest first
    pub sweep: u8,
    /// BlobConfig::max_artifact_size of the blob store that holds the
    /// checkpoint artifacts (None = unlimited, the default): a CHECKPOINT whose
    /// artifact is larger is refused by the blob store
    #[serde(default)]
    pub blob_max_artifact: Option<usize>,
    /// BlobConfig::chunk_size (None = the default, 1 MiB): artifacts are cut
    /// into content-addressed, reference-counted chunks of this size
    #[serde(default)]
    pub blob_chunk_size: Option<usize>,
    /// QueryRouter::init_cache: results of SELECT / SIMILAR / NEIGHBORS
    /// statements are served from the router's cache when it has them
    #[serde(default)]
    pub query_cache: bool,
    /// statements enter through the router's async entry point
    /// (`execute_parsed_async`, polled to completion on the run thread) instead
    /// of `execute` / `execute_parsed`
    #[serde(default)]
    pub async_entry: bool,
    pub steps: Vec<Step>,
}

pub struct C08;

type Dump = BTreeMap<String, String>;

struct Cp {
    /// creation order (kernel sequence number)
    seq: usize,
    id: String,
    name: String,
    auto: bool,
    created_at: u64,
    /// observable database at the moment the checkpoint was taken
    dump: Dump,
    /// `Sys::indexes` at that moment
    indexes: Vec<(u8, &'static str)>,
}

fn err_variant(e: &RouterError) -> String {
    let d = format!("{e:?}");
    d.split(['(', ' ', '{']).next().unwrap_or("Error").to_string()
}

fn canon_rel(v: &RelValue) -> String {
    match v {
        RelValue::Float(f) => format!("f:{:016x}", f.to_bits()),
        // wide text values (InsertWide) are compared by length and hash
        RelValue::String(t) if t.len() > 64 => format!("String(len={},h={:016x})", t.len(), crate::rng::hash_str(t)),
        other => format!("{other:?}"),
    }
}

/// Canonical form of a statement result: order-insensitive where the
/// statement has no ORDER BY (none of ours has), floats bit-exact, hash-map
/// valued fields sorted. Errors are reduced to their `RouterError` variant.
fn canon(res: &Result<QueryResult, RouterError>) -> String {
    match res {
        Err(e) => format!("ERR({})", err_variant(e)),
        Ok(q) => match q {
            QueryResult::Empty => "Empty".into(),
            QueryResult::Value(s) => format!("Value({s})"),
            QueryResult::Count(n) => format!("Count({n})"),
            QueryResult::Ids(ids) => {
                let mut v = ids.clone();
                v.sort_unstable();
                format!("Ids({v:?})")
            },
            QueryResult::Rows(rows) => {
                let mut out: Vec<String> = rows
                    .iter()
                    .map(|r| {
                        let mut cols: Vec<String> = r.values.iter().map(|(c, v)| format!("{c}={}", canon_rel(v))).collect();
                        cols.sort();
                        format!("#{}{{{}}}", r.id, cols.join(","))
                    })
                    .collect();
                out.sort();
                format!("Rows[{}]", out.join(" "))
            },
            QueryResult::Nodes(ns) => {
                let mut out: Vec<(u64, String)> = ns
                    .iter()
                    .map(|n| {
                        let props: BTreeMap<&String, &String> = n.properties.iter().collect();
                        (n.id, format!("{}:{}{:?}", n.id, n.label, props))
                    })
                    .collect();
                out.sort();
                format!("Nodes[{}]", out.into_iter().map(|x| x.1).collect::<Vec<_>>().join(" "))
            },
            QueryResult::Edges(es) => {
                let mut out: Vec<(u64, String)> = es.iter().map(|e| (e.id, format!("{}:{}-[{}]->{}", e.id, e.from, e.label, e.to))).collect();
                out.sort();
                format!("Edges[{}]", out.into_iter().map(|x| x.1).collect::<Vec<_>>().join(" "))
            },
            QueryResult::Similar(rs) => {
                let mut out: Vec<String> = rs.iter().map(|r| format!("{}@{:08x}", r.key, r.score.to_bits())).collect();
                out.sort();
                format!("Similar[{}]", out.join(" "))
            },
            QueryResult::TableList(ts) => {
                let mut v = ts.clone();
                v.sort();
                format!("Tables{v:?}")
            },
            other => format!("{other:?}"),
        },
    }
}

fn engine_of(query: &str) -> &'static str {
    let kw = query.split_whitespace().next().unwrap_or("");
    match kw {
        "SELECT" | "SHOW" => "relational",
        "NODE" | "EDGE" | "NEIGHBORS" => "graph",
        _ => "vector",
    }
}

fn emb_vec(u: u32) -> [f32; 4] {
    // short vectors (far below storeutil::LOSSY_MIN_DIM), exactly representable values
    // (non-negative: the statement grammar has no negative vector literals)
    [1.0 + (u % 7) as f32 * 0.5, (u % 5) as f32, 0.25 * (u % 11) as f32, 1.0 + (u % 3) as f32]
}

fn fmt_vec(v: &[f32]) -> String {
    let parts: Vec<String> = v.iter().map(|x| format!("{x:?}")).collect();
    format!("[{}]", parts.join(", "))
}

/// `Some(size)` when `msg` is the blob store's refusal of an artifact of
/// `size` bytes under exactly the configured limit, and size > limit
/// ("data size N exceeds max M", tensor_blob::BlobStore::put)
fn refused_size(msg: &str, limit: usize) -> Option<usize> {
    let rest = msg.split("data size ").nth(1)?;
    let mut it = rest.split(" exceeds max ");
    let size: usize = it.next()?.trim().parse().ok()?;
    let max: usize = it.next()?.split(|c: char| !c.is_ascii_digit()).next()?.parse().ok()?;
    (max == limit && size > limit).then_some(size)
}

struct Sys<'a> {
    ctx: &'a Arc<RunCtx>,
    case: &'a Case,
    router: QueryRouter,
    /// every node / edge id a statement ever returned, in creation order
    nodes: Vec<u64>,
    edges: Vec<u64>,
    /// (table, k) of rows ever inserted (probe queries through the k column)
    keys: Vec<(u8, u32)>,
    /// (table, column) of the indexes the acknowledged CREATE INDEX / DROP
    /// INDEX / DROP TABLE / ROLLBACK statements leave in existence (used to
    /// choose DROP INDEX targets and for probes; never judged)
    indexes: Vec<(u8, &'static str)>,
    /// all checkpoints ever created, creation order
    cps: Vec<Cp>,
    rollbacks: u64,
    /// CHECKPOINT statements / auto-checkpoints the blob store refused
    /// (artifact larger than the configured max_artifact_size)
    refused: u64,
    /// set once a backwards clock step happened: no verdicts from here on
    observation_mode: bool,
    observations: Vec<String>,
    nontrivial: bool,
    syntax_errors: std::cell::RefCell<Option<String>>,
}

enum Stop {
    Violation(Violation),
    Harness(String),
}

/// The public entry points of the router that answer a SELECT, each by its
/// own code path: `execute_parsed` (statement parser, columnar scan),
/// `execute_parsed_async` (its async twin) and `execute` (the text entry
/// point: `SELECT * FROM t WHERE col = v` goes to `RelationalEngine::select`,
/// which answers an equality on an indexed column through the hash index).
#[derive(Clone, Copy, PartialEq)]
enum Entry {
    Parsed,
    Async,
    Text,
}

impl Entry {
    fn name(self) -> &'static str {
        match self {
            Entry::Parsed => "execute_parsed",
            Entry::Async => "execute_parsed_async",
            Entry::Text => "execute",
        }
    }
}

impl<'a> Sys<'a> {
    /// the entry points other than the one the case's statements use
    fn other_entries(&self) -> [Entry; 2] {
        if self.case.async_entry {
            [Entry::Parsed, Entry::Text]
        } else {
            [Entry::Async, Entry::Text]
        }
    }

    /// a read-only SELECT through one given entry point
    fn select_via(&self, e: Entry, q: &str) -> Result<QueryResult, RouterError> {
        let r = match e {
            Entry::Parsed => self.router.execute_parsed(q),
            Entry::Async => crate::net::now_or_never(self.router.execute_parsed_async(q)),
            Entry::Text => self.router.execute(q),
        };
        if let Err(RouterError::ParseError(m) | RouterError::UnknownCommand(m) | RouterError::InvalidArgument(m)) = &r {
            let mut g = self.syntax_errors.borrow_mut();
            if g.is_none() {
                *g = Some(format!("workload statement rejected by {}: `{q}`: {m}", e.name()));
            }
        }
        r
    }

    /// "every query ... returns": the same SELECT through the entry points the
    /// case's statements do not use; `Err((entry, result))` for the first one
    /// for which `ok` does not hold
    fn select_others(&self, q: &str, ok: impl Fn(&Result<QueryResult, RouterError>) -> bool) -> Result<(), (&'static str, String)> {
        for e in self.other_entries() {
            let r = self.select_via(e, q);
            if !ok(&r) {
                return Err((e.name(), canon(&r)));
            }
        }
        Ok(())
    }

    fn exec(&self, q: &str) -> Result<QueryResult, RouterError> {
        // CHECKPOINT / ROLLBACK enter through `execute` (the text entry point,
        // which forwards these keywords to the statement parser); the other
        // statements use the statement parser's grammar directly — `execute`
        // would route them to the router's legacy mini-language instead, and
        // it does not know the CHECKPOINTS keyword at all
        let r = if self.case.async_entry {
            crate::net::now_or_never(self.router.execute_parsed_async(q))
        } else if q.starts_with("CHECKPOINT '") || q == "CHECKPOINT" || q.starts_with("ROLLBACK TO") {
            self.router.execute(q)
        } else {
            self.router.execute_parsed(q)
        };
        // a statement the router cannot even parse is a mistake of this
        // workload, never a property of the system: harness error
        if let Err(RouterError::ParseError(m) | RouterError::UnknownCommand(m) | RouterError::InvalidArgument(m)) = &r {
            let mut g = self.syntax_errors.borrow_mut();
            if g.is_none() {
                *g = Some(format!("workload statement rejected: `{q}`: {m}"));
            }
        }
        r
    }

    /// size of the blob artifact of checkpoint `id` (event log only, never judged)
    fn artifact_size(&self, id: &str) -> usize {
        let Some(blob) = self.router.blob() else { return 0 };
        let blob = blob.clone();
        let id = id.to_string();
        self.router
            .block_on(async move {
                let b = blob.lock().await;
                for a in b.by_tag("_system:checkpoint").await.unwrap_or_default() {
                    if let Ok(m) = b.metadata(&a).await {
                        if m.custom.get("checkpoint_id") == Some(&id) {
                            return m.size;
                        }
                    }
                }
                0
            })
            .unwrap_or(0)
    }

    fn node_name(&self, id: u64) -> String {
        match self.nodes.iter().position(|x| *x == id) {
            Some(i) => format!("n#{i}"),
            None => format!("n?{id}"),
        }
    }

    fn dump_queries(&self) -> Vec<String> {
        let mut qs = vec!["SHOW TABLES".to_string()];
        for t in 0..N_TABLES {
            qs.push(format!("SELECT * FROM t{t}"));
            // answered from the table's live-row counter, not from the rows
            qs.push(format!("SELECT COUNT(*) FROM t{t}"));
            qs.push(format!("SELECT COUNT(*) FROM t{t} WHERE g >= 0"));
            for g in 0..N_GROUPS {
                qs.push(format!("SELECT * FROM t{t} WHERE g = {g}"));
            }
        }
        for (t, k) in &self.keys {
            qs.push(format!("SELECT * FROM t{t} WHERE k = {k}"));
        }
        for (t, k) in self.keys.iter().take(6) {
            qs.push(format!("SELECT * FROM t{t} WHERE v = 'v{k}'"));
        }
        qs.push("NODE LIST".into());
        qs.push("EDGE LIST".into());
        for l in 0..N_LABELS {
            qs.push(format!("NODE LIST L{l}"));
        }
        for r in 0..N_ETYPES {
            qs.push(format!("EDGE LIST R{r}"));
        }
        for id in &self.nodes {
            qs.push(format!("NODE GET {id}"));
            qs.push(format!("NEIGHBORS {id} OUTGOING"));
            qs.push(format!("NEIGHBORS {id} INCOMING"));
            qs.push(format!("NEIGHBORS {id} BOTH"));
        }
        for id in &self.edges {
            qs.push(format!("EDGE GET {id}"));
        }
        for k in 0..N_EMB {
            qs.push(format!("EMBED GET 'e{k}'"));
            qs.push(format!("SIMILAR 'e{k}' LIMIT 10"));
        }
        qs.push("SIMILAR [1.0, 0.5, 0.25, 2.0] LIMIT 10".into());
        qs.push("SIMILAR [1.0, 0.5, 0.25, 2.0] LIMIT 10 EUCLIDEAN".into());
        qs.push("COUNT EMBEDDINGS".into());
        qs
    }

    /// The observable database: rows of every table through SELECT (full scan,
    /// by group column, by key column — the latter two go through an index
    /// when one exists), nodes/edges/neighbours through graph statements,
    /// embeddings and SIMILAR probes.
    fn dump(&self) -> Dump {
        let mut d = Dump::new();
        for q in self.dump_queries() {
            let r = self.exec(&q);
            d.insert(q, canon(&r));
        }
        // "every query over tables": the relational queries again through each
        // public entry point that answers them by a different code path (full
        // scans, equalities on the group, key and text columns; the text entry
        // point serves an equality on an indexed column from the hash index)
        let mut rel: Vec<String> = Vec::new();
        for t in 0..N_TABLES {
            rel.push(format!("SELECT * FROM t{t}"));
            for g in 0..N_GROUPS {
                rel.push(format!("SELECT * FROM t{t} WHERE g = {g}"));
            }
        }
        for (t, k) in self.keys.iter().take(12) {
            rel.push(format!("SELECT * FROM t{t} WHERE k = {k}"));
        }
        for (t, k) in self.keys.iter().take(6) {
            rel.push(format!("SELECT * FROM t{t} WHERE v = 'v{k}'"));
        }
        for e in self.other_entries() {
            for q in &rel {
                let r = self.select_via(e, q);
                d.insert(format!("{q} [via {}]", e.name()), canon(&r));
            }
        }
        if std::env::var_os("C08_DEBUG").is_some() {
            for (q, r) in &d {
                eprintln!("  DUMP {q} => {r}");
            }
            eprintln!("  ----");
        }
        // the dump is part of the determinism digest
        let mut h = 0u64;
        for (q, r) in &d {
            h = h.rotate_left(9) ^ crate::rng::hash_str(q) ^ crate::rng::hash_str(r).rotate_left(17);
        }
        self.ctx.event(&format!("dump {} queries digest {h:016x}", d.len()));
        d
    }

    fn violation(&mut self, class: String, detail: String) -> Result<(), Stop> {
        if self.observation_mode {
            let o = format!("clock-stepped-backwards: {class}");
            if !self.observations.contains(&o) {
                self.observations.push(o);
            }
            self.ctx.event(&format!("observation (no verdict): {class} — {detail}"));
            Ok(())
        } else {
            // a configuration the class depends on is part of the class
            let class = if self.case.query_cache { format!("{class}+query-cache") } else { class };
            Err(Stop::Violation(Violation { class, detail }))
        }
    }

    fn retained_model(&self) -> Vec<usize> {
        // "Retention keeps the newest checkpoints up to the configured count":
        // newest by creation order (kernel sequence number, not the timestamp)
        let n = self.cps.len();
        let keep = self.case.max_checkpoints.min(n);
        (n - keep..n).collect()
    }

    fn list_checkpoints(&self) -> Result<Vec<query_router::CheckpointInfo>, String> {
        match self.exec("CHECKPOINTS LIMIT 100") {
            Ok(QueryResult::CheckpointList(l)) => Ok(l),
            Ok(other) => Err(format!("CHECKPOINTS returned {other:?}")),
            Err(e) => Err(format!("CHECKPOINTS failed: {e}")),
        }
    }

    fn cp_label(&self, id: &str) -> String {
        match self.cps.iter().find(|c| c.id == id) {
            Some(c) => format!("cp#{}{}", c.seq, if c.auto { "(auto)" } else { "" }),
            None => "cp?unknown".into(),
        }
    }

    /// "Retention keeps the newest checkpoints up to the configured count"
    fn check_retained_set(&mut self, when: &str) -> Result<(), Stop> {
        let listed = match self.list_checkpoints() {
            Ok(l) => l,
            Err(e) => return self.violation("C08.retention:checkpoints-statement-failed".into(), e),
        };
        let expect: BTreeSet<String> = self.retained_model().iter().map(|i| self.cps[*i].id.clone()).collect();
        let got: BTreeSet<String> = listed.iter().map(|c| c.id.clone()).collect();
        let mut ticks: Vec<String> = Vec::new();
        for c in &self.cps {
            ticks.push(format!("cp#{}@{}s", c.seq, c.created_at));
        }
        let exp_l: Vec<String> = expect.iter().map(|i| self.cp_label(i)).collect::<BTreeSet<_>>().into_iter().collect();
        let got_l: Vec<String> = got.iter().map(|i| self.cp_label(i)).collect::<BTreeSet<_>>().into_iter().collect();
        self.ctx.event(&format!("CHECKPOINTS {when}: listed {got_l:?} expected {exp_l:?}"));
        if expect == got {
            return Ok(());
        }
        let missing = expect.difference(&got).count();
        let extra = got.difference(&expect).count();
        let shape = match (missing > 0, extra > 0) {
            (true, true) => "wrong-one-evicted",
            (true, false) => "retained-checkpoint-missing",
            _ if got.len() > self.case.max_checkpoints => "more-than-max-kept",
            // within the count, but a checkpoint no acknowledged statement created
            _ => "unacknowledged-checkpoint-listed",
        };
        let after_rb = if when.starts_with("after-rollback") {
            ":after-rollback"
        } else if when.starts_with("after-refused-checkpoint") {
            ":after-refused-checkpoint"
        } else if when.starts_with("after-destructive-statement") {
            ":after-destructive-statement"
        } else {
            ""
        };
        self.violation(
            format!("C08.retention:{shape}{after_rb}"),
            format!(
                "{when}: CHECKPOINTS lists {got_l:?}, the newest {} of {} created (creation order) are {exp_l:?}; creation ticks {ticks:?}",
                self.case.max_checkpoints,
                self.cps.len()
            ),
        )
    }

    /// compare the database now with the dump taken at checkpoint `ci`
    fn check_restored(&mut self, ci: usize, alt: &[usize], how: &str) -> Result<(), Stop> {
        let now = self.dump();
        // (number of differing queries, candidate, first difference); with
        // namesakes the closest candidate is the one reported
        let mut best: Option<(usize, usize, (String, String, String))> = None;
        let mut cands = vec![ci];
        cands.extend_from_slice(alt);
        for c in &cands {
            let want = &self.cps[*c].dump;
            let mut diff = None;
            let mut ndiff = 0usize;
            for (q, w) in want {
                let g = now.get(q).cloned().unwrap_or_else(|| "<not asked>".into());
                if &g != w {
                    ndiff += 1;
                    if diff.is_none() {
                        diff = Some((q.clone(), w.clone(), g));
                    }
                }
            }
            // "data added later is gone": entities created after the checkpoint
            for (q, g) in &now {
                if !want.contains_key(q) && (q.starts_with("NODE GET") || q.starts_with("EDGE GET")) && !g.starts_with("ERR(") {
                    ndiff += 1;
                    if diff.is_none() {
                        diff = Some((q.clone(), "<did not exist yet>".into(), g.clone()));
                    }
                }
            }
            match diff {
                None => {
                    if want.get("SHOW TABLES").is_some_and(|t| t != "Tables[]") {
                        self.ctx.probe("table_before_checkpoint_queried_after_rollback");
                    }
                    return Ok(());
                },
                Some(d) => {
                    if best.as_ref().map_or(true, |b| ndiff < b.0) {
                        best = Some((ndiff, *c, d));
                    }
                },
            }
        }
        let (_, ci, (q, want, got)) = best.unwrap();
        let shape = match (want.starts_with("ERR("), got.starts_with("ERR(")) {
            (false, true) => "query-fails-after-rollback",
            (true, false) => "query-succeeds-after-rollback",
            _ => "result-differs",
        };
        let cp = format!("cp#{}", self.cps[ci].seq);
        self.violation(
            format!("C08.rollback:{}:{shape}", engine_of(&q)),
            format!("after ROLLBACK TO {cp} ({how}): `{q}` returned {got}; at the checkpoint it returned {want}"),
        )
    }

    fn checkpoint(&mut self, named: bool) -> Result<(), Stop> {
        let seq = self.cps.len();
        let name = format!("cp{seq}");
        let q = if named { format!("CHECKPOINT '{name}'") } else { "CHECKPOINT".to_string() };
        // the reference dump is taken immediately before the statement: nothing
        // runs in between on the one kernel thread
        let dump = self.dump();
        let r = self.exec(&q);
        let id = match &r {
            Ok(QueryResult::Value(s)) => s.strip_prefix("Checkpoint created: ").map(str::to_string),
            _ => None,
        };
        let Some(id) = id else {
            self.ctx.event(&format!("{q} -> {}", canon(&r)));
            // The configuration asked the blob store to refuse artifacts above a
            // size: a CHECKPOINT refused for that reason (and only for that
            // reason, with the configured limit, for a size above it) is an
            // un-acknowledged statement, not a violation. No checkpoint was
            // added, so "retention keeps the newest checkpoints up to the
            // configured count, and every retained checkpoint can be rolled back
            // to" speaks about the same checkpoints as before the statement:
            // the listed set is compared at once, what each of them restores
            // by the rollbacks that follow (steps and final sweep).
            if let (Some(limit), Err(e)) = (self.case.blob_max_artifact, &r) {
                if let Some(size) = refused_size(&e.to_string(), limit) {
                    self.refused += 1;
                    self.ctx.event(&format!("{q} refused by the blob store: artifact of {size} bytes, max_artifact_size {limit}"));
                    self.ctx.probe("checkpoint_refused_by_artifact_size_limit");
                    self.ctx.fp("refused");
                    if self.cps.len() >= self.case.max_checkpoints {
                        self.ctx.probe("checkpoint_refused_with_retention_full");
                        self.ctx.fp("refused-full");
                    }
                    return self.check_retained_set(&format!("after-refused-checkpoint (would have been cp#{seq})"));
                }
            }
            return self.violation("C08.checkpoint:statement-failed".into(), format!("`{q}` returned {:?}", r.map(|_| ()).map_err(|e| e.to_string())));
        };
        self.ctx.event(&format!("{q} -> created cp#{seq} ({} bytes)", self.artifact_size(&id)));
        if self.refused > 0 {
            // the database shrank (rollback, deletes) and fits again
            self.ctx.probe("checkpoint_accepted_after_refusal");
        }
        // name and tick as the system reports them
        let listed = self.list_checkpoints().unwrap_or_default();
        let info = listed.iter().find(|c| c.id == id);
        let created_at = info.map(|c| c.created_at).unwrap_or_else(|| self.ctx.lock().wall_ns / 1_000_000_000);
        let real_name = info.map(|c| c.name.clone()).unwrap_or_else(|| if named { name.clone() } else { format!("checkpoint-{created_at}") });
        if self.cps.iter().any(|c| c.created_at == created_at) {
            self.ctx.probe("two_checkpoints_same_tick");
            self.ctx.fp("same-tick");
        }
        if self.cps.iter().any(|c| c.created_at != created_at) {
            self.ctx.probe("checkpoints_in_different_ticks");
            self.ctx.fp("diff-tick");
        }
        let indexes = self.indexes.clone();
        self.cps.push(Cp { seq, id, name: real_name, auto: false, created_at, dump, indexes });
        if self.cps.len() > self.case.max_checkpoints {
            self.ctx.probe("retention_evicts");
            let n = self.cps.len();
            let evicted = &self.cps[n - self.case.max_checkpoints - 1];
            if self.cps[n - self.case.max_checkpoints..].iter().any(|c| c.created_at == evicted.created_at) {
                self.ctx.probe("eviction_decided_inside_one_tick");
                self.ctx.fp("tie-evict");
            }
        }
        self.check_retained_set(&format!("after-checkpoint cp#{seq}"))
    }

    /// auto-checkpoints taken by destructive statements: found as unknown ids
    /// in CHECKPOINTS; their reference dump is the database before the statement
    fn adopt_auto_checkpoints(&mut self, before: &Dump) -> Result<(), Stop> {
        let listed = match self.list_checkpoints() {
            Ok(l) => l,
            Err(_) => return Ok(()),
        };
        let mut new: Vec<&query_router::CheckpointInfo> = listed.iter().filter(|c| !self.cps.iter().any(|k| k.id == c.id)).collect();
        if new.is_empty() {
            return Ok(());
        }
        // one destructive statement takes at most one auto-checkpoint
        new.truncate(1);
        let c = new[0];
        let seq = self.cps.len();
        self.ctx.event(&format!("auto-checkpoint cp#{seq} name={} ", c.name));
        self.ctx.probe("auto_checkpoint_taken");
        if self.cps.iter().any(|k| k.created_at == c.created_at) {
            self.ctx.probe("two_checkpoints_same_tick");
        }
        let indexes = self.indexes.clone();
        self.cps.push(Cp { seq, id: c.id.clone(), name: c.name.clone(), auto: true, created_at: c.created_at, dump: before.clone(), indexes });
        if self.cps.len() > self.case.max_checkpoints {
            self.ctx.probe("retention_evicts");
        }
        self.check_retained_set(&format!("after-auto-checkpoint cp#{seq}"))
    }

    fn rollback(&mut self, pick: u8, by_name: bool, how: &str) -> Result<(), Stop> {
        let retained = self.retained_model();
        if retained.is_empty() {
            return Ok(());
        }
        let ci = retained[pick as usize % retained.len()];
        self.rollback_to(ci, by_name, how)
    }

    fn rollback_to(&mut self, ci: usize, by_name: bool, how: &str) -> Result<(), Stop> {
        let retained = self.retained_model();
        let (target, alt): (String, Vec<usize>) = if by_name {
            // a name shared by several retained checkpoints (default names embed
            // only the second) designates any one of them: narrow relaxation —
            // the restored database must equal the dump of one of the namesakes
            let name = self.cps[ci].name.clone();
            let alt = retained.iter().copied().filter(|i| *i != ci && self.cps[*i].name == name).collect();
            (name, alt)
        } else {
            (self.cps[ci].id.clone(), Vec::new())
        };
        if !alt.is_empty() {
            self.ctx.probe("rollback_by_ambiguous_default_name");
        }
        let shown = if by_name { format!("'{target}'") } else { format!("<id of cp#{}>", self.cps[ci].seq) };
        let r = self.exec(&format!("ROLLBACK TO '{target}'"));
        self.ctx.event(&format!("ROLLBACK TO {shown} (cp#{}, {how}) -> {}", self.cps[ci].seq, canon(&r)));
        self.ctx.fp(if by_name { "rb-name" } else { "rb-id" });
        if let Err(e) = &r {
            // "every retained checkpoint can be rolled back to"
            let listed: Vec<String> = self.list_checkpoints().unwrap_or_default().iter().map(|c| self.cp_label(&c.id)).collect();
            let again = if self.rollbacks > 0 { ":after-earlier-rollback" } else { "" };
            return self.violation(
                format!("C08.rollback:retained-checkpoint-cannot-be-rolled-back-to{again}"),
                format!("ROLLBACK TO {shown} (cp#{}, retained: one of the newest {} by creation order) failed: {e}; CHECKPOINTS lists {listed:?}", self.cps[ci].seq, self.case.max_checkpoints),
            );
        }
        self.rollbacks += 1;
        if self.cps[ci].indexes.iter().any(|x| !self.indexes.contains(x)) {
            // an index that existed at the checkpoint and was dropped since is back
            self.ctx.probe("rollback_brings_back_dropped_index");
            self.ctx.fp("rb-index-back");
        }
        self.indexes = self.cps[ci].indexes.clone();
        if retained.len() - retained.iter().position(|i| *i == ci).unwrap_or(0) > 10 {
            self.ctx.probe("rollback_to_retained_checkpoint_older_than_the_10_newest");
            self.ctx.fp("rb-beyond-10");
        }
        if ci == retained[0] && retained.len() > 1 {
            self.ctx.probe("rollback_to_oldest_retained");
        }
        if ci != *retained.last().unwrap() {
            self.ctx.probe("rollback_to_older_than_newest");
        }
        self.check_restored(ci, &alt, how)?;
        self.nontrivial = true;
        self.ctx.probe("rollback_compared");
        if self.refused > 0 {
            // what a retained checkpoint restores is unchanged by a refused CHECKPOINT
            self.ctx.probe("rollback_after_refused_checkpoint");
        }
        self.check_retained_set(&format!("after-rollback to cp#{}", self.cps[ci].seq))
    }

    /// "The database remains fully usable for further writes afterwards":
    /// once a rollback has happened, a write statement that is valid in the
    /// current database (decided by reads before it) must succeed and read back.
    fn judged(&self) -> bool {
        self.rollbacks > 0
    }

    fn write_violation(&mut self, kind: &str, shape: &str, detail: String) -> Result<(), Stop> {
        self.violation(format!("C08.write-after-rollback:{kind}:{shape}"), detail)
    }

    fn step(&mut self, s: &Step) -> Result<(), Stop> {
        let destructive = matches!(s, Step::Delete { .. } | Step::NodeDelete { .. } | Step::EdgeDelete { .. } | Step::EmbedDelete { .. } | Step::DropTable { .. });
        let before = if destructive && self.case.auto_checkpoint { Some(self.dump()) } else { None };
        let r = self.step_inner(s);
        if let (Ok(()), Some(b)) = (&r, before) {
            let known = self.cps.len();
            self.adopt_auto_checkpoints(&b)?;
            if self.cps.len() == known {
                // No auto-checkpoint appeared: the statement had nothing to
                // destroy, or the blob store refused the artifact (the router
                // treats auto-checkpoints as best effort and goes on). Either
                // way no checkpoint was added, so the retained set is the one
                // from before the statement.
                if self.case.blob_max_artifact.is_some() {
                    self.ctx.probe("destructive_statement_without_auto_checkpoint_under_size_limit");
                }
                self.check_retained_set("after-destructive-statement that added no auto-checkpoint")?;
            }
        }
        r
    }

    fn step_inner(&mut self, s: &Step) -> Result<(), Stop> {
        match s {
            Step::Clock { ms } => {
                self.ctx.advance_ms(*ms);
                self.ctx.event(&format!("clock +{ms}ms"));
                Ok(())
            },
            Step::ClockBack { ms } => {
                self.ctx.step_wall_ms(-(*ms as i64));
                self.observation_mode = true;
                self.ctx.event(&format!("wall clock stepped back {ms}ms (observation only from here on)"));
                self.ctx.fault_fired("wall_clock_step_back");
                Ok(())
            },
            Step::Checkpoint { named } => self.checkpoint(*named),
            Step::Rollback { pick, by_name } => self.rollback(*pick, *by_name, "step"),
            Step::CreateTable { t } => {
                let t = t % N_TABLES;
                let existed = !canon(&self.exec(&format!("SELECT * FROM t{t}"))).starts_with("ERR(");
                let q = format!("CREATE TABLE t{t} (k INT, g INT, v TEXT, f FLOAT)");
                let r = self.exec(&q);
                self.ctx.event(&format!("{q} -> {}", canon(&r)));
                if self.judged() && !existed {
                    self.ctx.probe("write_after_rollback");
                    if r.is_err() {
                        return self.write_violation("create-table", "statement-fails", format!("`{q}` (table not queryable before) returned {}", canon(&r)));
                    }
                    let back = canon(&self.exec(&format!("SELECT * FROM t{t}")));
                    if back != "Rows[]" {
                        return self.write_violation("create-table", "read-back-differs", format!("after `{q}`: SELECT * returned {back}"));
                    }
                }
                Ok(())
            },
            Step::CreateIndex { t, col } => {
                let t = t % N_TABLES;
                let c = ["k", "g", "v"][*col as usize % 3];
                let q = format!("CREATE INDEX ix_{t}_{c} ON t{t} ({c})");
                let r = self.exec(&q);
                self.ctx.event(&format!("{q} -> {}", canon(&r)));
                if r.is_ok() {
                    self.ctx.fp("index");
                    if !self.indexes.contains(&(t, c)) {
                        self.indexes.push((t, c));
                    }
                }
                Ok(())
            },
            Step::DropIndex { n } => {
                if self.indexes.is_empty() {
                    return Ok(());
                }
                let (t, c) = self.indexes[*n as usize % self.indexes.len()];
                let q = format!("DROP INDEX ON t{t}({c})");
                let r = self.exec(&q);
                self.ctx.event(&format!("{q} -> {}", canon(&r)));
                if r.is_ok() {
                    self.ctx.fp("drop-index");
                    self.ctx.probe("index_dropped");
                    self.indexes.retain(|x| *x != (t, c));
                    if self.cps.iter().any(|cp| cp.indexes.contains(&(t, c))) {
                        self.ctx.probe("index_that_a_checkpoint_holds_dropped");
                    }
                }
                Ok(())
            },
            Step::DropTable { t } => {
                let t = t % N_TABLES;
                let q = format!("DROP TABLE t{t}");
                let r = self.exec(&q);
                self.ctx.event(&format!("{q} -> {}", canon(&r)));
                if r.is_ok() {
                    self.indexes.retain(|x| x.0 != t);
                }
                Ok(())
            },
            Step::Insert { .. } | Step::InsertWide { .. } => {
                let (t, g, u, pad) = match s {
                    Step::Insert { t, g, u } => (t, g, u, 0usize),
                    Step::InsertWide { t, g, u, kib } => (t, g, u, usize::from(*kib).clamp(1, 512) * 1024),
                    _ => unreachable!(),
                };
                let t = t % N_TABLES;
                let g = g % N_GROUPS;
                let val = format!("v{u}{}", "x".repeat(pad));
                let pre = self.exec(&format!("SELECT * FROM t{t}"));
                let usable = pre.is_ok();
                let pre_rows = match &pre {
                    Ok(QueryResult::Rows(r)) => r.len(),
                    _ => 0,
                };
                let q = format!("INSERT INTO t{t} (k, g, v, f) VALUES ({u}, {g}, '{val}', {}.5)", u % 1000);
                let r = self.exec(&q);
                // the statement as logged and reported carries the padding as a count
                let q = format!("INSERT INTO t{t} (k, g, v, f) VALUES ({u}, {g}, 'v{u}'{}, {}.5)", if pad > 0 { format!("+{pad}x") } else { String::new() }, u % 1000);
                self.ctx.event(&format!("{q} -> {}", canon(&r)));
                if !self.keys.contains(&(t, *u)) && self.keys.len() < 24 {
                    self.keys.push((t, *u));
                }
                if self.judged() && usable {
                    self.ctx.probe("write_after_rollback");
                    if r.is_err() {
                        return self.write_violation("insert", "statement-fails", format!("`{q}` into a table that answers SELECT returned {}: {:?}", canon(&r), r.err().map(|e| e.to_string())));
                    }
                    let back = self.exec(&format!("SELECT * FROM t{t} WHERE k = {u}"));
                    let ok = match &back {
                        Ok(QueryResult::Rows(rows)) => rows.iter().any(|row| {
                            row.get("v") == Some(&RelValue::String(val.clone())) && row.get("g") == Some(&RelValue::Int(i64::from(g)))
                        }),
                        _ => false,
                    };
                    if !ok {
                        return self.write_violation("insert", "read-back-differs", format!("after `{q}`: SELECT WHERE k = {u} returned {}", canon(&back)));
                    }
                    // ... and every entry point finds it, by key, by group and by text value
                    let has_row = |r: &Result<QueryResult, RouterError>| match r {
                        Ok(QueryResult::Rows(rows)) => rows.iter().any(|row| {
                            row.get("k") == Some(&RelValue::Int(i64::from(*u))) && row.get("v") == Some(&RelValue::String(val.clone())) && row.get("g") == Some(&RelValue::Int(i64::from(g)))
                        }),
                        _ => false,
                    };
                    let by_g = format!("SELECT * FROM t{t} WHERE g = {g}");
                    let r_g = self.exec(&by_g);
                    if !has_row(&r_g) {
                        return self.write_violation("insert", "read-back-differs", format!("after `{q}`: `{by_g}` returned {}", canon(&r_g)));
                    }
                    let mut sels = vec![format!("SELECT * FROM t{t} WHERE k = {u}"), by_g];
                    if pad == 0 {
                        sels.push(format!("SELECT * FROM t{t} WHERE v = '{val}'"));
                    }
                    for sel in &sels {
                        if let Err((entry, got)) = self.select_others(sel, has_row) {
                            return self.write_violation("insert", "read-back-differs-by-entry-point", format!("after `{q}`: `{sel}` through {entry} returned {got} (the new row is not in it)"));
                        }
                    }
                    self.ctx.probe("write_read_back_through_every_entry_point");
                    // the new row is in addition to the rows that were there
                    let all = self.exec(&format!("SELECT * FROM t{t}"));
                    if !matches!(&all, Ok(QueryResult::Rows(r)) if r.len() == pre_rows + 1) {
                        return self.write_violation("insert", "other-rows-disturbed", format!("table had {pre_rows} rows; after `{q}`: SELECT * returned {}", canon(&all)));
                    }
                }
                Ok(())
            },
            Step::Update { t, g, u } => {
                let t = t % N_TABLES;
                let g = g % N_GROUPS;
                let sel = format!("SELECT * FROM t{t} WHERE g = {g}");
                let pre = self.exec(&sel);
                let q = format!("UPDATE t{t} SET v = 'w{u}' WHERE g = {g}");
                let r = self.exec(&q);
                self.ctx.event(&format!("{q} -> {}", canon(&r)));
                if let (true, Ok(QueryResult::Rows(rows))) = (self.judged(), &pre) {
                    self.ctx.probe("write_after_rollback");
                    let n = rows.len();
                    if !matches!(&r, Ok(QueryResult::Count(c)) if *c == n) {
                        return self.write_violation("update", "statement-fails", format!("`{q}` over {n} matching rows returned {}", canon(&r)));
                    }
                    let back = self.exec(&sel);
                    let ok = match &back {
                        Ok(QueryResult::Rows(rows2)) => rows2.len() == n && rows2.iter().all(|row| row.get("v") == Some(&RelValue::String(format!("w{u}")))),
                        _ => false,
                    };
                    if !ok {
                        return self.write_violation("update", "read-back-differs", format!("after `{q}`: `{sel}` returned {}", canon(&back)));
                    }
                    // every entry point sees the updated rows, by group and by the new text value
                    let want_v = RelValue::String(format!("w{u}"));
                    let want_g = RelValue::Int(i64::from(g));
                    let updated = |r: &Result<QueryResult, RouterError>| match r {
                        Ok(QueryResult::Rows(rows2)) => rows2.iter().filter(|row| row.get("v") == Some(&want_v) && row.get("g") == Some(&want_g)).count() == n,
                        _ => false,
                    };
                    let by_v = format!("SELECT * FROM t{t} WHERE v = 'w{u}'");
                    let r_v = self.exec(&by_v);
                    if !updated(&r_v) {
                        return self.write_violation("update", "read-back-differs", format!("after `{q}` over {n} rows: `{by_v}` returned {}", canon(&r_v)));
                    }
                    for s2 in [&sel, &by_v] {
                        if let Err((entry, got)) = self.select_others(s2, updated) {
                            return self.write_violation("update", "read-back-differs-by-entry-point", format!("after `{q}` over {n} rows: `{s2}` through {entry} returned {got}"));
                        }
                    }
                }
                Ok(())
            },
            Step::Delete { t, g } => {
                let t = t % N_TABLES;
                let g = g % N_GROUPS;
                let sel = format!("SELECT * FROM t{t} WHERE g = {g}");
                let pre = self.exec(&sel);
                let q = format!("DELETE FROM t{t} WHERE g = {g}");
                let r = self.exec(&q);
                self.ctx.event(&format!("{q} -> {}", canon(&r)));
                if let (true, Ok(QueryResult::Rows(rows))) = (self.judged(), &pre) {
                    self.ctx.probe("write_after_rollback");
                    let n = rows.len();
                    if !matches!(&r, Ok(QueryResult::Count(c)) if *c == n) {
                        return self.write_violation("delete", "statement-fails", format!("`{q}` over {n} matching rows returned {}", canon(&r)));
                    }
                    let back = canon(&self.exec(&sel));
                    if back != "Rows[]" {
                        return self.write_violation("delete", "read-back-differs", format!("after `{q}`: `{sel}` returned {back}"));
                    }
                    if let Err((entry, got)) = self.select_others(&sel, |r| canon(r) == "Rows[]") {
                        return self.write_violation("delete", "read-back-differs-by-entry-point", format!("after `{q}`: `{sel}` through {entry} returned {got}"));
                    }
                }
                Ok(())
            },
            Step::NodeCreate { label, u } => {
                let l = label % N_LABELS;
                let pre_nodes = match self.exec("NODE LIST") {
                    Ok(QueryResult::Nodes(ns)) => Some(ns.len()),
                    _ => None,
                };
                let q = format!("NODE CREATE L{l} {{name: 'n{u}', w: {}}}", u % 100);
                let r = self.exec(&q);
                let id = match &r {
                    Ok(QueryResult::Ids(v)) if v.len() == 1 => Some(v[0]),
                    _ => None,
                };
                if let Some(id) = id {
                    if !self.nodes.contains(&id) {
                        self.nodes.push(id);
                    }
                    self.ctx.event(&format!("{q} -> {}", self.node_name(id)));
                } else {
                    self.ctx.event(&format!("{q} -> {}", canon(&r)));
                }
                if self.judged() {
                    self.ctx.probe("write_after_rollback");
                    let Some(id) = id else {
                        return self.write_violation("node-create", "statement-fails", format!("`{q}` returned {}", canon(&r)));
                    };
                    let back = self.exec(&format!("NODE GET {id}"));
                    let ok = match &back {
                        Ok(QueryResult::Nodes(ns)) => ns.len() == 1 && ns[0].label == format!("L{l}") && ns[0].properties.get("name") == Some(&format!("n{u}")),
                        _ => false,
                    };
                    if !ok {
                        return self.write_violation("node-create", "read-back-differs", format!("after `{q}`: NODE GET returned {}", canon(&back)));
                    }
                    let all = self.exec("NODE LIST");
                    if let (Some(n), Ok(QueryResult::Nodes(ns))) = (pre_nodes, &all) {
                        if ns.len() != n + 1 {
                            return self.write_violation("node-create", "other-nodes-disturbed", format!("{n} nodes before `{q}`, NODE LIST after it returned {}", canon(&all)));
                        }
                    }
                }
                Ok(())
            },
            Step::NodeDelete { n } => {
                if self.nodes.is_empty() {
                    return Ok(());
                }
                let id = self.nodes[*n as usize % self.nodes.len()];
                let existed = self.exec(&format!("NODE GET {id}")).is_ok();
                let r = self.exec(&format!("NODE DELETE {id}"));
                self.ctx.event(&format!("NODE DELETE {} -> {}", self.node_name(id), canon(&r)));
                if self.judged() && existed {
                    self.ctx.probe("write_after_rollback");
                    if r.is_err() {
                        return self.write_violation("node-delete", "statement-fails", format!("NODE DELETE of {} (answers NODE GET) returned {}", self.node_name(id), canon(&r)));
                    }
                    if self.exec(&format!("NODE GET {id}")).is_ok() {
                        return self.write_violation("node-delete", "read-back-differs", format!("{} still answers NODE GET after NODE DELETE", self.node_name(id)));
                    }
                }
                Ok(())
            },
            Step::EdgeCreate { a, b, ty } => {
                if self.nodes.is_empty() {
                    return Ok(());
                }
                let from = self.nodes[*a as usize % self.nodes.len()];
                let to = self.nodes[*b as usize % self.nodes.len()];
                let ty = ty % N_ETYPES;
                let valid = self.exec(&format!("NODE GET {from}")).is_ok() && self.exec(&format!("NODE GET {to}")).is_ok();
                let q = format!("EDGE CREATE {from} -> {to} : R{ty} {{w: 1}}");
                let shown = format!("EDGE CREATE {} -> {} : R{ty}", self.node_name(from), self.node_name(to));
                let r = self.exec(&q);
                let id = match &r {
                    Ok(QueryResult::Ids(v)) if v.len() == 1 => Some(v[0]),
                    _ => None,
                };
                if let Some(id) = id {
                    if !self.edges.contains(&id) {
                        self.edges.push(id);
                    }
                    self.ctx.event(&format!("{shown} -> e#{}", self.edges.iter().position(|x| *x == id).unwrap_or(0)));
                } else {
                    self.ctx.event(&format!("{shown} -> {}", canon(&r)));
                }
                if self.judged() && valid {
                    self.ctx.probe("write_after_rollback");
                    let Some(id) = id else {
                        return self.write_violation("edge-create", "statement-fails", format!("`{shown}` between two nodes that answer NODE GET returned {}", canon(&r)));
                    };
                    let back = self.exec(&format!("EDGE GET {id}"));
                    let ok1 = matches!(&back, Ok(QueryResult::Edges(es)) if es.len() == 1 && es[0].from == from && es[0].to == to);
                    let nb = self.exec(&format!("NEIGHBORS {from} OUTGOING"));
                    let ok2 = from == to || matches!(&nb, Ok(QueryResult::Ids(ids)) if ids.contains(&to));
                    if !ok1 || !ok2 {
                        return self.write_violation("edge-create", "read-back-differs", format!("after `{shown}`: EDGE GET returned {}, NEIGHBORS OUTGOING returned {}", canon(&back), canon(&nb)));
                    }
                }
                Ok(())
            },
            Step::EdgeDelete { e } => {
                if self.edges.is_empty() {
                    return Ok(());
                }
                let idx = *e as usize % self.edges.len();
                let id = self.edges[idx];
                let existed = self.exec(&format!("EDGE GET {id}")).is_ok();
                let r = self.exec(&format!("EDGE DELETE {id}"));
                self.ctx.event(&format!("EDGE DELETE e#{idx} -> {}", canon(&r)));
                if self.judged() && existed {
                    self.ctx.probe("write_after_rollback");
                    if r.is_err() {
                        return self.write_violation("edge-delete", "statement-fails", format!("EDGE DELETE of e#{idx} (answers EDGE GET) returned {}", canon(&r)));
                    }
                    if self.exec(&format!("EDGE GET {id}")).is_ok() {
                        return self.write_violation("edge-delete", "read-back-differs", format!("e#{idx} still answers EDGE GET after EDGE DELETE"));
                    }
                }
                Ok(())
            },
            Step::EmbedStore { k, u } => {
                let k = k % N_EMB;
                let v = emb_vec(*u);
                let q = format!("EMBED STORE 'e{k}' {}", fmt_vec(&v));
                let r = self.exec(&q);
                self.ctx.event(&format!("{q} -> {}", canon(&r)));
                if self.judged() {
                    self.ctx.probe("write_after_rollback");
                    if r.is_err() {
                        return self.write_violation("embed-store", "statement-fails", format!("`{q}` returned {}", canon(&r)));
                    }
                    let back = canon(&self.exec(&format!("EMBED GET 'e{k}'")));
                    let want = format!("Value({:?})", v.to_vec());
                    if back != want {
                        return self.write_violation("embed-store", "read-back-differs", format!("after `{q}`: EMBED GET returned {back}, expected {want}"));
                    }
                }
                Ok(())
            },
            Step::EmbedDelete { k } => {
                let k = k % N_EMB;
                let existed = self.exec(&format!("EMBED GET 'e{k}'")).is_ok();
                let q = format!("EMBED DELETE 'e{k}'");
                let r = self.exec(&q);
                self.ctx.event(&format!("{q} -> {}", canon(&r)));
                if self.judged() && existed {
                    self.ctx.probe("write_after_rollback");
                    if r.is_err() {
                        return self.write_violation("embed-delete", "statement-fails", format!("`{q}` of a key that answers EMBED GET returned {}", canon(&r)));
                    }
                    if self.exec(&format!("EMBED GET 'e{k}'")).is_ok() {
                        return self.write_violation("embed-delete", "read-back-differs", format!("'e{k}' still answers EMBED GET after EMBED DELETE"));
                    }
                }
                Ok(())
            },
        }
    }

    /// "every retained checkpoint can be rolled back to"
    fn sweep(&mut self) -> Result<(), Stop> {
        if self.case.sweep == 0 {
            return Ok(());
        }
        let mut order = self.retained_model();
        if self.case.sweep == 2 {
            order.reverse();
        }
        for ci in order {
            self.rollback_to(ci, false, "final sweep over every retained checkpoint")?;
            self.ctx.probe("sweep_rollback");
        }
        Ok(())
    }
}

fn build_router(case: &Case) -> Result<QueryRouter, String> {
    let mut router = QueryRouter::new();
    // real BlobStore over the router's shared store; its GC task is never
    // started (start_blob is not called), so nothing is spawned on the runtime
    let mut blob_cfg = BlobConfig::default();
    if let Some(n) = case.blob_max_artifact {
        blob_cfg = blob_cfg.with_max_artifact_size(n);
    }
    if let Some(n) = case.blob_chunk_size {
        blob_cfg = blob_cfg.with_chunk_size(n.max(1));
    }
    router.init_blob_with_config(blob_cfg).map_err(|e| format!("init_blob: {e}"))?;
    if case.query_cache {
        router.init_cache();
    }
    let cfg = CheckpointConfig::default()
        .with_max_checkpoints(case.max_checkpoints.max(1))
        .with_auto_checkpoint(case.auto_checkpoint)
        .with_interactive_confirm(false);
    router.init_checkpoint_with_config(cfg).map_err(|e| format!("init_checkpoint: {e}"))?;
    Ok(router)
}

fn gen_write(rng: &mut Rng, u: &mut u32) -> Step {
    *u += 1;
    let u = *u;
    match rng.below(100) {
        0..=6 => Step::CreateTable { t: rng.below(u64::from(N_TABLES)) as u8 },
        7..=10 => Step::CreateIndex { t: rng.below(u64::from(N_TABLES)) as u8, col: rng.below(3) as u8 },
        11..=14 => Step::DropIndex { n: rng.below(4) as u8 },
        15..=17 => Step::DropTable { t: rng.below(u64::from(N_TABLES)) as u8 },
        18..=36 => Step::Insert { t: rng.below(2) as u8, g: rng.below(u64::from(N_GROUPS)) as u8, u },
        37..=42 => Step::Update { t: rng.below(2) as u8, g: rng.below(u64::from(N_GROUPS)) as u8, u },
        43..=48 => Step::Delete { t: rng.below(2) as u8, g: rng.below(u64::from(N_GROUPS)) as u8 },
        49..=60 => Step::NodeCreate { label: rng.below(u64::from(N_LABELS)) as u8, u },
        61..=64 => Step::NodeDelete { n: rng.below(8) as u8 },
        65..=75 => Step::EdgeCreate { a: rng.below(8) as u8, b: rng.below(8) as u8, ty: rng.below(u64::from(N_ETYPES)) as u8 },
        76..=79 => Step::EdgeDelete { e: rng.below(8) as u8 },
        80..=93 => Step::EmbedStore { k: rng.below(u64::from(N_EMB)) as u8, u },
        _ => Step::EmbedDelete { k: rng.below(u64::from(N_EMB)) as u8 },
    }
}

fn gen_clock(rng: &mut Rng) -> Option<Step> {
    match rng.below(10) {
        0..=4 => None, // 0 ms: machine speed
        5..=6 => Some(Step::Clock { ms: rng.range(1, 999) }),
        7..=8 => Some(Step::Clock { ms: rng.range(1000, 3500) }),
        _ => Some(Step::Clock { ms: 1000 }),
    }
}

impl Scenario for C08 {
    type Case = Case;

    fn id(&self) -> &'static str {
        "C08"
    }
    fn level(&self) -> &'static str {
        "exploration"
    }
    fn runs(&self, tier: Tier) -> u64 {
        match tier {
            Tier::Quick => 4000,
            Tier::Thorough => 100_000,
        }
    }

    fn generate(&self, rng: &mut Rng, _tier: Tier, index: u64) -> Case {
        // Retention counts above the default configuration's 10 (which is also
        // the page size of a CHECKPOINTS statement without LIMIT) in one case
        // out of ten; such a case is mostly a long burst of checkpoints, so
        // that more checkpoints are retained than one page lists.
        // Every artifact embeds the retained older ones, so artifact size doubles
        // per retained checkpoint (0.5 KiB -> some MiB at the 13th): burst cases
        // are one in twenty, stop one checkpoint after retention starts to
        // evict, and have no wide rows.
        let large = rng.chance(1, 20);
        let max_checkpoints = if large { rng.range(11, 12) as usize } else { rng.range(1, 4) as usize };
        let cp_cap = if large { max_checkpoints + 1 } else { 6 };
        let auto_checkpoint = rng.chance(1, 4);
        let mut steps = Vec::new();
        let mut u = ((index as u32) & 0xfff) << 8;
        let mut statements = 0usize;
        let budget = if large { rng.range(24, 40) as usize } else { rng.range(10, 30) as usize };
        // a relational table early in most runs (the suspected defect concerns tables)
        if rng.chance(4, 5) {
            steps.push(Step::CreateTable { t: 0 });
            statements += 1;
            if rng.chance(1, 2) {
                steps.push(Step::CreateTable { t: 1 });
                statements += 1;
            }
            // an index from the start in some runs: checkpoints then hold it
            if rng.chance(1, 3) {
                steps.push(Step::CreateIndex { t: rng.below(2) as u8, col: rng.below(3) as u8 });
                statements += 1;
            }
        }
        let back_step_run = rng.chance(1, 12);
        let mut n_cp = 0;
        while statements < budget {
            let r = rng.below(100);
            let s = if r < if large { 30 } else { 62 } {
                gen_write(rng, &mut u)
            } else if r < if large { 88 } else { 82 } {
                if n_cp >= cp_cap {
                    gen_write(rng, &mut u)
                } else {
                    n_cp += 1;
                    // bursts of checkpoints at machine speed are the interesting case
                    let named = rng.chance(1, 2);
                    steps.push(Step::Checkpoint { named });
                    statements += 1;
                    if rng.chance(1, 3) && n_cp < cp_cap {
                        if let Some(c) = gen_clock(rng) {
                            steps.push(c);
                        }
                        n_cp += 1;
                        statements += 1;
                        Step::Checkpoint { named: rng.chance(1, 2) }
                    } else {
                        gen_write(rng, &mut u)
                    }
                }
            } else if n_cp > 0 {
                Step::Rollback { pick: rng.below(16) as u8, by_name: rng.chance(1, 3) }
            } else {
                gen_write(rng, &mut u)
            };
            // with auto_checkpoint on a destructive statement takes a checkpoint
            // too: in a burst case it counts towards the cap (artifact sizes
            // double per checkpoint taken, evicted or not)
            let s = if large && auto_checkpoint && matches!(s, Step::Delete { .. } | Step::NodeDelete { .. } | Step::EdgeDelete { .. } | Step::EmbedDelete { .. } | Step::DropTable { .. }) {
                if n_cp >= cp_cap {
                    u += 1;
                    Step::Insert { t: 0, g: (u % 3) as u8, u }
                } else {
                    n_cp += 1;
                    s
                }
            } else {
                s
            };
            steps.push(s);
            statements += 1;
            if let Some(c) = gen_clock(rng) {
                steps.push(c);
            }
            if back_step_run && n_cp >= 1 && rng.chance(1, 6) {
                steps.push(Step::ClockBack { ms: rng.range(500, 5000) });
            }
        }
        // (a burst case always ends with the sweep: that is what it is for)
        let sweep = if large { rng.range(1, 2) as u8 } else { rng.below(3) as u8 };
        // Configuration of the blob store that holds the checkpoint artifacts
        // (QueryRouter::init_blob_with_config). An artifact embeds a snapshot of
        // the whole store, older artifacts included, so its size roughly
        // doubles with every checkpoint (about 0.5 KiB, 2 KiB, 5 KiB, ... 100 KiB
        // for this workload): a limit drawn log-uniformly from 512 B .. 128 KiB
        // lets the first few CHECKPOINTs pass and refuses later ones, and a
        // rollback to an early checkpoint makes the database fit again.
        let blob_max_artifact = if rng.chance(2, 5) && !(large && rng.chance(3, 4)) {
            let exp = rng.range(9, 16); // 2^9 .. 2^17
            Some((1usize << exp) + rng.below(1 << exp) as usize)
        } else {
            None
        };
        let blob_chunk_size = if rng.chance(1, 4) { Some(*rng.pick(if large { &[8192usize, 32768, 8192, 32768] } else { &[512usize, 2048, 8192, 32768] })) } else { None };
        // rows of widely varying size: the database outgrows a limit at once
        // instead of checkpoint by checkpoint
        if rng.chance(1, 3) && !large {
            for s in &mut steps {
                if let Step::Insert { t, g, u } = *s {
                    if rng.chance(1, 2) {
                        *s = Step::InsertWide { t, g, u, kib: rng.range(1, 16) as u16 };
                    }
                }
            }
        }
        // the router's optional query cache (init_cache) is part of the case
        let query_cache = GENERATE_QUERY_CACHE && rng.chance(1, 6);
        let async_entry = rng.chance(1, 5);
        Case { max_checkpoints, auto_checkpoint, sweep, blob_max_artifact, blob_chunk_size, query_cache, async_entry, steps }
    }

    fn run(&self, case: &Case, ctx: &Arc<RunCtx>) -> RunOut {
        let mut out = RunOut::default();
        if case.query_cache {
            ctx.probe("router_query_cache_on");
        }
        if case.async_entry {
            ctx.probe("statements_through_async_entry_point");
        }
        let router = match build_router(case) {
            Ok(r) => r,
            Err(e) => {
                out.harness_error = Some(e);
                return out;
            },
        };
        ctx.event(&format!("router up: max_checkpoints={} auto_checkpoint={}", case.max_checkpoints, case.auto_checkpoint));
        ctx.fp(&format!("max{}auto{}", case.max_checkpoints, case.auto_checkpoint));
        if case.blob_max_artifact.is_some() || case.blob_chunk_size.is_some() {
            ctx.event(&format!("blob store: max_artifact_size={:?} chunk_size={:?}", case.blob_max_artifact, case.blob_chunk_size));
            ctx.fp(&format!("limit{}chunk{:?}", case.blob_max_artifact.map_or(0, |n| usize::BITS - n.leading_zeros()), case.blob_chunk_size));
        }
        let mut sys = Sys {
            ctx,
            case,
            router,
            nodes: Vec::new(),
            edges: Vec::new(),
            keys: Vec::new(),
            indexes: Vec::new(),
            cps: Vec::new(),
            rollbacks: 0,
            refused: 0,
            observation_mode: false,
            observations: Vec::new(),
            nontrivial: false,
            syntax_errors: std::cell::RefCell::new(None),
        };
        let mut res = Ok(());
        for s in &case.steps {
            ctx.fp(match s {
                Step::Checkpoint { .. } => "C",
                Step::Rollback { .. } => "R",
                Step::Clock { ms } if *ms >= 1000 => "T",
                Step::Clock { .. } => "t",
                Step::ClockBack { .. } => "B",
                Step::InsertWide { .. } => "W",
                Step::Insert { .. } | Step::Update { .. } | Step::Delete { .. } | Step::CreateTable { .. } | Step::DropTable { .. } | Step::CreateIndex { .. } | Step::DropIndex { .. } => "r",
                Step::NodeCreate { .. } | Step::NodeDelete { .. } | Step::EdgeCreate { .. } | Step::EdgeDelete { .. } => "g",
                _ => "v",
            });
            res = sys.step(s);
            if res.is_err() {
                break;
            }
        }
        if res.is_ok() {
            res = sys.sweep();
        }
        // size of the checkpoint artifacts (each snapshot embeds the artifacts
        // retained when it was taken): reported, never judged
        if let Some(blob) = sys.router.blob() {
            let blob = blob.clone();
            if let Ok(Ok(st)) = sys.router.block_on(async move { blob.lock().await.stats().await }) {
                ctx.event(&format!("blob store at end: {} artifacts, {} bytes in {} chunks", st.artifact_count, st.total_bytes, st.chunk_count));
                if st.total_bytes > 1 << 20 {
                    ctx.probe("checkpoint_artifacts_over_1MiB");
                }
                if st.total_bytes > 16 << 20 {
                    ctx.probe("checkpoint_artifacts_over_16MiB");
                }
            }
        }
        // the runtime must never have been handed a task: everything ran in block_on
        if let Some(rt) = sys.router.runtime() {
            let m = rt.metrics();
            if m.num_alive_tasks() != 0 {
                out.harness_error = Some(format!("tokio runtime has {} live tasks: something was spawned outside the simulation", m.num_alive_tasks()));
            }
            if m.num_workers() > 1 {
                ctx.probe("tokio_workers_more_than_one");
            }
        }
        if let Some(e) = sys.syntax_errors.borrow().clone() {
            out.harness_error = Some(e);
        }
        if sys.observation_mode && sys.observations.is_empty() {
            sys.observations.push("clock-stepped-backwards: held".into());
        }
        out.observations = std::mem::take(&mut sys.observations);
        out.nontrivial = sys.nontrivial;
        match res {
            Ok(()) => {},
            Err(Stop::Violation(v)) => {
                out.violation = Some(v);
                out.nontrivial = true;
            },
            Err(Stop::Harness(h)) => out.harness_error = Some(h),
        }
        out
    }

    fn shrink(&self, case: &Case) -> Vec<Case> {
        let mut v = Vec::new();
        for steps in drop_chunks(&case.steps) {
            let mut c = case.clone();
            c.steps = steps;
            v.push(c);
        }
        if case.sweep != 0 {
            let mut c = case.clone();
            c.sweep = 0;
            v.push(c);
        }
        if case.auto_checkpoint {
            let mut c = case.clone();
            c.auto_checkpoint = false;
            v.push(c);
        }
        if case.max_checkpoints > 1 {
            let mut c = case.clone();
            c.max_checkpoints -= 1;
            v.push(c);
        }
        if case.blob_max_artifact.is_some() {
            let mut c = case.clone();
            c.blob_max_artifact = None;
            v.push(c);
        }
        if case.blob_chunk_size.is_some() {
            let mut c = case.clone();
            c.blob_chunk_size = None;
            v.push(c);
        }
        if case.query_cache {
            let mut c = case.clone();
            c.query_cache = false;
            v.push(c);
        }
        if case.async_entry {
            let mut c = case.clone();
            c.async_entry = false;
            v.push(c);
        }
        if let Some(n) = case.blob_max_artifact {
            // a rounder limit: the next power of two below
            let p = 1usize << (usize::BITS - 1 - n.max(1).leading_zeros());
            if p < n {
                let mut c = case.clone();
                c.blob_max_artifact = Some(p);
                v.push(c);
            }
        }
        for (i, s) in case.steps.iter().enumerate() {
            let simpler = match s {
                Step::Clock { ms } if *ms != 1000 && *ms > 1 => Some(Step::Clock { ms: if *ms > 1000 { 1000 } else { 1 } }),
                Step::Checkpoint { named: false } => Some(Step::Checkpoint { named: true }),
                Step::InsertWide { t, g, u, kib } if *kib > 1 => Some(Step::InsertWide { t: *t, g: *g, u: *u, kib: 1 }),
                Step::InsertWide { t, g, u, .. } => Some(Step::Insert { t: *t, g: *g, u: *u }),
                Step::DropIndex { n } if *n > 0 => Some(Step::DropIndex { n: 0 }),
                Step::Rollback { pick, by_name: true } => Some(Step::Rollback { pick: *pick, by_name: false }),
                Step::Rollback { pick, by_name } if *pick > 0 => Some(Step::Rollback { pick: 0, by_name: *by_name }),
                _ => None,
            };
            if let Some(n) = simpler {
                let mut c = case.clone();
                c.steps[i] = n;
                v.push(c);
            }
        }
        v
    }

    fn required_probes(&self) -> Vec<&'static str> {
        vec![
            "two_checkpoints_same_tick",
            "checkpoints_in_different_ticks",
            "rollback_to_oldest_retained",
            "table_before_checkpoint_queried_after_rollback",
            "write_after_rollback",
            "retention_evicts",
            "eviction_decided_inside_one_tick",
            "rollback_compared",
            // more retained checkpoints than CHECKPOINTS lists by default
            "rollback_to_retained_checkpoint_older_than_the_10_newest",
            // index metadata restored behind the relational engine's back, then written to and queried
            "rollback_brings_back_dropped_index",
            "write_read_back_through_every_entry_point",
            // a pass without these says nothing about refused CHECKPOINTs
            "checkpoint_refused_by_artifact_size_limit",
            "checkpoint_refused_with_retention_full",
            "rollback_after_refused_checkpoint",
        ]
    }

    fn rule(&self) -> String {
        "A case is max_checkpoints (1-4, or 11-12 in one case of twenty, which is then mostly a burst of up to max+1 checkpoints without wide rows followed by the final sweep), auto_checkpoint on/off, the blob store configuration (max_artifact_size none or 512 B-128 KiB, chunk_size default or 512 B-32 KiB), a final-sweep order and a program of <=30 (burst cases <=40) statements (CREATE TABLE/INDEX, DROP INDEX of an index built earlier, INSERT of rows of 10 B-16 KiB, UPDATE, DELETE, DROP TABLE, NODE/EDGE CREATE/DELETE, EMBED STORE/DELETE, CHECKPOINT named or default-named, ROLLBACK TO by id or name of any checkpoint the creation-order model retains) with clock advances of 0 ms, 1-999 ms or 1-3.5 s between statements, executed as query text by one real QueryRouter with real BlobStore and CheckpointManager; the relational queries of the dump (full scans and equalities on key, group and text columns) and the read-backs after judged writes are asked through all three public entry points (execute, execute_parsed, execute_parsed_async). Non-trivial: at least one ROLLBACK TO succeeded and the full observable dump was compared with the dump taken at that checkpoint. Distinct: hash of (max_checkpoints, auto flag, sequence of step classes, same-tick/different-tick/tie-eviction marks, rollback by id or name, blob limit magnitude and chunk size, refused checkpoints).".into()
    }

    fn components(&self) -> Value {
        json!({
            "real": ["query_router::QueryRouter::execute_parsed (neumann_parser, relational/graph/vector/unified engines over one shared TensorStore)", "tensor_checkpoint::CheckpointManager, CheckpointStorage, RetentionManager", "tensor_blob::BlobStore built by QueryRouter::init_blob_with_config with the case's max_artifact_size and chunk_size (GC task not started)", "tensor_store snapshot_bytes / restore_from_bytes", "tokio runtime created by the router, used through block_on on the run thread only"],
            "simulated": ["SystemTime / Instant (libc clock_gettime interposed): created_at seconds and default checkpoint names follow the step list's clock advances", "getrandom (uuid checkpoint ids, HashMap order) seeded per case"],
            "stub": []
        })
    }

    fn assumptions(&self) -> Vec<String> {
        vec![
            "statement errors are compared by RouterError variant, not by message text".into(),
            "each entry point's answer to a SELECT is compared with the same entry point's answer at the checkpoint; entry points are not compared with each other, except that after a judged write every entry point must find the written rows".into(),
            "result sets are compared order-insensitively (no statement of the workload has ORDER BY); SIMILAR probes use LIMIT >= number of stored embeddings so ties at the cut-off cannot change the set; floats bit-exact; embeddings have 4 dimensions (no lossy snapshot encoding)".into(),
            "ROLLBACK TO by a default name shared by several retained checkpoints may restore any one of the namesakes".into(),
            "a backwards step of the wall clock is outside the quantifier: runs containing one report labelled observations only".into(),
            "write statements are judged (must succeed and read back) only after the first rollback of the run, and only when reads immediately before show them to be valid".into(),
            "the blob garbage collector background task is not started".into(),
            "with BlobConfig::max_artifact_size configured, a CHECKPOINT (or auto-checkpoint) that the blob store refuses with its size-limit error, naming the configured limit and a larger size, is an un-acknowledged statement: it adds no checkpoint and the retained set must be exactly the one before it; any other CHECKPOINT failure, and any failure without a configured limit, is a violation".into(),
            "BlobConfig::max_artifacts is not part of the case: nothing in tensor_blob reads it; BlobConfig with chunk_size 0 is rejected at construction (no router to run)".into(),
        ]
    }

    fn watchdog_secs(&self) -> u64 {
        600
    }
}
