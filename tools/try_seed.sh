#!/bin/sh
# try_seed.sh <PROPERTY> <patch.diff> [extra nsim args]: apply a seeded change to /repo, run the quick check, undo.
set -u
prop="$1"; patch="$2"; shift 2
cd /repo || exit 2
if [ -n "$(git status --porcelain --untracked-files=no)" ]; then echo "repo not clean"; exit 2; fi
git apply "$patch" || { echo "patch does not apply"; exit 2; }
cd /verif && ./check "$prop" --tier quick "$@" > /tmp/try_seed.out 2>&1; code=$?
git -C /repo checkout -- .
grep -E "VIOLATION|nsim: (violation|property=)|HARNESS|KNOWN" /tmp/try_seed.out | cut -c1-400
echo "exit=$code"
