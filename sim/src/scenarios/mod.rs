pub mod c01;
pub mod c02;
pub mod c05;
pub mod c10;
pub mod c13;
pub mod c17;
