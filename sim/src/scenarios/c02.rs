//! C02 — Durable store: acknowledged writes survive any crash, in order.
//!
//! Real `TensorStore::open_durable/put_durable/delete_durable/checkpoint/sync/
//! recover` on the simulated disk. For each generated program every mutating
//! syscall boundary (and byte offsets inside log writes) is taken as a crash
//! point; after each crash the store is recovered, compared against the prefix
//! model, the rest of the program is run on the recovered store (append after
//! a torn tail), and the store is recovered once more.

use crate::ctx::{RunCtx, SysEvent};
use crate::driver::{drop_chunks, RunOut, Scenario, Tier, Violation};
use crate::rng::Rng;
use crate::storeutil::{canon_map, dump_store_data, gen_value, maps_equiv, KEY_UNIVERSE};
use tensor_store::TensorData;
use serde::{Deserialize, Serialize};
use serde_json::{json, Value};
use std::collections::BTreeMap;
use std::path::Path;
use std::sync::Arc;
use tensor_store::{SyncMode, TensorStore, WalConfig};

#[derive(Serialize, Deserialize, Clone, Debug, PartialEq)]
pub enum Op {
    /// `v` < 200: value kind of `storeutil::gen_value`; `v` >= 200: one opaque bytes
    /// value of (v - 199) * 6 MiB (v = 202: 18 MiB, a single log record above 16 MiB)
    Put { k: u8, v: u8, u: u32 },
    Del { k: u8 },
    Sync,
    Checkpoint,
    /// the non-logged `put` on the same durable store (documented as not durable:
    /// it may survive through a later snapshot or vanish, it must never hurt a
    /// durable write)
    PutPlain { k: u8, v: u8, u: u32 },
    /// the non-logged `delete`
    DelPlain { k: u8 },
}

#[derive(Serialize, Deserialize, Clone, Debug, PartialEq)]
pub struct CrashSpec {
    /// crash at the nth mutating syscall of the current incarnation
    pub nth: u64,
    /// bytes of that syscall kept if it is a write (None: none)
    pub bytes: Option<usize>,
    /// power-loss cut of non-durable log bytes: 0 = keep all written,
    /// 1 = keep only what was fsynced, n>=2 = pseudo-random choice from n
    pub cut: u64,
}

#[derive(Serialize, Deserialize, Clone, Debug, PartialEq)]
pub enum Mode {
    /// take every crash point of the program in turn (inner enumeration)
    Enumerate,
    /// one execution with this chain of crashes (incarnation by incarnation)
    Chain(Vec<CrashSpec>),
}

#[derive(Serialize, Deserialize, Clone, Debug)]
pub struct Case {
    pub sync: u8,
    pub batch_n: usize,
    pub max_size: u64,
    pub ops: Vec<Op>,
    pub mode: Mode,
    /// further `WalConfig` knobs: bit 0 = checksums off (`enable_checksums`),
    /// bit 1 = no verification on replay (`verify_on_replay`)
    #[serde(default)]
    pub wal_flags: u8,
}

pub struct C02;

const NODE: &str = "n0";

fn wal_config(case: &Case) -> WalConfig {
    let mut c = WalConfig::default();
    c.sync_mode = match case.sync {
        0 => SyncMode::Immediate,
        1 => SyncMode::Batched { max_entries: case.batch_n.max(1) },
        _ => SyncMode::Manual,
    };
    c.max_size_bytes = case.max_size;
    if case.wal_flags & 1 != 0 {
        c.enable_checksums = false;
    }
    if case.wal_flags & 2 != 0 {
        c.verify_on_replay = false;
    }
    c
}

#[derive(Clone, Debug)]
enum MOp {
    Put(String, TensorData),
    Del(String),
    /// non-logged write: part of a recovered state only through a snapshot
    /// taken after it
    PlainPut(String, TensorData),
    PlainDel(String),
}

impl MOp {
    fn durable(&self) -> bool {
        matches!(self, MOp::Put(..) | MOp::Del(..))
    }
}

/// k < 200: the shared key universe; 200..202: further embedding keys (three or
/// more `emb:` keys give the entity index something to renumber); 203..: bare names
fn key_of(k: u8) -> &'static str {
    match k {
        200 => "emb:c",
        201 => "emb:d",
        202 => "emb:e",
        // names equal to a class word without the colon, and near misses: ordinary
        // durable keys whatever the class prefixes are
        203 => "_cache",
        204 => "emb",
        205 => "node",
        206 => "edge",
        207 => "table",
        208 => "_blob",
        209 => "_cachex",
        _ => KEY_UNIVERSE[k as usize % KEY_UNIVERSE.len()],
    }
}

fn all_keys() -> Vec<&'static str> {
    let mut v: Vec<&'static str> = KEY_UNIVERSE.to_vec();
    v.extend(["emb:c", "emb:d", "emb:e", "_cache", "emb", "node", "edge", "table", "_blob", "_cachex"]);
    v
}

fn huge_value(v: u8, u: u32) -> TensorData {
    let n = (usize::from(v) - 199) * 6 * 1024 * 1024;
    let mut x = (u64::from(u) << 1 | 1).wrapping_mul(0x9E37_79B9_7F4A_7C15);
    let mut b = Vec::with_capacity(n + 8);
    while b.len() < n {
        x ^= x << 13;
        x ^= x >> 7;
        x ^= x << 17;
        b.extend_from_slice(&x.to_le_bytes());
    }
    b.truncate(n);
    let mut d = TensorData::new();
    d.set("_u", tensor_store::TensorValue::Scalar(tensor_store::ScalarValue::Int(i64::from(u))));
    d.set("big", tensor_store::TensorValue::Scalar(tensor_store::ScalarValue::Bytes(b)));
    d
}

/// documented reconstruction error of lossily stored long vectors
const TOL: f32 = 0.02;

fn apply(m: &mut BTreeMap<String, TensorData>, op: &MOp) {
    match op {
        MOp::Put(k, v) | MOp::PlainPut(k, v) => {
            m.insert(k.clone(), v.clone());
        },
        MOp::Del(k) | MOp::PlainDel(k) => {
            m.remove(k);
        },
    }
}

struct Trial<'a> {
    ctx: &'a Arc<RunCtx>,
    case: &'a Case,
    wal: String,
    snap: String,
    /// state the current incarnation started from (what recovery produced)
    base: BTreeMap<String, TensorData>,
    /// durable operations issued in the current incarnation
    hist: Vec<MOp>,
    /// prefix of `hist` known to be acknowledged
    ack: usize,
    observations: Vec<String>,
}

enum Verdict {
    Ok,
    Bad(Violation),
}

impl<'a> Trial<'a> {
    fn new(ctx: &'a Arc<RunCtx>, case: &'a Case, tag: u64) -> Self {
        let dir = ctx.node_dir(NODE);
        let sub = format!("{dir}/t{tag}");
        let _ = std::fs::create_dir_all(&sub);
        Trial {
            ctx,
            case,
            wal: format!("{sub}/store.wal"),
            snap: format!("{sub}/store.snap"),
            base: BTreeMap::new(),
            hist: Vec::new(),
            ack: 0,
            observations: Vec::new(),
        }
    }

    fn cleanup(&self) {
        if let Some(dir) = Path::new(&self.wal).parent() {
            let _ = std::fs::remove_dir_all(dir);
            self.ctx.forget_prefix(&dir.to_string_lossy());
        }
    }

    fn exec_op(&mut self, store: &TensorStore, op: &Op) {
        match op {
            Op::PutPlain { k, v, u } => {
                let key = key_of(*k);
                // kept off emb: keys (their vector slab merges with earlier writes, see
                // below) and off the non-durable cache class
                if key.starts_with("emb:") || key.starts_with("_cache:") {
                    return;
                }
                let kind = if *v % 12 == 10 || *v % 12 == 11 { 6 } else { *v % 12 };
                let val = gen_value(kind, *u);
                if store.put(key, val.clone()).is_ok() {
                    self.hist.push(MOp::PlainPut(key.to_string(), val));
                    self.ctx.probe("plain_write_on_durable_store");
                }
            },
            Op::DelPlain { k } => {
                let key = key_of(*k);
                if key.starts_with("emb:") || key.starts_with("_cache:") {
                    return;
                }
                let _ = store.delete(key);
                self.hist.push(MOp::PlainDel(key.to_string()));
            },
            Op::Put { k, v, u } => {
                let key = key_of(*k);
                // `_embedding` is the reserved field of emb: keys; on other key classes a
                // put carrying it registers the key in the entity index and a later
                // delete leaves scan() listing it (live-store semantics, not judged here),
                // so those value kinds are used on emb: keys only.
                // (`_embedding` on a key outside the emb: class registers the key in the
                // entity index; until fix bb60b52b a later delete left scan() listing it —
                // the value kinds are now used on every key class)
                let kind = *v;
                let val = if *v >= 200 && !key.starts_with("emb:") {
                    self.ctx.probe("log_record_above_16mib");
                    huge_value((*v).min(202), *u)
                } else {
                    gen_value(kind % 12, *u)
                };
                // Prediction of what a reader sees after this put, used only if the put
                // is cut short by the crash (completed puts are read back from the live
                // store). emb: keys keep their vector in a separate slab: a put without
                // a full-dimension `_embedding` leaves the previously stored vector
                // visible (sequential semantics of the store, not judged here).
                let mut predicted = val.clone();
                if key.starts_with("emb:") {
                    let full = matches!(val.get("_embedding"), Some(tensor_store::TensorValue::Vector(x)) if x.len() == 384);
                    if !full {
                        if let Ok(pre) = store.get(key) {
                            if let Some(tensor_store::TensorValue::Vector(x)) = pre.get("_embedding") {
                                if x.len() == 384 {
                                    predicted.set("_embedding", tensor_store::TensorValue::Vector(x.clone()));
                                }
                            }
                        }
                    }
                }
                let canon = predicted;
                let durable_key = !key.starts_with("_cache:");
                if durable_key {
                    self.hist.push(MOp::Put(key.to_string(), canon));
                }
                let r = store.put_durable(key, val);
                if r.is_ok() && durable_key && !self.ctx.is_dead(NODE) {
                    // the model holds what a reader of the live store sees after the op
                    if let (Ok(seen), Some(MOp::Put(_, c))) = (store.get(key), self.hist.last_mut()) {
                        *c = seen;
                    }
                    if self.case.sync == 0 {
                        self.ack = self.hist.len();
                    }
                }
            },
            Op::Del { k } => {
                let key = key_of(*k);
                let durable_key = !key.starts_with("_cache:");
                if durable_key {
                    self.hist.push(MOp::Del(key.to_string()));
                }
                let r = store.delete_durable(key);
                // Err(NotFound) for a missing key still logged the delete; either way
                // the model treats it as "key absent", acknowledged like a put.
                let _ = r;
                if durable_key && self.case.sync == 0 && !self.ctx.is_dead(NODE) {
                    self.ack = self.hist.len();
                }
            },
            Op::Sync => {
                let n = self.hist.len();
                if store.sync().is_ok() && !self.ctx.is_dead(NODE) {
                    self.ack = n;
                }
            },
            Op::Checkpoint => {
                let _ = store.checkpoint(Path::new(&self.snap));
                self.ctx.probe("checkpoint_called");
            },
        }
    }

    /// Recover and compare with the prefix model. On success the model is
    /// rebased on the recovered state.
    fn recover_and_check(&mut self, what: &str) -> Result<TensorStore, Violation> {
        let cfg = wal_config(self.case);
        let store = match TensorStore::recover(&self.wal, &cfg, Some(Path::new(&self.snap))) {
            Ok(s) => s,
            Err(e) => {
                return Err(Violation {
                    class: "recover-failed".into(),
                    detail: format!("{what}: recovery of a log the store wrote itself failed: {e}"),
                })
            },
        };
        let got = dump_store_data(&store, true);
        // candidate prefixes. Non-logged writes are in a recovered state only through a
        // snapshot taken after them: a candidate is "everything up to position q (the
        // snapshot), then only the logged operations up to position p". Without
        // non-logged writes in the history this is the plain prefix search.
        let mut m = self.base.clone();
        let mut matched: Option<usize> = None;
        let mut matched_below_ack: Option<usize> = None;
        let has_plain = self.hist.iter().any(|o| !o.durable());
        let note = |p: usize, matched: &mut Option<usize>, below: &mut Option<usize>| {
            if p >= self.ack {
                *matched = Some(matched.map_or(p, |x: usize| x.max(p)));
            } else {
                *below = Some(p);
            }
        };
        if maps_equiv(&m, &got, TOL) {
            note(0, &mut matched, &mut matched_below_ack);
        }
        for (i, op) in self.hist.iter().enumerate() {
            apply(&mut m, op);
            if maps_equiv(&m, &got, TOL) {
                note(i + 1, &mut matched, &mut matched_below_ack);
            }
        }
        if has_plain && matched.is_none() {
            // Keys written by non-logged calls are judged loosely. For a prefix of p
            // logged operations, such a key may hold what the logged prefix gives it, or
            // what any non-logged write issued after the key's last logged write of that
            // prefix gave it (it can have reached a snapshot): a non-logged write may
            // survive or vanish, but never undo a later logged write. All other keys
            // must equal the logged prefix exactly.
            let touched: std::collections::BTreeSet<&str> = self
                .hist
                .iter()
                .filter_map(|o| match o {
                    MOp::PlainPut(k, _) | MOp::PlainDel(k) => Some(k.as_str()),
                    _ => None,
                })
                .collect();
            let same = |a: Option<&TensorData>, b: Option<&TensorData>| match (a, b) {
                (None, None) => true,
                (Some(x), Some(y)) => crate::storeutil::data_equiv(x, y, TOL),
                _ => false,
            };
            for p in 0..=self.hist.len() {
                let mut c = self.base.clone();
                let mut last_logged: BTreeMap<&str, usize> = BTreeMap::new();
                for (i, op) in self.hist[..p].iter().enumerate() {
                    if op.durable() {
                        apply(&mut c, op);
                        if let MOp::Put(k, _) | MOp::Del(k) = op {
                            last_logged.insert(k.as_str(), i);
                        }
                    }
                }
                let keys: std::collections::BTreeSet<&str> = c.keys().map(String::as_str).chain(got.keys().map(String::as_str)).chain(touched.iter().copied()).collect();
                let ok = keys.iter().all(|k| {
                    let g = got.get(*k);
                    if same(c.get(*k), g) {
                        return true;
                    }
                    if !touched.contains(k) {
                        return false;
                    }
                    let from = last_logged.get(k).map_or(0, |i| i + 1);
                    self.hist[from..].iter().any(|o| match o {
                        MOp::PlainPut(kk, v) if kk == k => same(Some(v), g),
                        MOp::PlainDel(kk) if kk == k => g.is_none(),
                        _ => false,
                    })
                });
                if ok {
                    note(p, &mut matched, &mut matched_below_ack);
                }
            }
        }
        match matched {
            Some(p) => {
                if p < self.hist.len() {
                    self.ctx.probe("unacked_suffix_lost_legitimately");
                }
                // exists() must agree with the dump for every key of the universe
                for k in &all_keys() {
                    if k.starts_with("_cache:") {
                        continue;
                    }
                    if store.exists(k) != got.contains_key(*k) {
                        return Err(Violation {
                            class: "exists-scan-mismatch".into(),
                            detail: format!("{what}: exists({k})={} but scan/get says {}", store.exists(k), got.contains_key(*k)),
                        });
                    }
                }
                self.base = got;
                self.hist.clear();
                self.ack = 0;
                Ok(store)
            },
            None => {
                // a rotation that actually happened in this trial moved log records into
                // "<wal>.1", which recovery never reads (known finding, see known_findings.json)
                let rotated = (1..=4).any(|i| Path::new(&format!("{}.{i}", self.wal)).exists());
                if rotated {
                    self.ctx.probe("rotation_inside_run");
                }
                let rot = if rotated { "+after-rotation" } else { "" };
                if let Some(p) = matched_below_ack {
                    Err(Violation {
                        class: format!("acked-write-lost{rot}"),
                        detail: format!(
                            "{what}: recovered state equals the state after {p} of {} issued operations, but {} were acknowledged",
                            self.hist.len(),
                            self.ack
                        ),
                    })
                } else {
                    Err(Violation {
                        class: format!("not-a-prefix{rot}"),
                        detail: format!(
                            "{what}: recovered state matches no prefix of the {} issued operations (acked {}); recovered keys={:?}; diff against the full history: {}",
                            self.hist.len(),
                            self.ack,
                            got.keys().collect::<Vec<_>>(),
                            diff_maps(&canon_map(&m), &canon_map(&got))
                        ),
                    })
                }
            },
        }
    }

    fn cut_choice(cut: u64, lo: u64, hi: u64) -> u64 {
        match cut {
            0 => hi,
            1 => lo,
            n => lo + (n.wrapping_mul(0x9E37_79B9_7F4A_7C15) >> 33) % (hi - lo + 1),
        }
    }

    /// Run the program with the given chain of crashes. Returns the per-op
    /// syscall log of the first incarnation when `record` is set.
    fn run(&mut self, crashes: &[CrashSpec], record: bool) -> (Verdict, Vec<(usize, SysEvent)>) {
        let ctx = self.ctx;
        let cfg = wal_config(self.case);
        let mut syslog: Vec<(usize, SysEvent)> = Vec::new();
        let mut crash_iter = crashes.iter();
        let mut next_crash = crash_iter.next();
        if let Some(c) = next_crash {
            ctx.arm_crash(NODE, c.nth, c.bytes);
        }
        if record {
            ctx.start_sys_recording();
        }
        let mut store = match TensorStore::open_durable(&self.wal, cfg) {
            Ok(s) => s,
            Err(e) => {
                return (
                    Verdict::Bad(Violation { class: "open-failed".into(), detail: format!("open_durable: {e}") }),
                    syslog,
                )
            },
        };
        let ops = self.case.ops.clone();
        let mut i = 0;
        let mut incarnation = 0;
        while i <= ops.len() {
            let died = ctx.is_dead(NODE);
            if !died && i < ops.len() {
                self.exec_op(&store, &ops[i]);
                if record {
                    for e in ctx.take_sys_log() {
                        syslog.push((i, e));
                    }
                }
                if !ctx.is_dead(NODE) {
                    i += 1;
                    continue;
                }
            }
            // either the node died inside op i, or the program ended: shut down
            let crashed = ctx.is_dead(NODE);
            if !crashed {
                // clean end of program: the process exits; BufWriter drop flushes
                ctx.probe("clean_shutdown");
            } else {
                let ev = ctx.crash_fired();
                if let Some(ev) = &ev {
                    ctx.fault_fired("crash");
                    ctx.fp(&format!("crash:{}:{}", ev.kind, ev.path.rsplit('/').next().unwrap_or("")));
                    match (ev.kind, ev.path.ends_with(".tmp"), ev.path.ends_with(".wal")) {
                        ("write", false, true) => {
                            ctx.probe("crash_inside_log_write");
                        },
                        ("rename", true, _) => ctx.probe("crash_before_snapshot_rename"),
                        ("write", true, _) => ctx.probe("crash_inside_snapshot_write"),
                        ("open_trunc", _, true) => ctx.probe("crash_between_marker_and_truncate"),
                        ("fsync", _, _) => ctx.probe("crash_before_fsync"),
                        _ => {},
                    }
                    if let Some(Op::Checkpoint) = ops.get(i) {
                        ctx.probe("crash_inside_checkpoint");
                        if ev.kind == "write" && ev.path.ends_with(".wal") {
                            ctx.probe("crash_between_snapshot_rename_and_marker");
                        }
                    }
                }
            }
            drop(store);
            let cut = next_crash.map(|c| c.cut).unwrap_or(0);
            let wal_prefix = self.wal.clone();
            // power loss applies to the log files only; snapshot files follow the
            // process-crash model (see DESIGN §6 C02).
            let mut snapshot_unsynced = false;
            let cuts = ctx.crash_image(NODE, true, |p, lo, hi| {
                if p.starts_with(&wal_prefix) {
                    Self::cut_choice(cut, lo, hi)
                } else {
                    snapshot_unsynced = true;
                    hi
                }
            });
            if snapshot_unsynced {
                self.observations.push("observation(power-loss, outside C02's quantifier): a snapshot file had bytes that were never fsynced when the crash happened".to_string());
            }
            for (_p, old, new) in &cuts {
                if new < old {
                    ctx.fault_fired("power_loss_cut");
                }
            }
            let what = if crashed {
                format!("after crash #{incarnation} inside op {i} ({:?})", ops.get(i))
            } else {
                "after clean shutdown".to_string()
            };
            // torn tail present?
            if crashed {
                if let Ok(md) = std::fs::metadata(&self.wal) {
                    if md.len() > 0 {
                        ctx.probe("reopen_with_nonempty_log");
                    }
                }
            }
            next_crash = crash_iter.next();
            if let Some(c) = next_crash {
                ctx.arm_crash(NODE, c.nth, c.bytes);
            }
            match self.recover_and_check(&what) {
                Ok(s) => {
                    ctx.event(&format!("recovered {what}: {} keys", self.base.len()));
                    store = s;
                },
                Err(v) => return (Verdict::Bad(v), syslog),
            }
            if !crashed {
                break;
            }
            incarnation += 1;
            if incarnation >= 1 {
                ctx.probe("ops_after_recovery");
            }
            // the op during which the crash happened is not re-issued
            i += 1;
        }
        (Verdict::Ok, syslog)
    }
}

fn diff_maps(exp: &BTreeMap<String, String>, got: &BTreeMap<String, String>) -> String {
    let mut out = String::new();
    let short = |s: &str| if s.len() > 160 { format!("{}..(len {})", &s[..160], s.len()) } else { s.to_string() };
    for (k, v) in exp {
        match got.get(k) {
            None => out.push_str(&format!("[{k}: expected {} got <absent>] ", short(v))),
            Some(g) if g != v => {
                let pos = v.bytes().zip(g.bytes()).position(|(a, b)| a != b).unwrap_or(0);
                let from = pos.saturating_sub(20);
                out.push_str(&format!(
                    "[{k}: first difference at char {pos}: expected ..{} got ..{}] ",
                    short(&v[from..]),
                    short(&g[from..])
                ))
            },
            _ => {},
        }
    }
    for (k, g) in got {
        if !exp.contains_key(k) {
            out.push_str(&format!("[{k}: expected <absent> got {}] ", short(g)));
        }
    }
    out
}

fn sample_offsets(len: usize) -> Vec<usize> {
    if len <= 40 {
        return (0..len).collect();
    }
    let mut v: Vec<usize> = (0..12).collect();
    let step = (len - 12) / 12;
    let mut x = 12;
    while x < len {
        v.push(x);
        x += step.max(1);
    }
    v.push(len - 1);
    v.sort_unstable();
    v.dedup();
    v
}

impl Scenario for C02 {
    type Case = Case;
    fn id(&self) -> &'static str {
        "C02"
    }
    fn level(&self) -> &'static str {
        "fault_enumeration"
    }
    fn runs(&self, tier: Tier) -> u64 {
        match tier {
            Tier::Quick => 900,
            Tier::Thorough => 12_000,
        }
    }
    fn generate(&self, rng: &mut Rng, _tier: Tier, index: u64) -> Case {
        let sync = match rng.below(10) {
            0..=5 => 0,
            6..=7 => 1,
            _ => 2,
        };
        let n_ops = rng.range(2, 12) as usize;
        let nkeys = rng.range(1, KEY_UNIVERSE.len() as u64) as u8;
        let mut ops = Vec::new();
        let mut u = (index as u32) << 8;
        let ckpt_w = *rng.pick(&[0u64, 1, 2, 3]);
        // swarm: a quarter of the programs mix in non-logged writes, a quarter work on
        // five embedding keys
        let plain = rng.chance(1, 4);
        let many_emb = rng.chance(1, 3);
        // a sixth of the others use key names equal to a class word (no colon)
        let bare = !many_emb && rng.chance(1, 6);
        let key = |rng: &mut Rng| -> u8 {
            if many_emb && rng.chance(1, 2) {
                *rng.pick(&[2u8, 3, 200, 201, 202])
            } else if bare && rng.chance(1, 2) {
                *rng.pick(&[203u8, 203, 204, 205, 206, 207, 208, 209])
            } else {
                rng.below(u64::from(nkeys)) as u8
            }
        };
        for _ in 0..n_ops {
            u += 1;
            let r = rng.below(20);
            let op = if plain && r < 4 {
                let k = key(rng);
                let v = rng.below(10) as u8;
                if rng.chance(1, 3) {
                    Op::DelPlain { k }
                } else {
                    if rng.chance(1, 2) {
                        // the same value once more, this time through the durable call
                        ops.push(Op::PutPlain { k, v, u });
                        ops.push(Op::Put { k, v, u });
                        continue;
                    }
                    Op::PutPlain { k, v, u }
                }
            } else if r < 11 {
                Op::Put { k: key(rng), v: if many_emb && rng.chance(2, 3) { 10 } else { rng.below(12) as u8 }, u }
            } else if r < 15 {
                Op::Del { k: key(rng) }
            } else if r < 17 {
                Op::Sync
            } else if r < 17 + ckpt_w {
                Op::Checkpoint
            } else {
                Op::Put { k: rng.below(u64::from(nkeys)) as u8, v: rng.below(10) as u8, u }
            };
            ops.push(op);
        }
        // programs on many embedding keys: half of them start by filling three to five
        // embedding keys in order, deleting one of the earlier ones and taking a checkpoint
        // (an entity index with a hole in it goes into a snapshot)
        if many_emb && rng.chance(1, 2) {
            let mut ks = vec![2u8, 3, 200, 201, 202];
            let n = rng.range(3, 5) as usize;
            // a random order of creation
            for i in (1..ks.len()).rev() {
                let j = rng.usize_below(i + 1);
                ks.swap(i, j);
            }
            ks.truncate(n);
            let mut head = Vec::new();
            for k in &ks {
                u += 1;
                head.push(Op::Put { k: *k, v: 10, u });
            }
            head.push(Op::Del { k: ks[rng.usize_below(n - 1)] });
            if sync != 0 {
                head.push(Op::Sync);
            }
            head.push(Op::Checkpoint);
            head.extend(ops.drain(..));
            ops = head;
        }
        // periodic workloads: in a third of the batched/manual-sync programs the same
        // sequence of writes (same keys and value shapes, fresh values) is issued once more
        // after a sync + checkpoint and synced again, so that the log passes through the
        // same sizes twice
        if sync != 0 && rng.chance(3, 5) {
            let a: Vec<Op> = ops.iter().filter(|o| matches!(o, Op::Put { v, .. } if *v < 200) || matches!(o, Op::Del { .. })).take(5).cloned().collect();
            if !a.is_empty() {
                let mut again = a.clone();
                for o in &mut again {
                    if let Op::Put { u: uu, .. } = o {
                        u += 1;
                        *uu = u;
                    }
                }
                let mut p = a;
                p.push(Op::Sync);
                p.push(Op::Checkpoint);
                p.extend(again);
                p.push(Op::Sync);
                if rng.chance(1, 2) {
                    u += 1;
                    p.push(Op::Put { k: rng.below(u64::from(nkeys)) as u8, v: rng.below(10) as u8, u });
                }
                ops = p;
            }
        }
        // value-shape changes on one key: a fifth of the programs rewrite one key two to four
        // times with values of different families (embedding-carrying, scalar, container),
        // mostly delete it afterwards and mostly take a checkpoint (what the store keeps
        // beside the value - index registrations - has to follow every rewrite)
        if rng.chance(1, 5) {
            let k = if bare { *rng.pick(&[203u8, 204, 205, 207]) } else { rng.below(u64::from(nkeys)) as u8 };
            let mut frag = Vec::new();
            let mut fam = rng.below(3);
            for _ in 0..rng.range(2, 4) {
                u += 1;
                let v = match fam {
                    0 => *rng.pick(&[10u8, 11]),
                    1 => rng.below(6) as u8,
                    _ => rng.range(6, 9) as u8,
                };
                frag.push(Op::Put { k, v, u });
                fam = (fam + 1 + rng.below(2)) % 3;
            }
            if rng.chance(3, 4) {
                frag.push(Op::Del { k });
            }
            if rng.chance(3, 4) {
                frag.push(Op::Checkpoint);
            }
            let at = rng.usize_below(ops.len() + 1);
            for (i, o) in frag.into_iter().enumerate() {
                ops.insert(at + i, o);
            }
        }
        // rotation only in a minority of runs: it is a separate risk (see DESIGN)
        let max_size = if rng.chance(1, 8) { rng.range(300, 2500) } else { 512 << 20 };
        let mode = if rng.chance(3, 4) {
            Mode::Enumerate
        } else {
            let n = rng.range(1, 3);
            Mode::Chain(
                (0..n)
                    .map(|_| CrashSpec {
                        nth: rng.below(2 * n_ops as u64 + 2),
                        bytes: if rng.chance(1, 2) { Some(rng.below(60) as usize) } else { None },
                        cut: rng.below(6),
                    })
                    .collect(),
            )
        };
        // one very large value (a single log record of 12-18 MiB) in a few seeded-crash programs
        if mode != Mode::Enumerate && rng.chance(1, 5) {
            let at = rng.usize_below(ops.len() + 1);
            u += 1;
            ops.insert(at, Op::Put { k: *rng.pick(&[0u8, 1, 4, 8]), v: *rng.pick(&[201u8, 202, 202]), u });
        }
        let wal_flags = *rng.pick(&[0u8, 0, 0, 0, 1, 2, 3]);
        Case { sync, batch_n: rng.range(1, 4) as usize, max_size, ops, mode, wal_flags }
    }

    fn run(&self, case: &Case, ctx: &Arc<RunCtx>) -> RunOut {
        let mut out = RunOut::default();
        ctx.fp(&format!("sync{}:{:?}:{}", case.sync, case.mode == Mode::Enumerate, case.wal_flags));
        if case.wal_flags & 1 != 0 {
            ctx.probe("log_without_checksums");
        }
        match &case.mode {
            Mode::Chain(specs) => {
                let mut t = Trial::new(ctx, case, 0);
                let (v, _) = t.run(specs, false);
                out.observations.append(&mut t.observations);
                out.inner_evals = 1;
                out.nontrivial = ctx.lock().faults.get("crash").copied().unwrap_or(0) > 0;
                if let Verdict::Bad(v) = v {
                    out.violation = Some(v);
                }
            },
            Mode::Enumerate => {
                // dry run: no crash, record the syscalls
                let mut t = Trial::new(ctx, case, 0);
                let (v, syslog) = t.run(&[], true);
                out.inner_evals = 1;
                if let Verdict::Bad(v) = v {
                    out.violation = Some(v);
                    out.nontrivial = true;
                    return out;
                }
                ctx.lock().record_sys = false;
                let mut tag = 1;
                let cuts: &[u64] = if case.sync == 0 { &[0, 1] } else { &[0, 1, 7] };
                for (k, (_op, ev)) in syslog.iter().enumerate() {
                    ctx.fp(ev.kind);
                    let mut points: Vec<(Option<usize>, u64)> = Vec::new();
                    for c in cuts {
                        points.push((None, *c));
                    }
                    if ev.kind == "write" {
                        for b in sample_offsets(ev.len) {
                            if b > 0 {
                                points.push((Some(b), 0));
                            }
                        }
                    }
                    for (bytes, cut) in points {
                        let spec = CrashSpec { nth: k as u64, bytes, cut };
                        let mut t = Trial::new(ctx, case, tag);
                        tag += 1;
                        let (v, _) = t.run(std::slice::from_ref(&spec), false);
                        for o in t.observations.drain(..) {
                            if !out.observations.contains(&o) {
                                out.observations.push(o);
                            }
                        }
                        t.cleanup();
                        out.inner_evals += 1;
                        if let Verdict::Bad(mut v) = v {
                            v.detail = format!("{} [crash spec {:?}]", v.detail, spec);
                            out.violation = Some(v);
                            out.nontrivial = true;
                            let mut reduced = case.clone();
                            reduced.mode = Mode::Chain(vec![spec]);
                            out.reduced = serde_json::to_value(&reduced).ok();
                            return out;
                        }
                    }
                }
                out.nontrivial = syslog.len() >= 2;
            },
        }
        out
    }

    fn shrink(&self, case: &Case) -> Vec<Case> {
        let mut v = Vec::new();
        for ops in drop_chunks(&case.ops) {
            let mut c = case.clone();
            c.ops = ops;
            v.push(c);
        }
        if let Mode::Chain(specs) = &case.mode {
            for s in drop_chunks(specs) {
                if !s.is_empty() {
                    let mut c = case.clone();
                    c.mode = Mode::Chain(s);
                    v.push(c);
                }
            }
            for (i, s) in specs.iter().enumerate() {
                if s.nth > 0 {
                    let mut c = case.clone();
                    if let Mode::Chain(ss) = &mut c.mode {
                        ss[i].nth -= 1;
                    }
                    v.push(c);
                }
                if s.bytes.is_some() {
                    let mut c = case.clone();
                    if let Mode::Chain(ss) = &mut c.mode {
                        ss[i].bytes = None;
                    }
                    v.push(c);
                }
            }
        }
        if case.max_size < (512 << 20) {
            let mut c = case.clone();
            c.max_size = 512 << 20;
            v.push(c);
        }
        if case.sync != 0 {
            let mut c = case.clone();
            c.sync = 0;
            v.push(c);
        }
        if case.wal_flags != 0 {
            let mut c = case.clone();
            c.wal_flags = 0;
            v.push(c);
        }
        // simpler values
        for (i, op) in case.ops.iter().enumerate() {
            if let Op::Put { k, v: kind, u } = op {
                if *kind != 2 && *kind < 200 {
                    let mut c = case.clone();
                    c.ops[i] = Op::Put { k: *k, v: 2, u: *u };
                    v.push(c);
                }
            }
        }
        v
    }

    fn required_probes(&self) -> Vec<&'static str> {
        vec![
            "crash_inside_log_write",
            "reopen_with_nonempty_log",
            "ops_after_recovery",
            "crash_inside_checkpoint",
            "crash_between_marker_and_truncate",
            "crash_between_snapshot_rename_and_marker",
        ]
    }
    fn rule(&self) -> String {
        "A case is a generated program of <=12 durable put/delete/sync/checkpoint operations over all value kinds (a few seeded-crash programs with one 12-18 MiB value) and key classes (a quarter of the programs on five embedding keys), in a quarter of the programs mixed with the non-logged put/delete of the same store, plus a sync mode and log size limit; in Enumerate mode every mutating syscall boundary of the program (write, fsync, rename, open(O_TRUNC), unlink) and sampled byte offsets inside every write are each taken as a crash point (inner_enumerated_points counts these executions), each followed by recovery, the rest of the program on the recovered store and a second recovery; Chain mode runs 1-3 seeded crashes in one execution. Non-trivial: at least one crash fired (Chain) or the program issued >=2 mutating syscalls (Enumerate). Distinct: hash of (sync mode, mode, sequence of syscall kinds / crash sites).".into()
    }
    fn components(&self) -> Value {
        json!({
            "real": ["tensor_store::TensorStore (open_durable, put_durable, delete_durable, sync, checkpoint, recover)", "SlabRouter", "TensorWal incl. rotation", "snapshot v3 writer/loader", "std::fs / BufWriter"],
            "simulated": ["disk: libc write/fsync/rename/open/unlink/ftruncate interposed, files on tmpfs with durable-watermark bookkeeping", "process crash at a chosen syscall/byte; power loss cuts log files to a length between fsynced and written"],
            "stub": []
        })
    }
    fn assumptions(&self) -> Vec<String> {
        vec![
            "rename, unlink and truncation are atomic and durable at the instant of the syscall".into(),
            "power loss cuts files at byte-prefix granularity only; no reordering of blocks inside one file, no bit corruption".into(),
            "a checkpoint returning Ok is not treated as an acknowledgement (the statement lists only immediate-mode returns and explicit syncs)".into(),
            "_cache: keys are ignored in comparisons (documented non-durable)".into(),
            "non-logged put/delete on the durable store (kept off emb: keys) are documented as not durable: a recovered state may contain them only as a whole prefix (everything before a snapshot), never has to".into(),
        ]
    }
}

#[allow(dead_code)]
fn _unused(_: Value) {}
