//! C16 — The chain is tamper-evident; commits are atomic, concurrent-safe and
//! deterministic.
//!
//! Real `TensorChain` over a real `TensorStore`; real `TransactionWorkspace`s.
//! Three sub-configurations, chosen per case:
//!
//! (a) `Kind::Commits`: programs of begin/put/delete/commit/rollback over
//!     several workspaces (operations: every `Transaction` kind that
//!     `TransactionWorkspace::add_operation` accepts - key/value, embedding, graph
//!     node/edge, table row, compare-and-swap; commits that fail BEFORE anything
//!     is applied - conflict, wrong state, block size limit - and commits that
//!     fail AFTER the operations were applied, because `Chain::append` rejects the
//!     block while the proposer's key is out of the validator registry), either on one thread (sequential, the oracle is
//!     evaluated after every commit/rollback) or on 2-4 baton-scheduled threads
//!     (switches at operation boundaries and at the `chain.commit.*` hook sites
//!     inside `TensorChain::commit`); conflicting/orthogonal key sets and delta
//!     embeddings, auto-merge on and off. The chain's codebook / transition
//!     validation configuration is part of the case (`Validation`): the default
//!     empty codebook (the validator is never consulted) or a small
//!     `GlobalCodebook` built from the same directions the workspaces' delta
//!     embeddings use, so that auto-merge's `validate_transition` accepts some
//!     merged transitions and vetoes others.
//! (b) `Kind::Tamper`: a sequential program, then ONE storage fault on the
//!     stored block records (one field of one block altered, one record
//!     removed, two swapped, one forged and re-signed; or a coordinated
//!     alteration of two fields of one stored block: the boundary between two
//!     adjacent variable-length fields moved, a field truncated and its
//!     neighbour extended, two equal-length fields swapped, two transactions
//!     reordered; or the LENGTH of one variable-length field changed: bytes /
//!     characters / elements appended, the tail cut off, the field emptied - for
//!     the proposer signature, the proposer id, the code list, the delta embedding,
//!     every string / bytes / vector field of every stored transaction, the
//!     co-signature list and each co-signature's signer and signature), then
//!     `verify()`. A tamper case may first append one or two blocks that carry
//!     validator co-signatures through the public `TensorChain::new_block` /
//!     `Block::add_signature` / `TensorChain::append_block`.
//! (c) `Kind::Replay`: a sequential program, then the committed block sequence
//!     is fed to two real `TensorStateMachine` replicas, each living on its own
//!     OS thread (its own `HashMap` hash seeds from the simulated getrandom).

use crate::ctx::{install, RunCtx};
use crate::driver::{drop_chunks, RunOut, Scenario, Tier, Violation};
use crate::rng::Rng;
use crate::sched;
use crate::storeutil::{canon_map, dump_store, dump_store_data, hex};
use graph_engine::GraphEngine;
use serde::{Deserialize, Serialize};
use serde_json::{json, Value};
use std::collections::{BTreeMap, BTreeSet};
use std::sync::{Arc, Mutex};
use tensor_chain::block::{Block, Transaction, ValidatorSignature};
use tensor_chain::network::{MemoryTransport, Transport};
use tensor_chain::raft::{RaftConfig, RaftNode};
use tensor_chain::signing::{Identity, ValidatorRegistry};
use tensor_chain::transaction::{TransactionState, TransactionWorkspace};
use tensor_chain::{
    compute_state_root, Chain, ChainConfig, ChainError, CodebookConfig, GlobalCodebook, TensorChain, TensorStateMachine, ValidationConfig,
};
use tensor_store::{ScalarValue, SparseVector, TensorData, TensorStore, TensorValue};

#[derive(Serialize, Deserialize, Clone, Debug, PartialEq)]
pub enum Op {
    /// open workspace `ws` (a slot name); `dir` selects its delta embedding
    /// (0: none, i.e. invisible to conflict detection and auto-merge)
    Begin { ws: u8, dir: u8 },
    Put { ws: u8, k: u8, u: u32 },
    Del { ws: u8, k: u8 },
    Commit { ws: u8 },
    Rollback { ws: u8 },
    /// let simulated time pass (auto-merge only considers workspaces younger
    /// than its merge window)
    Advance { ms: u16 },
    /// any operation `TransactionWorkspace::add_operation` accepts (the case holds
    /// the transaction itself)
    Tx { ws: u8, tx: Transaction },
    /// the chain's own key in its validator registry
    /// (`TensorChain::validator_registry()`): removed (`present: false`) or put back.
    /// While it is out, `Chain::append` rejects every block above height 1
    /// ("unknown proposer") - after `commit` has applied the operations to the store.
    Validator { present: bool },
}

#[derive(Serialize, Deserialize, Clone, Debug, PartialEq)]
pub enum Tamper {
    /// alter one field (index into `FIELDS`) of the block stored at height h
    Field { h: u8, field: u8 },
    /// remove the record of height h
    Remove { h: u8 },
    /// swap the records of two heights
    Swap { a: u8, b: u8 },
    /// change the transactions of block h, recompute tx_root, re-sign the
    /// header: signer 0 = a key that is not a validator, 1 = the second
    /// registered validator (only with `second_validator`); `claim_own`: the
    /// forger also writes its own id into `proposer`
    Forge { h: u8, signer: u8, claim_own: bool },
    /// a coordinated alteration of TWO fields of one stored block (index into
    /// `RESHAPES`), which keeps the concatenation / the multiset of the field bytes;
    /// `pick` selects among the applicable places of the block
    Reshape { h: u8, kind: u8, pick: u16 },
    /// the LENGTH of one variable-length field of one stored block changed (`field`:
    /// index into `VARLEN`, `form`: index into `LENGTH_FORMS`); the contents that
    /// stay are untouched. `pick` selects among the places of that field kind in the
    /// block (which transaction / co-signature, which of its fields) and the appended unit
    Length { h: u8, field: u8, form: u8, pick: u16 },
}

#[derive(Serialize, Deserialize, Clone, Debug, PartialEq)]
pub enum Kind {
    Commits,
    Tamper(Tamper),
    /// `skew_ms`: replica B replays that much later than the origin committed
    /// (0 = at exactly the same simulated instants); `own_id`: replica B runs
    /// under its own node id instead of the origin's.
    /// `sm_b`: how replica B's state machine differs from A's default one (0 = not at
    /// all, 1 = fast-path threshold 0.999, 2 = the state machine object is created anew
    /// before every block, as after a restart, 3 = fast-path threshold 0). `bad_at` > 0:
    /// the sequence both replicas are fed also contains, before the block at that
    /// position (clipped; never the first), a copy of it whose state root is wrong,
    /// signed again by the proposer (a block sequence as a faulty proposer produces it).
    Replay {
        skew_ms: u16,
        own_id: bool,
        #[serde(default)]
        sm_b: u8,
        #[serde(default)]
        bad_at: u8,
    },
}

/// The chain's codebook and transition-validation configuration
/// (`TensorChain::with_codebook`). `commit` consults it in two places: auto-merge
/// asks `TransitionValidator::validate_transition(own delta -> own delta + sum of
/// the candidates merged so far + this candidate)` before it accepts a merge
/// candidate (only when the global codebook is non-empty), and the block's
/// `quantized_codes` come from `GlobalCodebook::quantize`.
#[derive(Serialize, Deserialize, Clone, Debug, PartialEq)]
pub struct Validation {
    /// centroids of the global codebook: each is the sum of the delta embeddings
    /// `delta_of(dir)` of the listed directions. No (non-zero) centroid = the
    /// default empty codebook ("learning mode", validation is skipped).
    pub centroids: Vec<Vec<u8>>,
    /// `ValidationConfig::state_threshold`, percent (default 80)
    pub state_pct: u8,
    /// `ValidationConfig::max_transition_magnitude`, tenths (default 10)
    pub max_mag_x10: u8,
    /// `ValidationConfig::strict_transition` = !lenient
    pub lenient: bool,
    /// the codebook has half the dimension of the workspaces' embeddings (every
    /// quantization fails: similarity 0)
    pub short_dim: bool,
}

impl Default for Validation {
    fn default() -> Self {
        Validation { centroids: Vec::new(), state_pct: 80, max_mag_x10: 10, lenient: false, short_dim: false }
    }
}

impl Validation {
    fn centroid_vectors(&self) -> Vec<Vec<f32>> {
        let dim = if self.short_dim { DIM / 2 } else { DIM };
        let mut out = Vec::new();
        for c in &self.centroids {
            let mut v = vec![0.0f32; DIM];
            for d in c {
                if let Some(e) = delta_of(*d) {
                    for (a, b) in v.iter_mut().zip(e.iter()) {
                        *a += *b;
                    }
                }
            }
            v.truncate(dim);
            if v.iter().any(|x| *x != 0.0) {
                out.push(v);
            }
        }
        out
    }
}

#[derive(Serialize, Deserialize, Clone, Debug)]
pub struct Case {
    pub kind: Kind,
    pub auto_merge: bool,
    /// codebook / transition validation of the chain (absent in older replay
    /// files: the default empty codebook)
    #[serde(default)]
    pub validation: Validation,
    /// private clock of the run (0 / absent in older replay files: off). The run's
    /// wall clock starts this many ms after the kernel's common start and moves 1 ms
    /// before every `begin`. Reason: `tensor_chain::tx_id::generate_tx_id` keeps its
    /// same-millisecond overflow counter in process-global statics, which the other
    /// worker threads of a batch (all on the same simulated epoch) race on; two ids
    /// drawn in the same millisecond therefore differ from execution to execution,
    /// with them the iteration order of `TransactionManager::active` and the order in
    /// which auto-merge examines candidates of equal similarity - and, with a
    /// validator that accepts one merged transition and vetoes the next, the outcome.
    /// With every id of the run drawn in a millisecond of its own that no other run
    /// uses, the counter is never consulted.
    #[serde(default)]
    pub epoch_ms: u64,
    /// `ChainConfig::max_txs_per_block` (0 / absent in older replay files: the
    /// library default of 1000, never reached). A small limit makes commits fail on
    /// the size of the workspace or of the merged block (before anything is applied,
    /// after auto-merge took its candidates).
    #[serde(default)]
    pub max_txs: u8,
    /// tamper cases: after the program, this many blocks (0-2) that carry validator
    /// co-signatures are appended through the public block interface
    /// (`TensorChain::new_block` .. `sign_and_build(identity())`, `Block::add_signature`,
    /// `TensorChain::append_block`); verify() must accept the chain before the storage
    /// fault is applied. (absent in older replay files: none)
    #[serde(default)]
    pub cosigned_blocks: u8,
    /// register a second validator identity with the chain
    pub second_validator: bool,
    /// one program per thread; one thread = sequential
    pub threads: Vec<Vec<Op>>,
    pub schedule: Vec<u8>,
}

pub struct C16;

const NKEYS: u8 = 6;
const DIM: usize = 128;
/// kinds of `Tamper::Reshape`
const RESHAPES: &[&str] = &[
    // the boundary between two adjacent variable-length fields of one stored
    // transaction moved (fixed-width fields in between slide along)
    "shift-within-tx",
    // the tail of the last variable-length field of one transaction cut off and
    // put in front of the first field of the next transaction, or the reverse
    "shift-across-txs",
    // two equal-length fields of one transaction swapped
    "swap-within-tx",
    // two equal-length fields of two transactions of the block swapped
    "swap-across-txs",
    // two (different) transactions of the block exchanged
    "tx-reorder",
    // two of the header's 32-byte fields (prev_hash, tx_root, state_root) swapped
    "header-swap",
    // the boundaries between the header's trailing fields quantized_codes |
    // timestamp | proposer moved
    "header-shift",
];
const FIELDS: &[&str] = &[
    "height",
    "prev_hash",
    "tx_root",
    "state_root",
    "delta_embedding",
    "quantized_codes",
    "timestamp",
    "proposer",
    "signature",
    "tx_data",
    "tx_dropped",
    "tx_added",
    "signatures",
    "tx_last_duplicated",
    "tx_all_dropped",
];
/// the variable-length fields of a stored block (`Tamper::Length`), each with the
/// name (out of `FIELDS`) under which an undetected alteration of it is classified
const VARLEN: &[(&str, &str)] = &[
    ("signature", "signature"),
    ("proposer", "proposer"),
    ("quantized_codes", "quantized_codes"),
    ("delta_embedding", "delta_embedding"),
    // every String field of every transaction (keys, labels, table names, ...)
    ("tx_string", "tx_data"),
    // every Vec<u8> field of every transaction (values, expected / new data)
    ("tx_bytes", "tx_data"),
    // every Vec<f32> field of every transaction
    ("tx_vector", "tx_data"),
    // the list of co-signatures, and the two variable-length fields of each entry
    ("cosignatures", "signatures"),
    ("cosignature_signature", "signatures"),
    ("cosignature_validator", "signatures"),
];
/// how the length changes: one unit (byte, character, code, f32, list entry) appended;
/// a second copy of the field's own contents appended; the last unit cut off; the
/// second half cut off; everything cut off
const LENGTH_FORMS: &[&str] = &["append-one", "append-copy", "truncate-one", "truncate-half", "empty"];

fn user_key(k: u8) -> String {
    format!("u:k{}", k % NKEYS)
}

fn lossy(b: &[u8]) -> String {
    String::from_utf8_lossy(b).into_owned()
}

fn tx_kind(tx: &Transaction) -> &'static str {
    match tx {
        Transaction::Put { .. } => "put",
        Transaction::Delete { .. } => "delete",
        Transaction::Embed { .. } => "embed",
        Transaction::NodeCreate { .. } => "node-create",
        Transaction::NodeDelete { .. } => "node-delete",
        Transaction::EdgeCreate { .. } => "edge-create",
        Transaction::TableInsert { .. } => "table-insert",
        Transaction::TableUpdate { .. } => "table-update",
        Transaction::TableDelete { .. } => "table-delete",
        Transaction::CompareAndSwap { .. } => "cas",
        _ => "other",
    }
}

fn tx_str(tx: &Transaction) -> String {
    match tx {
        Transaction::Put { key, data } => format!("put {key}={}", lossy(data)),
        Transaction::Delete { key } => format!("delete {key}"),
        Transaction::Embed { key, vector } => format!("embed {key}={vector:?}"),
        Transaction::NodeCreate { key, label } => format!("node-create {key} label {label}"),
        Transaction::NodeDelete { key } => format!("node-delete {key}"),
        Transaction::EdgeCreate { from, to, edge_type } => format!("edge-create {from}->{to} type {edge_type}"),
        Transaction::TableInsert { table, values } => format!("table-insert {table} values {}", lossy(values)),
        Transaction::TableUpdate { table, row_id, values } => format!("table-update {table} row {row_id} values {}", lossy(values)),
        Transaction::TableDelete { table, row_id } => format!("table-delete {table} row {row_id}"),
        Transaction::CompareAndSwap { key, expected_data, new_data } => {
            format!("cas {key}: {:?} -> {}", lossy(expected_data), lossy(new_data))
        },
        other => format!("{other:?}"),
    }
}

fn bytes_data(b: &[u8]) -> TensorData {
    let mut d = TensorData::new();
    d.set("data", TensorValue::Scalar(ScalarValue::Bytes(b.to_vec())));
    d
}

fn str_val(s: &str) -> TensorValue {
    TensorValue::Scalar(ScalarValue::String(s.to_string()))
}

/// Reference semantics of one committed operation on the store, as the
/// `Transaction` variants document it ("Store tensor data", "Delete ...", "Store
/// embedding vector" under `emb:{key}`, graph nodes under `node:{key}`, edges under
/// `edge:{from}:{to}:{type}`, table rows under `table:{table}:row:{row}`, "write
/// `new_data` only if current value equals `expected_data`"): the store keys the
/// operation writes, with the record it leaves (None: the key is absent afterwards).
fn model_apply(m: &mut BTreeMap<String, TensorData>, tx: &Transaction) {
    match tx {
        Transaction::Put { key, data } => {
            m.insert(key.clone(), bytes_data(data));
        },
        Transaction::Delete { key } => {
            m.remove(key);
        },
        Transaction::Embed { key, vector } => {
            let mut d = TensorData::new();
            d.set("vector", TensorValue::Vector(vector.clone()));
            m.insert(format!("emb:{key}"), d);
        },
        Transaction::NodeCreate { key, label } => {
            let mut d = TensorData::new();
            d.set("_id", str_val(key));
            d.set("_type", str_val("node"));
            d.set("_label", str_val(label));
            m.insert(format!("node:{key}"), d);
        },
        Transaction::NodeDelete { key } => {
            m.remove(&format!("node:{key}"));
        },
        Transaction::EdgeCreate { from, to, edge_type } => {
            let mut d = TensorData::new();
            d.set("_from", str_val(from));
            d.set("_to", str_val(to));
            d.set("_edge_type", str_val(edge_type));
            m.insert(format!("edge:{from}:{to}:{edge_type}"), d);
        },
        Transaction::TableInsert { table, values } => {
            // a new row named after the operation itself
            m.insert(format!("table:{table}:row:{}", hex(&tx.hash())), bytes_data(values));
        },
        Transaction::TableUpdate { table, row_id, values } => {
            m.insert(format!("table:{table}:row:{row_id}"), bytes_data(values));
        },
        Transaction::TableDelete { table, row_id } => {
            m.remove(&format!("table:{table}:row:{row_id}"));
        },
        Transaction::CompareAndSwap { key, expected_data, new_data } => {
            let cur: &[u8] = match m.get(key).and_then(|d| d.get("data")) {
                Some(TensorValue::Scalar(ScalarValue::Bytes(b))) => b.as_slice(),
                _ => &[],
            };
            if cur == expected_data.as_slice() {
                m.insert(key.clone(), bytes_data(new_data));
            }
        },
        _ => {},
    }
}

/// Keys the chain itself keeps in the store next to the data (block records,
/// height, the chain-link graph with its indexes); everything else is data.
fn is_chain_bookkeeping(k: &str) -> bool {
    let numeric = |rest: &str| rest.chars().next().is_some_and(|c| c.is_ascii_digit());
    k.starts_with("chain:")
        || k.starts_with("_graph")
        || k.strip_prefix("node:").is_some_and(numeric)
        || k.strip_prefix("edge:").is_some_and(numeric)
}

fn key_class(k: &str) -> &'static str {
    if is_chain_bookkeeping(k) {
        "chain-bookkeeping"
    } else if k.starts_with("table:") {
        "table-row"
    } else if k.starts_with("node:") {
        "graph-node"
    } else if k.starts_with("edge:") {
        "graph-edge"
    } else if k.starts_with("emb:") {
        "embedding"
    } else {
        "plain-key"
    }
}

/// first key (in key order) on which two canonical dumps differ
fn first_diff_key(a: &BTreeMap<String, String>, b: &BTreeMap<String, String>) -> Option<String> {
    let keys: BTreeSet<&String> = a.keys().chain(b.keys()).collect();
    keys.into_iter().find(|k| a.get(*k) != b.get(*k)).cloned()
}

fn data_dump(store: &TensorStore) -> BTreeMap<String, String> {
    dump_store(store, false).into_iter().filter(|(k, _)| !is_chain_bookkeeping(k)).collect()
}

/// Delta embeddings: 1..=3 pairwise orthogonal one-hot vectors (equal index =
/// cosine 1), 4 and 5 overlap with 1 (structural conflict / ambiguous). All
/// non-zero coordinates are below DIM / 2 (see `Validation::short_dim`).
fn delta_of(dir: u8) -> Option<Vec<f32>> {
    let mut v = vec![0.0f32; DIM];
    match dir % 6 {
        0 => return None,
        1 => v[10] = 1.0,
        2 => v[20] = 1.0,
        3 => v[30] = 1.0,
        4 => {
            v[10] = 1.0;
            v[20] = 3.0;
        },
        _ => {
            v[10] = 1.0;
            v[40] = 2.0;
            v[50] = 2.0;
        },
    }
    Some(v)
}

fn err_kind(e: &ChainError) -> String {
    match e {
        ChainError::ValidationFailed(m) => {
            if m.starts_with("expected height") {
                "ValidationFailed(expected height)".into()
            } else if m.starts_with("height ") {
                "ValidationFailed(height does not follow)".into()
            } else if m.starts_with("unknown proposer") {
                // the message names the node id
                "ValidationFailed(unknown proposer)".into()
            } else {
                format!("ValidationFailed({m})")
            }
        },
        ChainError::InvalidHash { .. } => "InvalidHash".into(),
        ChainError::BlockNotFound(_) => "BlockNotFound".into(),
        ChainError::TransactionFailed(m) => {
            if m.starts_with("cannot commit transaction in state") {
                format!("TransactionFailed({m})")
            } else if m.starts_with("cannot rollback") {
                "TransactionFailed(cannot rollback committed)".into()
            } else {
                "TransactionFailed".into()
            }
        },
        ChainError::ConflictDetected { .. } => "ConflictDetected".into(),
        other => {
            let s = format!("{other:?}");
            s.split(|c: char| c == '(' || c == '{' || c == ' ').next().unwrap_or("error").to_string()
        },
    }
}

struct WsRec {
    slot: u8,
    thread: usize,
    ws: Arc<TransactionWorkspace>,
    /// operations accepted by `add_operation`, in order
    ops: Vec<Transaction>,
    /// a commit call returned Ok while the workspace held >= 1 operation
    commit_ok: bool,
    /// a commit call returned Ok on an empty workspace (no block is due)
    commit_ok_empty: bool,
    commit_err: Option<String>,
    rollback_ok: bool,
    /// the workspace went from Active to Failed during ANOTHER workspace's commit
    /// call, without a commit call of its own having failed: auto-merge took it as
    /// a candidate and gave it up again (validator veto, or the merging commit failed)
    failed_by_other: bool,
}

struct World {
    ctx: Arc<RunCtx>,
    chain: TensorChain,
    recs: Mutex<Vec<WsRec>>,
    /// per thread: the record whose commit call is in progress
    in_commit: Mutex<Vec<Option<usize>>>,
    /// the chain was built with a non-empty global codebook
    codebook: bool,
    /// some commit call returned an error that `commit` raises after auto-merge took
    /// its candidates (anything but a conflict or a wrong workspace state): such a
    /// commit marks the workspaces it merged Failed as well
    late_commit_failure: Mutex<bool>,
    /// a violation found inside an operation (sequential mode: the run loop picks it up)
    pending: Mutex<Option<Violation>>,
    /// see `Case::epoch_ms`
    private_clock: bool,
    /// simulated wall clock (ns) at which each successful commit started
    commit_wall: Mutex<Vec<u64>>,
    concurrent: bool,
}

impl World {
    fn exec(&self, t: usize, slots: &mut BTreeMap<u8, usize>, op: &Op) {
        let ctx = &self.ctx;
        match op {
            Op::Begin { ws, dir } => {
                if slots.contains_key(ws) {
                    return;
                }
                if self.private_clock {
                    // no schedule point between here and the id generation inside begin
                    ctx.advance_ms(1);
                }
                match self.chain.begin() {
                    Ok(w) => {
                        if let Some(d) = delta_of(*dir) {
                            w.compute_delta(&d);
                        }
                        let mut recs = self.recs.lock().unwrap();
                        slots.insert(*ws, recs.len());
                        recs.push(WsRec {
                            slot: *ws,
                            thread: t,
                            ws: w,
                            ops: Vec::new(),
                            commit_ok: false,
                            commit_ok_empty: false,
                            commit_err: None,
                            rollback_ok: false,
                            failed_by_other: false,
                        });
                        drop(recs);
                        ctx.event(&format!("t{t} begin ws{ws} dir{}", dir % 6));
                    },
                    Err(e) => ctx.event(&format!("t{t} begin ws{ws} -> Err {}", err_kind(&e))),
                }
            },
            Op::Put { ws, k, u } => {
                let Some(&i) = slots.get(ws) else { return };
                let w = self.recs.lock().unwrap()[i].ws.clone();
                let tx = Transaction::Put { key: user_key(*k), data: format!("w{ws}#{u}").into_bytes() };
                let r = w.add_operation(tx.clone());
                if r.is_ok() {
                    self.recs.lock().unwrap()[i].ops.push(tx);
                }
                ctx.event(&format!("t{t} ws{ws} put {} #{u} -> {}", user_key(*k), if r.is_ok() { "ok" } else { "refused" }));
            },
            Op::Del { ws, k } => {
                let Some(&i) = slots.get(ws) else { return };
                let w = self.recs.lock().unwrap()[i].ws.clone();
                let tx = Transaction::Delete { key: user_key(*k) };
                let r = w.add_operation(tx.clone());
                if r.is_ok() {
                    self.recs.lock().unwrap()[i].ops.push(tx);
                }
                ctx.event(&format!("t{t} ws{ws} delete {} -> {}", user_key(*k), if r.is_ok() { "ok" } else { "refused" }));
            },
            Op::Tx { ws, tx } => {
                let Some(&i) = slots.get(ws) else { return };
                let w = self.recs.lock().unwrap()[i].ws.clone();
                let r = w.add_operation(tx.clone());
                if r.is_ok() {
                    self.recs.lock().unwrap()[i].ops.push(tx.clone());
                }
                ctx.event(&format!("t{t} ws{ws} {} -> {}", tx_str(tx), if r.is_ok() { "ok" } else { "refused" }));
            },
            Op::Validator { present } => {
                let reg = self.chain.validator_registry();
                if *present {
                    let r = reg.register_public_key(&self.chain.public_key_bytes());
                    ctx.event(&format!("t{t} own key registered again -> {}", if r.is_ok() { "ok" } else { "Err" }));
                } else {
                    let was = reg.remove(self.chain.node_id()).is_some();
                    if was {
                        ctx.probe("own_key_unregistered");
                    }
                    ctx.event(&format!("t{t} own key removed from the validator registry (was registered: {was})"));
                }
            },
            Op::Commit { ws } => {
                let Some(&i) = slots.get(ws) else { return };
                let (w, nops, table_ops) = {
                    let recs = self.recs.lock().unwrap();
                    (
                        recs[i].ws.clone(),
                        recs[i].ops.len(),
                        recs[i].ops.iter().any(|o| {
                            matches!(o, Transaction::TableInsert { .. } | Transaction::TableUpdate { .. } | Transaction::TableDelete { .. })
                        }),
                    )
                };
                // sequential mode: nothing else touches chain and store during the call
                let pre = if self.concurrent {
                    None
                } else {
                    Some((dump_store(self.chain.store(), false), self.chain.height(), self.chain.tip_hash()))
                };
                {
                    let mut ic = self.in_commit.lock().unwrap();
                    if ic.iter().enumerate().any(|(j, b)| j != t && b.is_some()) {
                        ctx.probe("concurrent_commits_overlapped");
                    }
                    ic[t] = Some(i);
                }
                let wall = ctx.lock().wall_ns;
                ctx.event(&format!("t{t} ws{ws} commit ..."));
                let r = self.chain.commit(&w);
                let busy: Vec<usize> = {
                    let mut ic = self.in_commit.lock().unwrap();
                    ic[t] = None;
                    ic.iter().flatten().copied().collect()
                };
                if let Err(e) = &r {
                    let early = matches!(e, ChainError::ConflictDetected { .. })
                        || matches!(e, ChainError::TransactionFailed(m) if m.starts_with("cannot commit transaction in state"));
                    if !early {
                        *self.late_commit_failure.lock().unwrap() = true;
                    }
                }
                // a failure of Chain::append (block rejected: proposer unknown to the registry,
                // height / tip moved): `commit` had applied the operations by then
                let after_apply = r.as_ref().err().is_some_and(|e| {
                    let k = err_kind(e);
                    k == "ValidationFailed(unknown proposer)" || k == "ValidationFailed(expected height)" || k == "InvalidHash"
                });
                if after_apply && nops > 0 {
                    ctx.probe("commit_failed_after_apply");
                    ctx.fp("late-failure");
                    if table_ops {
                        ctx.probe("commit_failed_after_apply_with_table_ops");
                    }
                    if nops > 1 {
                        ctx.probe("commit_failed_after_apply_multi_op");
                    }
                }
                if matches!(&r, Err(ChainError::TransactionFailed(m)) if m.contains("max_txs_per_block")) {
                    ctx.probe("commit_failed_on_block_size");
                }
                if let (Some((pre_dump, pre_height, pre_tip)), Err(e)) = (&pre, &r) {
                    // "or leaves chain and store untouched": the whole store, the height and
                    // the tip are what they were before the failed call
                    let post_dump = dump_store(self.chain.store(), false);
                    let phase = if after_apply { "after-apply" } else { "before-apply" };
                    let mut found: Option<Violation> = None;
                    if self.chain.height() != *pre_height || self.chain.tip_hash() != *pre_tip {
                        found = Some(Violation {
                            class: format!("failed-commit-changed-chain:{phase}{}", self.shape()),
                            detail: format!(
                                "commit of ws{ws} returned Err {} but height went from {pre_height} to {} (tip {})",
                                err_kind(e),
                                self.chain.height(),
                                if self.chain.tip_hash() == *pre_tip { "unchanged" } else { "changed" }
                            ),
                        });
                    } else if let Some(k) = first_diff_key(pre_dump, &post_dump) {
                        let n = pre_dump.keys().chain(post_dump.keys()).collect::<BTreeSet<_>>().into_iter().filter(|k| pre_dump.get(*k) != post_dump.get(*k)).count();
                        found = Some(Violation {
                            class: format!("failed-commit-changed-store:{phase}:{}{}", key_class(&k), self.shape()),
                            detail: format!(
                                "commit of ws{ws} ({nops} operations) returned Err {} but the store is not what it was before the call: {n} key(s) differ, first {k}: before {}, after {}",
                                err_kind(e),
                                pre_dump.get(&k).cloned().unwrap_or_else(|| "<absent>".into()),
                                post_dump.get(&k).cloned().unwrap_or_else(|| "<absent>".into())
                            ),
                        });
                    } else if after_apply {
                        ctx.probe("failed_commit_after_apply_left_store_untouched");
                    }
                    if let Some(v) = found {
                        let mut p = self.pending.lock().unwrap();
                        if p.is_none() {
                            *p = Some(v);
                        }
                    }
                }
                if let Err(e) = &r {
                    // "commit rejected by the validator": an error of the validation family
                    // that is not Chain::append's height/hash/signature check (the transition
                    // validator, not the validator registry)
                    let k = err_kind(e);
                    let validator = matches!(e, ChainError::InvalidTransition(_) | ChainError::CodebookError(_) | ChainError::MergeFailed(_))
                        || (k.starts_with("ValidationFailed(")
                            && !k.starts_with("ValidationFailed(expected height")
                            && !k.starts_with("ValidationFailed(height does not follow")
                            && !k.starts_with("ValidationFailed(unknown proposer")
                            && !k.contains("signature"));
                    if validator {
                        ctx.probe("commit_rejected_by_validator");
                        ctx.fp("commit-rejected");
                    }
                }
                let mut recs = self.recs.lock().unwrap();
                match &r {
                    Ok(_) => {
                        if nops > 0 {
                            if !recs[i].commit_ok {
                                self.commit_wall.lock().unwrap().push(wall);
                            }
                            recs[i].commit_ok = true;
                        } else {
                            recs[i].commit_ok_empty = true;
                        }
                    },
                    Err(e) => {
                        if recs[i].commit_err.is_none() {
                            recs[i].commit_err = Some(err_kind(e));
                        }
                    },
                }
                // the call just finished (any thread's) may have given up merge candidates; a
                // workspace whose own commit call is still in progress is looked at when that
                // call returns
                for j in 0..recs.len() {
                    if j == i || !busy.contains(&j) {
                        self.note_failed_by_other(&mut recs, j, &format!("seen after the commit call of ws{ws}"));
                    }
                }
                drop(recs);
                ctx.event(&format!(
                    "t{t} ws{ws} commit -> {} (height now {})",
                    match &r {
                        Ok(_) => "Ok".to_string(),
                        Err(e) => format!("Err {}", err_kind(e)),
                    },
                    self.chain.height()
                ));
            },
            Op::Rollback { ws } => {
                let Some(&i) = slots.get(ws) else { return };
                let w = {
                    let mut recs = self.recs.lock().unwrap();
                    // rollback turns Failed into RolledBack: look before
                    self.note_failed_by_other(&mut recs, i, "seen before its rollback");
                    recs[i].ws.clone()
                };
                let r = self.chain.rollback(&w);
                if r.is_ok() {
                    self.recs.lock().unwrap()[i].rollback_ok = true;
                }
                ctx.event(&format!(
                    "t{t} ws{ws} rollback -> {}",
                    match &r {
                        Ok(()) => "Ok".to_string(),
                        Err(e) => format!("Err {}", err_kind(e)),
                    }
                ));
            },
            Op::Advance { ms } => {
                ctx.advance_ms(u64::from(*ms));
                ctx.event(&format!("t{t} advance {ms}ms"));
            },
        }
    }

    /// Workspace `j` is Failed although no commit call of its own has failed (its own
    /// call can only have told it "cannot commit transaction in state Failed"): some
    /// other workspace's commit took it as an auto-merge candidate and gave it up.
    fn note_failed_by_other(&self, recs: &mut [WsRec], j: usize, when: &str) {
        let ctx = &self.ctx;
        let r = &mut recs[j];
        let own_failure = r.commit_err.as_deref().is_some_and(|e| !e.starts_with("TransactionFailed(cannot commit transaction in state"));
        if r.failed_by_other || own_failure || r.ws.state() != TransactionState::Failed {
            return;
        }
        r.failed_by_other = true;
        ctx.event(&format!("  ws{} is Failed without a failed commit call of its own ({when})", r.slot));
        if self.codebook && !*self.late_commit_failure.lock().unwrap() {
            // "merge vetoed by the validator": no commit failed after it had taken its merge
            // candidates (that fails the merged workspaces too), so the veto is the only way
            ctx.probe("merge_vetoed_by_validator");
            ctx.fp("veto");
            if !r.ops.is_empty() {
                ctx.probe("merge_vetoed_candidate_had_writes");
            }
        } else {
            ctx.probe("merge_candidate_failed_otherwise");
        }
    }

    /// End of the program: put the chain's own key back if the program left it out
    /// (true if it did).
    fn ensure_own_key_registered(&self) -> bool {
        let reg = self.chain.validator_registry();
        if reg.contains(self.chain.node_id()) {
            return false;
        }
        let _ = reg.register_public_key(&self.chain.public_key_bytes());
        self.ctx.event("end of program: own key registered again");
        true
    }

    /// root-cause shape that goes into violation classes: execution mode and
    /// which risky events happened in the run so far
    fn shape(&self) -> String {
        let recs = self.recs.lock().unwrap();
        let mut s = String::from(if self.concurrent { "[conc" } else { "[seq" });
        if recs.iter().any(|r| r.rollback_ok) {
            s.push_str("+rollback");
        }
        if recs.iter().any(|r| {
            r.commit_err.as_deref().is_some_and(|e| e.starts_with("ValidationFailed(expected height") || e == "InvalidHash")
        }) {
            s.push_str("+append-lost");
        }
        if recs.iter().any(|r| r.commit_err.as_deref() == Some("ValidationFailed(unknown proposer)")) {
            s.push_str("+append-rejected");
        }
        if recs.iter().any(|r| r.failed_by_other) {
            s.push_str("+merge-candidate-failed");
        }
        s.push(']');
        s
    }

    /// Oracle (a). `when` goes into the detail only.
    fn judge(&self, when: &str) -> Option<Violation> {
        let shape = self.shape();
        let v = |inv: &str, detail: String| Some(Violation { class: format!("{inv}{shape}"), detail: format!("{when}: {detail}") });
        let chain = &self.chain;
        let recs = self.recs.lock().unwrap();
        let height = chain.height();

        // "integrity verification succeeds on any chain built through the public interface"
        // Narrow relaxation: while the proposer's own key is out of the validator registry
        // (Op::Validator) verification cannot check the blocks' signatures and is expected
        // to refuse; the clause is evaluated again once the key is back (end of every run).
        if chain.validator_registry().contains(chain.node_id()) {
            if let Err(e) = chain.verify() {
                return v(
                    "verify-fails-on-untampered-chain",
                    format!("verify() = Err {} on a chain built only through begin/put/delete/commit/rollback (height {height})", err_kind(&e)),
                );
            }
        } else {
            self.ctx.probe("judged_with_own_key_unregistered");
        }
        // "A transaction workspace ... becomes one new block": one block per commit that returned Ok
        let n_ok = recs.iter().filter(|r| r.commit_ok).count() as u64;
        if height != n_ok {
            return v("height-differs-from-ok-commits", format!("height() = {height} but {n_ok} commits of non-empty workspaces returned Ok"));
        }
        // "Blocks form a single sequence": every block up to the height is readable
        let mut blocks: Vec<Block> = Vec::new();
        for h in 0..=height {
            match chain.get_block(h) {
                Ok(Some(b)) => {
                    if b.header.height != h {
                        return v("block-at-wrong-height", format!("get_block({h}) returned a block whose header says height {}", b.header.height));
                    }
                    blocks.push(b);
                },
                Ok(None) => return v("block-unreadable", format!("get_block({h}) = None although height() = {height}")),
                Err(e) => return v("block-unreadable", format!("get_block({h}) = Err {} although height() = {height}", err_kind(&e))),
            }
        }
        // "each block names the hash of its predecessor and the root of its transactions"
        for h in 1..blocks.len() {
            if blocks[h].header.prev_hash != blocks[h - 1].hash() {
                return v("prev-hash-wrong", format!("block {h} does not name the hash of block {}", h - 1));
            }
            if blocks[h].header.tx_root != blocks[h].compute_tx_root() {
                return v("tx-root-wrong", format!("block {h}: tx_root is not the root of its transactions"));
            }
        }

        // "containing each committed workspace once": decompose every block into whole workspaces
        // candidates in order of preference, so that workspaces with identical operation
        // lists (e.g. a lone delete of the same key) are assigned in the way that satisfies
        // the property if any assignment does: reported committed first, then committed
        // through a merge (state Committed), then the rest
        let rank = |r: &WsRec| {
            if r.commit_ok {
                0u8
            } else if !r.rollback_ok && r.ws.state() == TransactionState::Committed {
                1
            } else {
                2
            }
        };
        let mut order: Vec<usize> = (0..recs.len()).filter(|i| !recs[*i].ops.is_empty()).collect();
        order.sort_by_key(|i| (rank(&recs[*i]), usize::MAX - recs[*i].ops.len(), *i));
        let mut placed: BTreeMap<usize, u64> = BTreeMap::new();
        // first an assignment over all blocks at once that satisfies the clause exactly:
        // every workspace that counts as committed in exactly one block, no other workspace
        // in any (a block-by-block choice can give an interchangeable operation list, e.g. a
        // lone delete of the same key, to the wrong block and then miss it later)
        let eligible: Vec<usize> = order.iter().copied().filter(|i| rank(&recs[*i]) <= 1).collect();
        let txlists: Vec<&[Transaction]> = blocks.iter().skip(1).map(|b| b.transactions.as_slice()).collect();
        let exact = assign_all(&txlists, 0, 0, false, &eligible, &recs, &mut placed);
        if !exact {
            placed.clear();
        }
        // otherwise block by block, to name what is wrong
        for (h, b) in blocks.iter().enumerate().skip(1) {
            if exact {
                break;
            }
            let txs = &b.transactions;
            let mut used: Vec<usize> = Vec::new();
            if !decompose(txs, 0, &order, &recs, &placed, &mut used) {
                // explain: which workspace's writes are there, partially or again?
                let mut why = String::new();
                for (i, r) in recs.iter().enumerate() {
                    let n = r.ops.iter().filter(|o| txs.contains(o)).count();
                    if n > 0 {
                        why.push_str(&format!(
                            "[ws{} (thread {}): {n} of its {} operations in this block{}] ",
                            r.slot,
                            r.thread,
                            r.ops.len(),
                            placed.get(&i).map(|p| format!(", already wholly in block {p}")).unwrap_or_default()
                        ));
                    }
                }
                let again = recs.iter().enumerate().any(|(i, r)| {
                    placed.contains_key(&i) && r.ops.iter().any(|o| !matches!(o, Transaction::Delete { .. } | Transaction::NodeDelete { .. } | Transaction::TableDelete { .. }) && txs.contains(o))
                });
                return v(
                    if again { "workspace-in-two-blocks" } else { "block-is-not-a-set-of-whole-workspaces" },
                    format!("block {h} ({} transactions) is not a concatenation of whole workspaces not yet in the chain: {why}", txs.len()),
                );
            }
            for i in used {
                placed.insert(i, h as u64);
            }
        }
        for (h, b) in blocks.iter().enumerate().skip(1) {
            if placed.values().filter(|p| **p == h as u64).count() > 1 {
                self.ctx.probe("auto_merge_merged");
                if self.codebook {
                    self.ctx.probe("merge_accepted_by_validator");
                }
            }
            if !b.header.quantized_codes.is_empty() {
                self.ctx.probe("block_carries_quantized_code");
            }
        }
        for (i, r) in recs.iter().enumerate() {
            if r.ops.is_empty() {
                continue;
            }
            let st = r.ws.state();
            let inb = placed.get(&i);
            if r.commit_ok && inb.is_none() {
                return v("committed-workspace-not-in-chain", format!("commit of ws{} returned Ok but none of the blocks holds its writes", r.slot));
            }
            if r.rollback_ok {
                // "or leaves chain and store untouched"
                if let Some(h) = inb {
                    return v(
                        "rolled-back-workspace-in-block",
                        format!("rollback of ws{} returned Ok but block {h} holds its writes (final state {st:?})", r.slot),
                    );
                }
            } else if !r.commit_ok {
                if st == TransactionState::Committed {
                    // auto-merge reports through the workspace state: the owner's own
                    // commit call fails ("cannot commit transaction in state ..."), the
                    // workspace was committed as part of somebody else's block
                    if inb.is_none() {
                        return v(
                            "committed-workspace-not-in-chain",
                            format!("ws{} is in state Committed (merged into another commit) but none of the blocks holds its writes", r.slot),
                        );
                    }
                    self.ctx.probe("workspace_committed_by_merge");
                } else if let Some(h) = inb {
                    return v(
                        "uncommitted-workspace-in-block",
                        format!(
                            "ws{} (commit result {:?}, final state {st:?}) was never reported committed but block {h} holds its writes",
                            r.slot, r.commit_err
                        ),
                    );
                }
            }
        }

        // "with all its writes applied to the store" / "the store equals the reference map
        // obtained by applying the blocks in chain order": every key of the store that is not
        // the chain's own bookkeeping, against the reference semantics of the operations
        let mut reference: BTreeMap<String, TensorData> = BTreeMap::new();
        for b in blocks.iter().skip(1) {
            for tx in &b.transactions {
                model_apply(&mut reference, tx);
                match tx {
                    Transaction::TableInsert { .. } | Transaction::TableUpdate { .. } | Transaction::TableDelete { .. } => self.ctx.probe("block_with_table_op"),
                    Transaction::NodeCreate { .. } | Transaction::NodeDelete { .. } | Transaction::EdgeCreate { .. } => self.ctx.probe("block_with_graph_op"),
                    Transaction::Embed { .. } => self.ctx.probe("block_with_embed_op"),
                    Transaction::CompareAndSwap { .. } => self.ctx.probe("block_with_cas_op"),
                    _ => {},
                }
            }
        }
        let reference = canon_map(&reference);
        let got = data_dump(chain.store());
        if let Some(k) = first_diff_key(&got, &reference) {
            let show = |m: &BTreeMap<String, String>| m.iter().map(|(k, v)| format!("{k}={v}")).collect::<Vec<_>>().join(", ");
            // "each failed or rolled-back workspace's writes appear ... in no store key": does a
            // differing key hold what an operation of a workspace that is in no block writes?
            let mut foreign = false;
            for r in recs.iter() {
                if !r.commit_ok && r.ws.state() != TransactionState::Committed {
                    for o in &r.ops {
                        let mut m = BTreeMap::new();
                        model_apply(&mut m, o);
                        for (wk, wv) in canon_map(&m) {
                            if got.get(&wk) == Some(&wv) && reference.get(&wk) != Some(&wv) {
                                foreign = true;
                            }
                        }
                    }
                }
            }
            return v(
                // (plain keys keep the class names of earlier versions of this scenario)
                &format!(
                    "{}{}",
                    if foreign { "uncommitted-write-in-store" } else { "store-differs-from-blocks" },
                    if key_class(&k) == "plain-key" { String::new() } else { format!(":{}", key_class(&k)) }
                ),
                format!(
                    "first differing key {k}: store {}, blocks {}; store data keys {{{}}} but applying blocks 1..={height} in order gives {{{}}}",
                    got.get(&k).cloned().unwrap_or_else(|| "<absent>".into()),
                    reference.get(&k).cloned().unwrap_or_else(|| "<absent>".into()),
                    show(&got),
                    show(&reference)
                ),
            );
        }
        None
    }
}

/// Can the blocks `blocks[bi..]` (from position `pos` of block `bi` on) be written as
/// concatenations of the operation lists of distinct workspaces out of `cands`, each
/// block of at least one, so that in the end every candidate is in exactly one block?
/// `placed` maps the chosen workspaces to their block heights (block `bi` = height bi + 1).
fn assign_all(
    blocks: &[&[Transaction]],
    bi: usize,
    pos: usize,
    any_in_block: bool,
    cands: &[usize],
    recs: &[WsRec],
    placed: &mut BTreeMap<usize, u64>,
) -> bool {
    if bi == blocks.len() {
        return cands.iter().all(|i| placed.contains_key(i));
    }
    let txs = blocks[bi];
    if pos == txs.len() {
        return any_in_block && assign_all(blocks, bi + 1, 0, false, cands, recs, placed);
    }
    for &i in cands {
        if placed.contains_key(&i) {
            continue;
        }
        let ops = &recs[i].ops;
        if txs.len() - pos >= ops.len() && txs[pos..pos + ops.len()] == ops[..] {
            placed.insert(i, bi as u64 + 1);
            if assign_all(blocks, bi, pos + ops.len(), true, cands, recs, placed) {
                return true;
            }
            placed.remove(&i);
        }
    }
    false
}

/// Can `txs[pos..]` be written as a concatenation of the operation lists of
/// distinct workspaces that are not placed yet? (`order`: candidates, committed
/// ones first, so that interchangeable workspaces are assigned favourably.)
fn decompose(txs: &[Transaction], pos: usize, order: &[usize], recs: &[WsRec], placed: &BTreeMap<usize, u64>, used: &mut Vec<usize>) -> bool {
    if pos == txs.len() {
        return !used.is_empty();
    }
    for &i in order {
        if placed.contains_key(&i) || used.contains(&i) {
            continue;
        }
        let ops = &recs[i].ops;
        if txs.len() - pos >= ops.len() && txs[pos..pos + ops.len()] == ops[..] {
            used.push(i);
            if decompose(txs, pos + ops.len(), order, recs, placed, used) {
                return true;
            }
            used.pop();
        }
    }
    false
}

/// An Ed25519 identity whose secret comes from the run's simulated random
/// stream. (`Identity::generate` reads the OS through the raw getrandom
/// syscall of the `getrandom 0.2` crate, which the kernel does not interpose,
/// so it would make node ids, signatures and block hashes differ between two
/// executions of the same case.)
fn sim_identity(ctx: &RunCtx) -> Identity {
    let mut b = [0u8; 32];
    ctx.lock().rand.fill(&mut b);
    Identity::from_bytes(&b).expect("Identity::from_bytes is infallible")
}

fn block_key(h: u64) -> String {
    format!("chain:block:{h}")
}

fn write_block(store: &TensorStore, h: u64, b: &Block) -> Result<(), String> {
    let key = block_key(h);
    let mut rec = store.get(&key).map_err(|e| format!("get {key}: {e}"))?;
    let bytes = bitcode::serialize(b).map_err(|e| format!("serialize: {e}"))?;
    rec.set("_block", TensorValue::Scalar(ScalarValue::Bytes(bytes)));
    store.put(&key, rec).map_err(|e| format!("put {key}: {e}"))
}

/// Kind of a transaction field, for alterations that move bytes between fields.
#[derive(Clone, Copy, PartialEq, Debug)]
enum Fk {
    /// variable length, UTF-8
    Str,
    /// variable length
    Bytes,
    /// variable length, a multiple of 4 (f32 list)
    F32s,
    /// 8 bytes (u64, little endian)
    U64,
}

impl Fk {
    fn admits(self, b: &[u8]) -> bool {
        match self {
            Fk::Str => std::str::from_utf8(b).is_ok(),
            Fk::Bytes => true,
            Fk::F32s => b.len() % 4 == 0,
            Fk::U64 => b.len() == 8,
        }
    }
}

/// The fields of a stored transaction in declaration order, as bytes.
fn tx_fields(tx: &Transaction) -> Vec<(Vec<u8>, Fk)> {
    let s = |x: &String| (x.as_bytes().to_vec(), Fk::Str);
    let b = |x: &Vec<u8>| (x.clone(), Fk::Bytes);
    let n = |x: &u64| (x.to_le_bytes().to_vec(), Fk::U64);
    match tx {
        Transaction::Put { key, data } => vec![s(key), b(data)],
        Transaction::Delete { key } | Transaction::NodeDelete { key } => vec![s(key)],
        Transaction::Embed { key, vector } => vec![s(key), (vector.iter().flat_map(|f| f.to_le_bytes()).collect(), Fk::F32s)],
        Transaction::NodeCreate { key, label } => vec![s(key), s(label)],
        Transaction::EdgeCreate { from, to, edge_type } => vec![s(from), s(to), s(edge_type)],
        Transaction::TableInsert { table, values } => vec![s(table), b(values)],
        Transaction::TableUpdate { table, row_id, values } => vec![s(table), n(row_id), b(values)],
        Transaction::TableDelete { table, row_id } => vec![s(table), n(row_id)],
        Transaction::CompareAndSwap { key, expected_data, new_data } => vec![s(key), b(expected_data), b(new_data)],
        _ => Vec::new(),
    }
}

/// The same variant with other field contents (None: a field does not admit its bytes).
fn tx_with_fields(tx: &Transaction, f: &[Vec<u8>]) -> Option<Transaction> {
    let kinds: Vec<Fk> = tx_fields(tx).into_iter().map(|x| x.1).collect();
    if kinds.len() != f.len() || kinds.iter().zip(f.iter()).any(|(k, b)| !k.admits(b)) {
        return None;
    }
    let s = |i: usize| String::from_utf8(f[i].clone()).unwrap_or_default();
    let n = |i: usize| {
        let mut a = [0u8; 8];
        a.copy_from_slice(&f[i]);
        u64::from_le_bytes(a)
    };
    Some(match tx {
        Transaction::Put { .. } => Transaction::Put { key: s(0), data: f[1].clone() },
        Transaction::Delete { .. } => Transaction::Delete { key: s(0) },
        Transaction::NodeDelete { .. } => Transaction::NodeDelete { key: s(0) },
        Transaction::Embed { .. } => Transaction::Embed {
            key: s(0),
            vector: f[1].chunks(4).map(|c| f32::from_le_bytes([c[0], c[1], c[2], c[3]])).collect(),
        },
        Transaction::NodeCreate { .. } => Transaction::NodeCreate { key: s(0), label: s(1) },
        Transaction::EdgeCreate { .. } => Transaction::EdgeCreate { from: s(0), to: s(1), edge_type: s(2) },
        Transaction::TableInsert { .. } => Transaction::TableInsert { table: s(0), values: f[1].clone() },
        Transaction::TableUpdate { .. } => Transaction::TableUpdate { table: s(0), row_id: n(1), values: f[2].clone() },
        Transaction::TableDelete { .. } => Transaction::TableDelete { table: s(0), row_id: n(1) },
        Transaction::CompareAndSwap { .. } => Transaction::CompareAndSwap { key: s(0), expected_data: f[1].clone(), new_data: f[2].clone() },
        _ => return None,
    })
}

/// amounts by which a field boundary is moved (positive: the earlier field grows)
const SHIFTS: &[i64] = &[1, -1, 2, -2, 4, -4, 3, -3, 8, -8];

/// All transactions obtained from `tx` by moving the boundary between two
/// variable-length fields that are adjacent or separated by fixed-width fields only
/// (those keep their width and slide along): the concatenation of the field bytes
/// stays what it was.
fn shifts_within(tx: &Transaction) -> Vec<Transaction> {
    let fs = tx_fields(tx);
    let mut out = Vec::new();
    for i in 0..fs.len() {
        if fs[i].1 == Fk::U64 {
            continue;
        }
        for j in i + 1..fs.len() {
            if fs[j].1 != Fk::U64 {
                let cat: Vec<u8> = fs[i..=j].iter().flat_map(|f| f.0.iter().copied()).collect();
                let fixed = 8 * (j - i - 1) as i64;
                for d in SHIFTS {
                    let li = fs[i].0.len() as i64 + d;
                    let lj = cat.len() as i64 - li - fixed;
                    if li < 0 || lj < 0 {
                        continue;
                    }
                    let mut nf: Vec<Vec<u8>> = fs.iter().map(|f| f.0.clone()).collect();
                    let mut pos = 0usize;
                    for (k, slot) in nf.iter_mut().enumerate().take(j + 1).skip(i) {
                        let len = if k == i { li as usize } else if k == j { lj as usize } else { 8 };
                        *slot = cat[pos..pos + len].to_vec();
                        pos += len;
                    }
                    if let Some(t) = tx_with_fields(tx, &nf) {
                        if t != *tx {
                            out.push(t);
                        }
                    }
                }
                break;
            }
        }
    }
    out
}

/// All pairs obtained from two consecutive transactions by cutting the tail off the
/// last variable-length field of the first and putting it in front of the first
/// field of the second, or the reverse.
fn shifts_across(a: &Transaction, b: &Transaction) -> Vec<(Transaction, Transaction)> {
    let (fa, fb) = (tx_fields(a), tx_fields(b));
    let mut out = Vec::new();
    let Some(ia) = (0..fa.len()).rev().find(|i| fa[*i].1 != Fk::U64) else { return out };
    let Some(ib) = (0..fb.len()).find(|i| fb[*i].1 != Fk::U64) else { return out };
    for d in SHIFTS {
        let mut na: Vec<Vec<u8>> = fa.iter().map(|f| f.0.clone()).collect();
        let mut nb: Vec<Vec<u8>> = fb.iter().map(|f| f.0.clone()).collect();
        if *d < 0 {
            // a's field loses its tail to b's field
            let n = (-*d) as usize;
            if na[ia].len() < n {
                continue;
            }
            let keep = na[ia].len() - n;
            let tail = na[ia].split_off(keep);
            nb[ib].splice(0..0, tail);
        } else {
            let n = *d as usize;
            if nb[ib].len() < n {
                continue;
            }
            let head: Vec<u8> = nb[ib].drain(0..n).collect();
            na[ia].extend(head);
        }
        if let (Some(x), Some(y)) = (tx_with_fields(a, &na), tx_with_fields(b, &nb)) {
            out.push((x, y));
        }
    }
    out
}

/// All versions of the transaction list with two equal-length, different fields
/// exchanged: of one transaction (`across == false`) or of two.
fn swaps(txs: &[Transaction], across: bool) -> Vec<Vec<Transaction>> {
    let fields: Vec<Vec<(Vec<u8>, Fk)>> = txs.iter().map(tx_fields).collect();
    let mut out = Vec::new();
    for a in 0..txs.len() {
        for b in a..txs.len() {
            if across == (a == b) {
                continue;
            }
            for i in 0..fields[a].len() {
                for j in 0..fields[b].len() {
                    if (a == b && j <= i) || fields[a][i].0.len() != fields[b][j].0.len() || fields[a][i].0 == fields[b][j].0 {
                        continue;
                    }
                    let mut na: Vec<Vec<u8>> = fields[a].iter().map(|f| f.0.clone()).collect();
                    let mut nb: Vec<Vec<u8>> = fields[b].iter().map(|f| f.0.clone()).collect();
                    if a == b {
                        na.swap(i, j);
                        if let Some(x) = tx_with_fields(&txs[a], &na) {
                            let mut v = txs.to_vec();
                            v[a] = x;
                            out.push(v);
                        }
                    } else {
                        std::mem::swap(&mut na[i], &mut nb[j]);
                        if let (Some(x), Some(y)) = (tx_with_fields(&txs[a], &na), tx_with_fields(&txs[b], &nb)) {
                            let mut v = txs.to_vec();
                            v[a] = x;
                            v[b] = y;
                            out.push(v);
                        }
                    }
                }
            }
        }
    }
    out
}

/// All alterations of kind `kind` (index into `RESHAPES`) of one block, each with
/// the shape that goes into the violation class.
fn reshapes(b: &Block, kind: usize) -> Vec<(Block, String)> {
    let mut out: Vec<(Block, String)> = Vec::new();
    let txs = &b.transactions;
    let with_txs = |v: Vec<Transaction>| {
        let mut nb = b.clone();
        nb.transactions = v;
        nb
    };
    match RESHAPES[kind] {
        "shift-within-tx" => {
            for (i, tx) in txs.iter().enumerate() {
                for t in shifts_within(tx) {
                    let mut v = txs.clone();
                    v[i] = t;
                    out.push((with_txs(v), tx_kind(tx).to_string()));
                }
            }
        },
        "shift-across-txs" => {
            for i in 0..txs.len().saturating_sub(1) {
                for (x, y) in shifts_across(&txs[i], &txs[i + 1]) {
                    let mut v = txs.clone();
                    v[i] = x;
                    v[i + 1] = y;
                    out.push((with_txs(v), String::new()));
                }
            }
        },
        "swap-within-tx" => {
            for v in swaps(txs, false) {
                let which = txs.iter().zip(v.iter()).find(|(a, b)| a != b).map(|(a, _)| tx_kind(a)).unwrap_or("");
                out.push((with_txs(v), which.to_string()));
            }
        },
        "swap-across-txs" => {
            for v in swaps(txs, true) {
                out.push((with_txs(v), String::new()));
            }
        },
        "tx-reorder" => {
            for i in 0..txs.len() {
                for j in i + 1..txs.len() {
                    if txs[i] != txs[j] {
                        let mut v = txs.clone();
                        v.swap(i, j);
                        out.push((with_txs(v), String::new()));
                    }
                }
            }
        },
        "header-swap" => {
            let mut push = |f: &dyn Fn(&mut Block), name: &str| {
                let mut nb = b.clone();
                f(&mut nb);
                if nb != *b {
                    out.push((nb, name.to_string()));
                }
            };
            push(&|n: &mut Block| std::mem::swap(&mut n.header.prev_hash, &mut n.header.tx_root), "prev_hash-tx_root");
            push(&|n: &mut Block| std::mem::swap(&mut n.header.tx_root, &mut n.header.state_root), "tx_root-state_root");
            push(&|n: &mut Block| std::mem::swap(&mut n.header.prev_hash, &mut n.header.state_root), "prev_hash-state_root");
        },
        _ => {
            // header-shift: ... quantized_codes (u16 list) | timestamp (u64) | proposer (string)
            let h = &b.header;
            let ts = h.timestamp.to_le_bytes();
            let p = h.proposer.as_bytes();
            // the code list grows by the first two bytes of the timestamp, the timestamp
            // slides into the proposer
            if p.len() >= 2 && h.proposer.is_char_boundary(2) {
                let mut nb = b.clone();
                nb.header.quantized_codes.push(u16::from_le_bytes([ts[0], ts[1]]));
                nb.header.timestamp = u64::from_le_bytes([ts[2], ts[3], ts[4], ts[5], ts[6], ts[7], p[0], p[1]]);
                nb.header.proposer = h.proposer[2..].to_string();
                out.push((nb, "codes-grow".to_string()));
            }
            // the last code slides into the timestamp, the timestamp's last two bytes
            // into the proposer
            if let Some(c) = h.quantized_codes.last() {
                if let Ok(head) = std::str::from_utf8(&ts[6..8]) {
                    let c = c.to_le_bytes();
                    let mut nb = b.clone();
                    nb.header.quantized_codes.pop();
                    nb.header.timestamp = u64::from_le_bytes([c[0], c[1], ts[0], ts[1], ts[2], ts[3], ts[4], ts[5]]);
                    nb.header.proposer = format!("{head}{}", h.proposer);
                    out.push((nb, "codes-shrink".to_string()));
                }
            }
        },
    }
    out
}

/// A list with its length changed in the given way (index into `LENGTH_FORMS`), the
/// elements that stay untouched. None: the form does not apply to a list this short.
fn resized<T: Clone>(v: &[T], form: usize, unit: T) -> Option<Vec<T>> {
    let n = v.len();
    match LENGTH_FORMS[form] {
        "append-one" => {
            let mut o = v.to_vec();
            o.push(unit);
            Some(o)
        },
        "append-copy" if n >= 1 => {
            let mut o = v.to_vec();
            o.extend_from_slice(v);
            Some(o)
        },
        "truncate-one" if n >= 1 => Some(v[..n - 1].to_vec()),
        "truncate-half" if n >= 2 => Some(v[..n / 2].to_vec()),
        "empty" if n >= 1 => Some(Vec::new()),
        _ => None,
    }
}

/// All alterations of one block that change the length of one variable-length field
/// of the given kind (index into `VARLEN`) in the given way, each with a description
/// of the place. `variant` selects the appended unit.
fn length_alterations(b: &Block, field: usize, form: usize, variant: usize) -> Vec<(Block, String)> {
    let mut out: Vec<(Block, String)> = Vec::new();
    let byte = [0x00u8, 0xff, b'!'][variant % 3];
    let ch = ['!', '0', 'f'][variant % 3];
    let str_resized = |s: &str| -> Option<String> {
        let chars: Vec<char> = s.chars().collect();
        resized(&chars, form, ch).map(|c| c.into_iter().collect())
    };
    let len_note = |name: String, from: usize, to: usize| format!("{name}: length {from} -> {to}");
    match VARLEN[field].0 {
        "signature" => {
            if let Some(v) = resized(&b.header.signature, form, byte) {
                let mut nb = b.clone();
                let note = len_note("header.signature".into(), b.header.signature.len(), v.len());
                nb.header.signature = v;
                out.push((nb, note));
            }
        },
        "proposer" => {
            if let Some(v) = str_resized(&b.header.proposer) {
                let mut nb = b.clone();
                let note = len_note("header.proposer".into(), b.header.proposer.len(), v.len());
                nb.header.proposer = v;
                out.push((nb, note));
            }
        },
        "quantized_codes" => {
            if let Some(v) = resized(&b.header.quantized_codes, form, [0u16, 0xffff, 7][variant % 3]) {
                let mut nb = b.clone();
                let note = len_note("header.quantized_codes".into(), b.header.quantized_codes.len(), v.len());
                nb.header.quantized_codes = v;
                out.push((nb, note));
            }
        },
        "delta_embedding" => {
            // as a dense list of coordinates: the dimension changes with the length, an
            // appended non-zero coordinate adds an entry, a cut one may remove entries
            let dense = b.header.delta_embedding.to_dense();
            if let Some(v) = resized(&dense, form, [0.0f32, 1.5, -2.0][variant % 3]) {
                let mut nb = b.clone();
                let note = len_note("header.delta_embedding (dimension)".into(), dense.len(), v.len());
                nb.header.delta_embedding = SparseVector::from_dense(&v);
                out.push((nb, note));
            }
        },
        "tx_string" | "tx_bytes" | "tx_vector" => {
            let want = match VARLEN[field].0 {
                "tx_string" => Fk::Str,
                "tx_bytes" => Fk::Bytes,
                _ => Fk::F32s,
            };
            for (i, tx) in b.transactions.iter().enumerate() {
                let fs = tx_fields(tx);
                for (j, (bytes, kind)) in fs.iter().enumerate() {
                    if *kind != want {
                        continue;
                    }
                    let new: Option<Vec<u8>> = match want {
                        Fk::Str => std::str::from_utf8(bytes).ok().and_then(|s| str_resized(s)).map(String::into_bytes),
                        Fk::Bytes => resized(bytes, form, byte),
                        _ => {
                            let units: Vec<[u8; 4]> = bytes.chunks_exact(4).map(|c| [c[0], c[1], c[2], c[3]]).collect();
                            resized(&units, form, [0.0f32, 1.5, -2.0][variant % 3].to_le_bytes()).map(|u| u.into_iter().flatten().collect())
                        },
                    };
                    let Some(new) = new else { continue };
                    let mut nf: Vec<Vec<u8>> = fs.iter().map(|f| f.0.clone()).collect();
                    let note = len_note(format!("transaction {i} ({}) field {j}", tx_kind(tx)), bytes.len(), new.len());
                    nf[j] = new;
                    if let Some(t) = tx_with_fields(tx, &nf) {
                        if t != *tx {
                            let mut nb = b.clone();
                            nb.transactions[i] = t;
                            out.push((nb, note));
                        }
                    }
                }
            }
        },
        "cosignatures" => {
            let unit = ValidatorSignature { validator: "mallory".into(), signature: vec![byte; 64], block_hash: b.hash() };
            if let Some(v) = resized(&b.signatures, form, unit) {
                let mut nb = b.clone();
                let note = len_note("signatures (list of co-signatures)".into(), b.signatures.len(), v.len());
                nb.signatures = v;
                out.push((nb, note));
            }
        },
        "cosignature_signature" => {
            for (i, s) in b.signatures.iter().enumerate() {
                if let Some(v) = resized(&s.signature, form, byte) {
                    let mut nb = b.clone();
                    let note = len_note(format!("signatures[{i}].signature"), s.signature.len(), v.len());
                    nb.signatures[i].signature = v;
                    out.push((nb, note));
                }
            }
        },
        _ => {
            for (i, s) in b.signatures.iter().enumerate() {
                if let Some(v) = str_resized(&s.validator) {
                    let mut nb = b.clone();
                    let note = len_note(format!("signatures[{i}].validator"), s.validator.len(), v.len());
                    nb.signatures[i].validator = v;
                    out.push((nb, note));
                }
            }
        },
    }
    out.retain(|(nb, _)| nb != b);
    out
}

fn flip(h: &mut [u8; 32]) {
    h[7] ^= 0x10;
}

struct ReplicaOut {
    /// per block: result of apply_block, state root of the replica's store afterwards
    steps: Vec<(String, String)>,
    dump: BTreeMap<String, String>,
}

/// One replica, living entirely on its own OS thread.
fn run_replica(
    ctx: &Arc<RunCtx>,
    node_id: String,
    origin_pk: [u8; 32],
    t_init: u64,
    blocks: Vec<(u64, Block)>,
    skew_ns: u64,
    sm_var: u8,
) -> Result<ReplicaOut, String> {
    let ctx2 = ctx.clone();
    let h = std::thread::Builder::new()
        .name("sim-replica".into())
        .stack_size(8 << 20)
        .spawn(move || -> Result<ReplicaOut, String> {
            let _inst = install(&ctx2);
            ctx2.lock().wall_ns = t_init + skew_ns;
            let store = TensorStore::new();
            let graph = Arc::new(GraphEngine::with_store(store.clone()));
            let registry = Arc::new(ValidatorRegistry::new());
            registry.register_public_key(&origin_pk).map_err(|e| format!("register_public_key: {e}"))?;
            let chain = Arc::new(Chain::with_registry(graph, node_id.clone(), registry));
            chain.initialize().map_err(|e| format!("replica initialize: {e}"))?;
            let transport: Arc<dyn Transport> = Arc::new(MemoryTransport::new(node_id.clone()));
            let raft = Arc::new(RaftNode::new(node_id, Vec::new(), transport, RaftConfig::default()));
            let make = || match sm_var {
                1 => TensorStateMachine::with_threshold(chain.clone(), raft.clone(), store.clone(), 0.999),
                3 => TensorStateMachine::with_threshold(chain.clone(), raft.clone(), store.clone(), 0.0),
                _ => TensorStateMachine::new(chain.clone(), raft.clone(), store.clone()),
            };
            let mut sm = make();
            let mut steps = Vec::new();
            for (wall, b) in &blocks {
                ctx2.lock().wall_ns = *wall + skew_ns;
                if sm_var == 2 {
                    sm = make();
                }
                let r = sm.apply_block(b);
                let root = compute_state_root(&store).map(|r| hex(&r)).unwrap_or_else(|e| format!("<{}>", err_kind(&e)));
                steps.push((
                    match r {
                        Ok(()) => "accepted".to_string(),
                        Err(e) => format!("rejected: {}", err_kind(&e)),
                    },
                    root,
                ));
            }
            let dump = canon_map(&dump_store_data(&store, false));
            Ok(ReplicaOut { steps, dump })
        })
        .map_err(|e| format!("spawn replica: {e}"))?;
    match h.join() {
        Ok(r) => r,
        Err(p) => Err(format!(
            "replica thread panicked: {}",
            p.downcast_ref::<String>().cloned().or_else(|| p.downcast_ref::<&str>().map(|s| (*s).to_string())).unwrap_or_default()
        )),
    }
}

fn first_diff(a: &BTreeMap<String, String>, b: &BTreeMap<String, String>) -> String {
    let short = |s: &str| if s.len() > 100 { format!("{}..", &s[..100]) } else { s.to_string() };
    for (k, v) in a {
        match b.get(k) {
            None => return format!("key {k} only on the first"),
            Some(w) if w != v => return format!("key {k}: {} vs {}", short(v), short(w)),
            _ => {},
        }
    }
    for k in b.keys() {
        if !a.contains_key(k) {
            return format!("key {k} only on the second");
        }
    }
    "no difference".into()
}

impl C16 {
    fn run_tamper(&self, w: &World, t: &Tamper, cosigned: u8, second: Option<&Identity>, out: &mut RunOut) {
        let ctx = &w.ctx;
        let chain = &w.chain;
        let store = chain.store();
        // blocks that carry validator co-signatures, appended through the public block
        // interface (the proposer is the chain itself; co-signers: the chain's own
        // identity and the second validator)
        for n in 0..cosigned.min(2) {
            let mut b = chain
                .new_block()
                .add_transaction(Transaction::Put { key: user_key(n), data: format!("cosigned#{n}").into_bytes() })
                .sign_and_build(chain.identity());
            let bh = b.hash();
            let mut signers: Vec<&Identity> = vec![chain.identity()];
            signers.extend(second);
            for id in signers {
                if let Err(e) = b.add_signature(ValidatorSignature { validator: id.node_id(), signature: id.sign(&bh), block_hash: bh }) {
                    out.harness_error = Some(format!("tamper: add_signature: {e}"));
                    return;
                }
            }
            let ncos = b.signatures.len();
            match chain.append_block(b) {
                Ok(_) => {
                    ctx.probe("cosigned_block_appended");
                    ctx.event(&format!("block with {ncos} co-signature(s) appended through append_block (height now {})", chain.height()));
                },
                Err(e) => {
                    // "integrity verification succeeds on any chain built through the public
                    // interface": a correctly linked and signed block is refused
                    out.violation = Some(Violation {
                        class: "cosigned-block-refused".into(),
                        detail: format!("append_block of a block built by new_block()..sign_and_build(identity()) with {ncos} co-signature(s) = Err {}", err_kind(&e)),
                    });
                    return;
                },
            }
        }
        if cosigned > 0 {
            // "integrity verification succeeds on any chain built through the public interface"
            if let Err(e) = chain.verify() {
                out.violation = Some(Violation {
                    class: "verify-fails-on-untampered-chain:cosigned-block".into(),
                    detail: format!("verify() = Err {} after a co-signed block was appended through append_block (height {})", err_kind(&e), chain.height()),
                });
                return;
            }
        }
        let height = chain.height();
        if height == 0 {
            // nothing but the genesis block: no committed block to tamper with
            return;
        }
        let pos = |h: u64| if h == 0 { "genesis" } else if h == height { "tip" } else { "inner" };
        let what: String;
        // what goes into the violation class when it is coarser than `what`
        let mut class_what: Option<String> = None;
        let mut note = String::new();
        match t {
            Tamper::Field { h, field } => {
                let h = u64::from(*h) % (height + 1);
                let f = *field as usize % FIELDS.len();
                let Ok(Some(mut b)) = chain.get_block(h) else {
                    out.harness_error = Some(format!("tamper: block {h} unreadable before tampering"));
                    return;
                };
                let orig = b.clone();
                match FIELDS[f] {
                    "height" => b.header.height += 1,
                    "prev_hash" => flip(&mut b.header.prev_hash),
                    "tx_root" => flip(&mut b.header.tx_root),
                    "state_root" => flip(&mut b.header.state_root),
                    "delta_embedding" => {
                        let mut d = vec![0.0f32; DIM];
                        d[77] = 5.0;
                        b.header.delta_embedding = SparseVector::from_dense(&d);
                    },
                    "quantized_codes" => b.header.quantized_codes.push(7),
                    "timestamp" => b.header.timestamp += 1,
                    "proposer" => b.header.proposer.push('x'),
                    "signature" => {
                        if b.header.signature.is_empty() {
                            b.header.signature = vec![1u8; 64];
                        } else {
                            b.header.signature[3] ^= 0x01;
                        }
                    },
                    "tx_data" => match b.transactions.last_mut() {
                        Some(Transaction::Put { data, .. }) => data.push(b'!'),
                        Some(Transaction::Delete { key }) => key.push('!'),
                        _ => b.transactions.push(Transaction::Put { key: user_key(0), data: b"forged".to_vec() }),
                    },
                    "tx_dropped" => {
                        if b.transactions.pop().is_none() {
                            b.transactions.push(Transaction::Delete { key: user_key(0) });
                        }
                    },
                    "tx_added" => b.transactions.push(Transaction::Put { key: user_key(1), data: b"forged".to_vec() }),
                    // a copy of the last transaction appended (it is applied twice on replay);
                    // aimed at Merkle trees that pad an odd level by repeating its last node
                    "tx_last_duplicated" => match b.transactions.last().cloned() {
                        Some(t) => b.transactions.push(t),
                        None => b.transactions.push(Transaction::Delete { key: user_key(0) }),
                    },
                    // the whole transaction list cut off
                    "tx_all_dropped" => {
                        if b.transactions.is_empty() {
                            ctx.probe("length_alteration_not_applicable");
                            ctx.event(&format!("tamper tx_all_dropped: block {h} has no transactions"));
                            return;
                        }
                        b.transactions.clear();
                    },
                    _ => b.signatures.push(ValidatorSignature { validator: "mallory".into(), signature: vec![9u8; 64], block_hash: [3u8; 32] }),
                }
                if b == orig {
                    out.harness_error = Some(format!("tamper: mutation of {} left block {h} unchanged", FIELDS[f]));
                    return;
                }
                if let Err(e) = write_block(store, h, &b) {
                    out.harness_error = Some(format!("tamper: {e}"));
                    return;
                }
                what = format!("field:{}:{}", FIELDS[f], pos(h));
            },
            Tamper::Remove { h } => {
                let h = u64::from(*h) % (height + 1);
                if store.delete(&block_key(h)).is_err() {
                    out.harness_error = Some(format!("tamper: cannot delete record of block {h}"));
                    return;
                }
                what = format!("removed:{}", pos(h));
            },
            Tamper::Swap { a, b } => {
                let a = u64::from(*a) % (height + 1);
                let mut b = u64::from(*b) % (height + 1);
                if a == b {
                    b = (a + 1) % (height + 1);
                }
                let (Ok(ra), Ok(rb)) = (store.get(&block_key(a)), store.get(&block_key(b))) else {
                    out.harness_error = Some("tamper: block records unreadable before swap".into());
                    return;
                };
                if store.put(&block_key(a), rb).is_err() || store.put(&block_key(b), ra).is_err() {
                    out.harness_error = Some("tamper: cannot write swapped records".into());
                    return;
                }
                what = "swapped".to_string();
            },
            Tamper::Forge { h, signer, claim_own } => {
                // genesis is unsigned; forging applies to committed blocks
                let h = 1 + u64::from(*h) % height;
                let Ok(Some(mut b)) = chain.get_block(h) else {
                    out.harness_error = Some(format!("tamper: block {h} unreadable before forging"));
                    return;
                };
                let foreign = sim_identity(ctx);
                let (id, who) = match (signer % 2, second) {
                    (1, Some(s)) => (s, "other-validator"),
                    _ => (&foreign, "non-validator"),
                };
                // a block replaced by another validator's own, correctly signed and claimed
                // block is still "altered": below the tip its successor names another hash
                // (detectable by the hash link only); at the tip nothing can tell, so there
                // the validator signs without claiming (impostor case)
                let claim = *claim_own && (who == "non-validator" || h < height);
                b.transactions.push(Transaction::Put { key: user_key(2), data: b"forged".to_vec() });
                b.header.tx_root = b.compute_tx_root();
                if claim {
                    b.header.proposer = id.node_id();
                }
                b.header.signature = id.sign(&b.header.signing_bytes());
                if let Err(e) = write_block(store, h, &b) {
                    out.harness_error = Some(format!("tamper: {e}"));
                    return;
                }
                what = format!("forged:{who}{}:{}", if claim { "+own-id" } else { "" }, pos(h));
            },
            Tamper::Reshape { h, kind, pick } => {
                let kind = *kind as usize % RESHAPES.len();
                // the first block, from h on (cyclically), that admits an alteration of this kind
                let mut found: Option<(u64, Block, String)> = None;
                for off in 0..=height {
                    let hh = (u64::from(*h) + off) % (height + 1);
                    let Ok(Some(b)) = chain.get_block(hh) else {
                        out.harness_error = Some(format!("tamper: block {hh} unreadable before tampering"));
                        return;
                    };
                    let mut alts = reshapes(&b, kind);
                    if !alts.is_empty() {
                        let (nb, shape) = alts.swap_remove(*pick as usize % alts.len());
                        if nb == b {
                            out.harness_error = Some(format!("tamper: {} left block {hh} unchanged", RESHAPES[kind]));
                            return;
                        }
                        found = Some((hh, nb, shape));
                        break;
                    }
                }
                let Some((hh, nb, shape)) = found else {
                    // no block of this chain has two fields this alteration could work on
                    ctx.probe("reshape_not_applicable");
                    ctx.event(&format!("tamper {}: not applicable to any block", RESHAPES[kind]));
                    return;
                };
                if let Ok(Some(orig)) = chain.get_block(hh) {
                    for (i, (a, b)) in orig.transactions.iter().zip(nb.transactions.iter()).enumerate() {
                        if a != b {
                            ctx.event(&format!("  block {hh} tx {i}: {}  ==>  {}", tx_str(a), tx_str(b)));
                        }
                    }
                    if orig.header != nb.header {
                        ctx.event(&format!(
                            "  block {hh} header: codes {:?} timestamp {:#x} proposer {:?} prev {} txroot {} state {}  ==>  codes {:?} timestamp {:#x} proposer {:?} prev {} txroot {} state {}",
                            orig.header.quantized_codes,
                            orig.header.timestamp,
                            orig.header.proposer,
                            &hex(&orig.header.prev_hash)[..8],
                            &hex(&orig.header.tx_root)[..8],
                            &hex(&orig.header.state_root)[..8],
                            nb.header.quantized_codes,
                            nb.header.timestamp,
                            nb.header.proposer,
                            &hex(&nb.header.prev_hash)[..8],
                            &hex(&nb.header.tx_root)[..8],
                            &hex(&nb.header.state_root)[..8]
                        ));
                    }
                }
                if let Err(e) = write_block(store, hh, &nb) {
                    out.harness_error = Some(format!("tamper: {e}"));
                    return;
                }
                ctx.probe("two_field_alteration_applied");
                ctx.probe(match RESHAPES[kind] {
                    "shift-within-tx" => "boundary_shift_within_tx_applied",
                    "shift-across-txs" => "boundary_shift_across_txs_applied",
                    "swap-within-tx" | "swap-across-txs" => "equal_length_swap_applied",
                    "tx-reorder" => "tx_reorder_applied",
                    _ => "header_two_field_alteration_applied",
                });
                what = format!("{}{}:{}", RESHAPES[kind], if shape.is_empty() { String::new() } else { format!(":{shape}") }, pos(hh));
            },
            Tamper::Length { h, field, form, pick } => {
                let fi = *field as usize % VARLEN.len();
                let fo = *form as usize % LENGTH_FORMS.len();
                // the first block, from h on (cyclically), that has a field of this kind long
                // enough for this form
                let mut found: Option<(u64, Block, String)> = None;
                for off in 0..=height {
                    let hh = (u64::from(*h) + off) % (height + 1);
                    let Ok(Some(b)) = chain.get_block(hh) else {
                        out.harness_error = Some(format!("tamper: block {hh} unreadable before tampering"));
                        return;
                    };
                    let mut alts = length_alterations(&b, fi, fo, (*pick >> 8) as usize);
                    if !alts.is_empty() {
                        let (nb, place) = alts.swap_remove(*pick as usize % alts.len());
                        found = Some((hh, nb, place));
                        break;
                    }
                }
                let Some((hh, nb, place)) = found else {
                    ctx.probe("length_alteration_not_applicable");
                    ctx.event(&format!("tamper length:{}:{}: not applicable to any block", VARLEN[fi].0, LENGTH_FORMS[fo]));
                    return;
                };
                ctx.event(&format!("  block {hh} {place}"));
                if let Err(e) = write_block(store, hh, &nb) {
                    out.harness_error = Some(format!("tamper: {e}"));
                    return;
                }
                ctx.probe("field_length_altered");
                ctx.probe(match LENGTH_FORMS[fo] {
                    "append-one" | "append-copy" => "field_extended",
                    "truncate-one" | "truncate-half" => "field_truncated",
                    _ => "field_emptied",
                });
                ctx.probe(match VARLEN[fi].0 {
                    "signature" => "proposer_signature_length_altered",
                    "proposer" | "quantized_codes" | "delta_embedding" => "header_field_length_altered",
                    "tx_string" | "tx_bytes" | "tx_vector" => "tx_field_length_altered",
                    _ => "cosignature_length_altered",
                });
                if VARLEN[fi].0 == "signature" && hh >= 1 && LENGTH_FORMS[fo].starts_with("append") {
                    ctx.probe("proposer_signature_extended");
                }
                if hh >= 1 && hh < height {
                    ctx.probe("field_length_altered_in_inner_block");
                }
                what = format!("length:{}:{}:{}", VARLEN[fi].0, LENGTH_FORMS[fo], pos(hh));
                // classified by the field that escaped, like a contents alteration of it
                class_what = Some(format!("field:{}:{}", VARLEN[fi].1, pos(hh)));
                note = format!(" (block {hh} {place})");
            },
        }
        ctx.fault_fired("block_record_tampered");
        ctx.fp(&what);
        let r = chain.verify();
        ctx.event(&format!(
            "tamper {what} -> verify {}",
            match &r {
                Ok(()) => "Ok".to_string(),
                Err(e) => format!("Err {}", err_kind(e)),
            }
        ));
        match r {
            // "with validator keys registered, fails if any stored block is altered, removed,
            // reordered or forged" (TensorChain always registers its own key)
            Ok(()) => {
                out.violation = Some(Violation {
                    class: format!("tamper-undetected:{}", class_what.as_deref().unwrap_or(&what)),
                    detail: format!("after the storage fault '{what}'{note} on a chain of height {height}, verify() still returns Ok"),
                });
            },
            Err(e) => {
                ctx.probe("tamper_detected");
                let k = err_kind(&e);
                if k.contains("signature") || k.contains("unknown proposer") {
                    ctx.probe("tamper_detected_by_signature");
                } else if k == "InvalidHash" {
                    ctx.probe("tamper_detected_by_hash_link");
                }
            },
        }
    }

    #[allow(clippy::too_many_arguments)]
    fn run_replay(&self, w: &World, t_init: u64, skew_ms: u16, own_id: bool, sm_b: u8, bad_at: u8, out: &mut RunOut) {
        let ctx = &w.ctx;
        let chain = &w.chain;
        let height = chain.height();
        if height == 0 {
            return;
        }
        let walls = w.commit_wall.lock().unwrap().clone();
        let mut blocks = Vec::new();
        for h in 1..=height {
            match chain.get_block(h) {
                Ok(Some(b)) => blocks.push((walls.get(h as usize - 1).copied().unwrap_or(t_init), b)),
                _ => {
                    out.harness_error = Some(format!("replay: block {h} unreadable after the oracle passed"));
                    return;
                },
            }
        }
        // a block with a wrong state root from the proposer itself, ahead of the right one
        let mut bad_idx: Option<usize> = None;
        if bad_at > 0 && blocks.len() >= 2 {
            let j = usize::from(bad_at).min(blocks.len() - 1);
            let (wall, good) = blocks[j].clone();
            let mut bad = good;
            flip(&mut bad.header.state_root);
            bad.header.signature = chain.identity().sign(&bad.header.signing_bytes());
            let emb = bad.header.delta_embedding.clone();
            let lo = j.saturating_sub(10);
            if emb.nnz() > 0 && blocks[lo..j].iter().any(|(_, p)| p.header.delta_embedding.nnz() > 0 && emb.cosine_similarity(&p.header.delta_embedding) >= 0.95) {
                ctx.probe("replay_wrong_state_root_block_similar_to_recent_blocks");
            }
            ctx.event(&format!("sequence contains, ahead of block {}, a copy of it with a wrong state root signed by the proposer", j + 1));
            blocks.insert(j, (wall, bad));
            bad_idx = Some(j);
        }
        let origin_root = compute_state_root(chain.store()).map(|r| hex(&r)).unwrap_or_default();
        let origin_dump = canon_map(&dump_store_data(chain.store(), false));
        let end_wall = ctx.lock().wall_ns;
        let pk = chain.public_key_bytes();
        let nid = chain.node_id().clone();
        let a = run_replica(ctx, nid.clone(), pk, t_init, blocks.clone(), 0, 0);
        let b_id = if own_id { sim_identity(ctx).node_id() } else { nid };
        let b = run_replica(ctx, b_id, pk, t_init, blocks.clone(), u64::from(skew_ms) * 1_000_000, sm_b);
        if sm_b != 0 {
            ctx.probe("replay_replicas_with_different_state_machine_setups");
        }
        ctx.lock().wall_ns = end_wall;
        let (a, b) = match (a, b) {
            (Ok(a), Ok(b)) => (a, b),
            (Err(e), _) | (_, Err(e)) => {
                out.harness_error = Some(e);
                return;
            },
        };
        let variant = match (skew_ms > 0, own_id) {
            (false, false) => "",
            (true, false) => ":replayed-later",
            (false, true) => ":own-node-id",
            (true, true) => ":replayed-later+own-node-id",
        };
        let nsteps = blocks.len();
        for (i, ((ra, roota), (rb, rootb))) in a.steps.iter().zip(b.steps.iter()).enumerate() {
            ctx.event(&format!("replay step {}: A {ra} root {} | B {rb} root {}", i + 1, &roota[..8.min(roota.len())], &rootb[..8.min(rootb.len())]));
            // "Replaying the same blocks on an empty store yields the same state root on every replica"
            if roota != rootb || ra != rb {
                out.violation = Some(Violation {
                    class: format!("replicas-diverge{variant}"),
                    detail: format!(
                        "after step {} of {nsteps}{}: replica A {ra}, state root {roota}; replica B {rb}, state root {rootb}",
                        i + 1,
                        if bad_idx == Some(i) { " (the block with the wrong state root)" } else { "" }
                    ),
                });
                return;
            }
        }
        if a.dump != b.dump {
            out.violation = Some(Violation {
                class: format!("replicas-diverge{variant}"),
                detail: format!("equal state roots but different store dumps: {}", first_diff(&a.dump, &b.dump)),
            });
            return;
        }
        // the state root each block carries is the origin's; a replica in the very same
        // environment (same node id, same simulated instants) must reproduce it
        if let Some((i, (ra, _))) = a.steps.iter().enumerate().find(|(i, (r, _))| r != "accepted" && bad_idx != Some(*i)) {
            out.violation = Some(Violation {
                class: "replica-cannot-reproduce-block-state-root".into(),
                detail: format!(
                    "replica A (origin's node id, origin's clock readings) {ra} at step {} of {nsteps}{}",
                    i + 1,
                    if bad_idx.is_some_and(|j| j < i) { " (a block with a wrong state root came before)" } else { "" }
                ),
            });
            return;
        }
        ctx.probe("replay_blocks_accepted");
        let last_root = a.steps.last().map(|s| s.1.clone()).unwrap_or_default();
        if last_root != origin_root || a.dump != origin_dump {
            out.violation = Some(Violation {
                class: "replica-differs-from-origin".into(),
                detail: format!(
                    "after all {height} blocks replica A has state root {last_root}, the origin {origin_root}; first dump difference (replica vs origin): {}",
                    first_diff(&a.dump, &origin_dump)
                ),
            });
        }
    }
}

fn panic_msg(p: &(dyn std::any::Any + Send)) -> String {
    p.downcast_ref::<String>().cloned().or_else(|| p.downcast_ref::<&str>().map(|s| (*s).to_string())).unwrap_or_else(|| "panic".into())
}

impl Scenario for C16 {
    type Case = Case;
    fn id(&self) -> &'static str {
        "C16"
    }
    fn level(&self) -> &'static str {
        "exploration"
    }
    fn runs(&self, tier: Tier) -> u64 {
        match tier {
            Tier::Quick => 24_000,
            Tier::Thorough => 400_000,
        }
    }

    fn generate(&self, rng: &mut Rng, _tier: Tier, index: u64) -> Case {
        let sel = index % 10;
        let nthreads = if sel < 5 { rng.range(2, 4) as usize } else { 1 };
        let disjoint_keys = rng.chance(1, 3);
        let same_dir = rng.chance(1, 4);
        let zero_dirs = rng.chance(1, 4);
        // codebook / validation configuration: half of the cases keep the default empty
        // codebook; the others get 1-3 centroids over the directions the workspaces use
        let validation = if rng.chance(1, 2) {
            Validation::default()
        } else {
            let mut centroids: Vec<Vec<u8>> = Vec::new();
            if rng.chance(1, 2) {
                // coherent: a direction and its sum with a second one (a commit in the first
                // direction may absorb a candidate in the second, nothing else)
                let a = rng.range(1, 3) as u8;
                let b = 1 + (a + rng.below(2) as u8) % 3;
                centroids.push(vec![a]);
                centroids.push(vec![a, b]);
            }
            for _ in 0..rng.range(if centroids.is_empty() { 1 } else { 0 }, 2) {
                centroids.push(match rng.below(8) {
                    0..=3 => vec![rng.range(1, 3) as u8],
                    4 => vec![rng.range(4, 5) as u8],
                    5 | 6 => {
                        let a = rng.range(1, 3) as u8;
                        vec![a, 1 + (a + rng.below(2) as u8) % 3]
                    },
                    _ => vec![1, 2, 3],
                });
            }
            Validation {
                centroids,
                state_pct: *rng.pick(&[80u8, 80, 80, 80, 60, 95]),
                max_mag_x10: *rng.pick(&[10u8, 10, 10, 10, 5, 30]),
                lenient: rng.chance(1, 6),
                short_dim: rng.chance(1, 12),
            }
        };
        let mut u = 0u32;
        let mut slot = 0u8;
        let mut threads = Vec::new();
        // half of the cases draw from every operation kind the workspace API accepts
        let rich = rng.chance(1, 2);
        // the generator's guess of each key's current value (for compare-and-swap operands)
        let mut last_put: BTreeMap<u8, Vec<u8>> = BTreeMap::new();
        for t in 0..nthreads {
            let nws = if nthreads == 1 { rng.range(2, 4) } else { rng.range(1, 2) };
            let mut lists: Vec<Vec<Op>> = Vec::new();
            for _ in 0..nws {
                let ws = slot;
                slot += 1;
                let dir = if zero_dirs {
                    0
                } else if same_dir {
                    1
                } else {
                    rng.below(6) as u8
                };
                let mut l = vec![Op::Begin { ws, dir }];
                // one workspace in forty is wide: 21-70 operations that keep rewriting the
                // same few keys (the last write of each key is what the block must leave)
                let n_ops = if rng.chance(1, 40) { rng.range(21, 70) } else { rng.range(1, if rich { 4 } else { 3 }) };
                for _ in 0..n_ops {
                    let k = if disjoint_keys { (t as u8 * 2 + rng.below(2) as u8) % NKEYS } else { rng.below(3) as u8 };
                    if rich && rng.chance(3, 5) {
                        u += 1;
                        let val = format!("w{ws}#{u}").into_bytes();
                        let table = format!("u:t{}", k % 2);
                        let node = |i: u8| format!("u:n{}", i % 3);
                        let tx = match rng.below(10) {
                            0 => Transaction::Embed { key: format!("u:e{}", k % 3), vector: vec![u as f32, 0.5, -f32::from(k)] },
                            1 => Transaction::NodeCreate { key: node(k), label: format!("L{u}") },
                            2 => Transaction::NodeDelete { key: node(k) },
                            3 => Transaction::EdgeCreate { from: node(k), to: node(k + 1 + rng.below(2) as u8), edge_type: format!("t{}", rng.below(2)) },
                            4 | 5 => Transaction::TableInsert { table, values: val },
                            6 => Transaction::TableUpdate { table, row_id: rng.below(3), values: val },
                            7 => Transaction::TableDelete { table, row_id: rng.below(3) },
                            _ => {
                                let expected_data = if rng.chance(1, 3) { Vec::new() } else { last_put.get(&(k % NKEYS)).cloned().unwrap_or_default() };
                                last_put.insert(k % NKEYS, val.clone());
                                Transaction::CompareAndSwap { key: user_key(k), expected_data, new_data: val }
                            },
                        };
                        l.push(Op::Tx { ws, tx });
                    } else if rng.chance(3, 4) {
                        u += 1;
                        last_put.insert(k % NKEYS, format!("w{ws}#{u}").into_bytes());
                        l.push(Op::Put { ws, k, u });
                    } else {
                        last_put.remove(&(k % NKEYS));
                        l.push(Op::Del { ws, k });
                    }
                }
                match rng.below(10) {
                    0 => {},
                    1 | 2 => l.push(Op::Rollback { ws }),
                    3 => {
                        l.push(Op::Commit { ws });
                        l.push(Op::Rollback { ws });
                    },
                    _ => l.push(Op::Commit { ws }),
                }
                lists.push(l);
            }
            // interleave the workspaces of this thread, keeping each one's order
            let mut prog = Vec::new();
            let mut idx = vec![0usize; lists.len()];
            loop {
                let live: Vec<usize> = (0..lists.len()).filter(|i| idx[*i] < lists[*i].len()).collect();
                if live.is_empty() {
                    break;
                }
                // mostly finish one workspace before the next, sometimes interleave
                let i = if rng.chance(2, 3) { live[0] } else { *rng.pick(&live) };
                prog.push(lists[i][idx[i]].clone());
                idx[i] += 1;
                if rng.chance(1, 12) {
                    prog.push(Op::Advance { ms: *rng.pick(&[1u16, 40, 120]) });
                }
            }
            threads.push(prog);
        }
        // the chain's own key leaves the validator registry in the middle of the program (a
        // third of the cases) and mostly comes back later: the commits in between are
        // refused by Chain::append after their operations were applied
        if rng.chance(1, 3) {
            let t = rng.below(nthreads as u64) as usize;
            let len = threads[t].len();
            let p = rng.range((len / 3) as u64, len as u64) as usize;
            threads[t].insert(p, Op::Validator { present: false });
            if rng.chance(3, 4) {
                let q = rng.range(p as u64 + 1, len as u64 + 1) as usize;
                threads[t].insert(q, Op::Validator { present: true });
                if rng.chance(1, 2) {
                    // one more workspace committed on the repaired chain
                    let ws = slot;
                    u += 1;
                    threads[t].push(Op::Begin { ws, dir: 0 });
                    threads[t].push(Op::Put { ws, k: rng.below(3) as u8, u });
                    threads[t].push(Op::Commit { ws });
                }
            }
        }
        let max_txs = if rng.chance(1, 8) { *rng.pick(&[2u8, 3, 4]) } else { 0 };
        let kind = match sel {
            7 | 8 => Kind::Tamper(match rng.below(16) {
                0..=3 => Tamper::Field { h: rng.below(8) as u8, field: rng.below(FIELDS.len() as u64) as u8 },
                4 => Tamper::Remove { h: rng.below(8) as u8 },
                5 => Tamper::Swap { a: rng.below(8) as u8, b: rng.below(8) as u8 },
                6 | 7 => Tamper::Forge { h: rng.below(8) as u8, signer: rng.below(2) as u8, claim_own: rng.chance(1, 2) },
                8..=11 => Tamper::Reshape { h: rng.below(8) as u8, kind: rng.below(RESHAPES.len() as u64) as u8, pick: rng.below(64) as u16 },
                _ => Tamper::Length {
                    h: rng.below(8) as u8,
                    field: rng.below(VARLEN.len() as u64) as u8,
                    form: rng.below(LENGTH_FORMS.len() as u64) as u8,
                    pick: rng.below(1 << 12) as u16,
                },
            }),
            9 => match rng.below(10) {
                0 | 1 => Kind::Replay { skew_ms: *rng.pick(&[1u16, 7, 250]), own_id: false, sm_b: 0, bad_at: 0 },
                2 => Kind::Replay { skew_ms: 0, own_id: true, sm_b: 0, bad_at: 0 },
                3..=5 => Kind::Replay { skew_ms: 0, own_id: false, sm_b: 0, bad_at: 0 },
                // replicas set up differently, and sequences with a wrong block in them
                _ => Kind::Replay { skew_ms: 0, own_id: false, sm_b: rng.below(4) as u8, bad_at: if rng.chance(2, 3) { rng.range(1, 4) as u8 } else { 0 } },
            },
            _ => Kind::Commits,
        };
        // tamper cases: a third with one or two co-signed blocks on top; always when the
        // storage fault is aimed at a co-signature (a commit never stores any)
        let cosigned_blocks = match &kind {
            Kind::Tamper(t) => {
                let n = if rng.chance(1, 3) { rng.range(1, 2) as u8 } else { 0 };
                match t {
                    Tamper::Length { field, .. } if VARLEN[*field as usize % VARLEN.len()].1 == "signatures" => n.max(1),
                    _ => n,
                }
            },
            _ => 0,
        };
        let stick = *rng.pick(&[0u64, 50, 80, 92]);
        let schedule = if nthreads > 1 { sched::gen_schedule(rng, 30 + 25 * nthreads, stick) } else { Vec::new() };
        let epoch_ms = 1 + rng.below(1 << 41);
        Case { kind, auto_merge: rng.chance(1, 2), validation, epoch_ms, max_txs, cosigned_blocks, second_validator: rng.chance(1, 2), threads, schedule }
    }

    fn run(&self, case: &Case, ctx: &Arc<RunCtx>) -> RunOut {
        // switch threads only at this scenario's own layer's sites (see sched::Baton::allow)
        crate::sched::set_allowed_sites(&["c16.", "chain.", "tensor_chain."]);
        let mut out = RunOut::default();
        let concurrent = case.threads.len() > 1;
        if case.epoch_ms != 0 {
            ctx.step_wall_ms((case.epoch_ms % (1 << 42)) as i64);
        }
        let t_init = ctx.lock().wall_ns;
        let store = TensorStore::new();
        let mut cfg = ChainConfig::new("n0").with_auto_merge(case.auto_merge);
        if case.max_txs > 0 {
            cfg = cfg.with_max_txs(case.max_txs as usize);
        }
        let centroids = case.validation.centroid_vectors();
        let codebook = !centroids.is_empty();
        let chain = if codebook {
            // the only public constructor that takes a codebook; it generates its own
            // identity (the kernel serves that getrandom from the run's random stream)
            let v = &case.validation;
            TensorChain::with_codebook(
                store,
                cfg,
                GlobalCodebook::from_centroids(centroids),
                CodebookConfig::default(),
                ValidationConfig {
                    state_threshold: f32::from(v.state_pct) / 100.0,
                    max_transition_magnitude: f32::from(v.max_mag_x10) / 10.0,
                    strict_transition: !v.lenient,
                    codebook_config: CodebookConfig::default(),
                },
            )
        } else {
            TensorChain::with_identity(store, cfg, sim_identity(ctx))
        };
        let second = if case.second_validator {
            let id = sim_identity(ctx);
            chain.register_validator(&id);
            Some(id)
        } else {
            None
        };
        if let Err(e) = chain.initialize() {
            out.harness_error = Some(format!("initialize: {e}"));
            return out;
        }
        ctx.fp(&format!(
            "{}:{}:am{}:cb{}",
            match &case.kind {
                Kind::Commits => "commits",
                Kind::Tamper(_) => "tamper",
                Kind::Replay { .. } => "replay",
            },
            case.threads.len(),
            case.auto_merge,
            codebook
        ));
        if codebook {
            let v = &case.validation;
            ctx.event(&format!(
                "codebook centroids {:?} (sums of delta directions){} state_threshold {}% max_transition_magnitude {}/10 strict {}",
                v.centroids,
                if v.short_dim { " half dimension" } else { "" },
                v.state_pct,
                v.max_mag_x10,
                !v.lenient
            ));
            ctx.probe("chain_with_codebook");
        }
        let world = Arc::new(World {
            ctx: ctx.clone(),
            chain,
            recs: Mutex::new(Vec::new()),
            in_commit: Mutex::new(vec![None; case.threads.len().max(1)]),
            codebook,
            late_commit_failure: Mutex::new(false),
            pending: Mutex::new(None),
            private_clock: case.epoch_ms != 0,
            commit_wall: Mutex::new(Vec::new()),
            concurrent,
        });

        if !concurrent {
            let mut slots = BTreeMap::new();
            let prog = case.threads.first().cloned().unwrap_or_default();
            for (i, op) in prog.iter().enumerate() {
                let w = world.clone();
                let r = std::panic::catch_unwind(std::panic::AssertUnwindSafe(|| w.exec(0, &mut slots, op)));
                if let Err(p) = r {
                    out.violation = Some(Violation {
                        class: format!("panic-in-operation{}", world.shape()),
                        detail: format!("op {i} {op:?} panicked: {}", panic_msg(p.as_ref())),
                    });
                    out.nontrivial = true;
                    return out;
                }
                ctx.fp(match op {
                    Op::Begin { .. } => "b",
                    Op::Put { .. } => "p",
                    Op::Del { .. } => "d",
                    Op::Commit { .. } => "c",
                    Op::Rollback { .. } => "r",
                    Op::Advance { .. } => "a",
                    Op::Tx { tx, .. } => tx_kind(tx),
                    Op::Validator { present: true } => "V",
                    Op::Validator { present: false } => "v",
                });
                if let Some(v) = world.pending.lock().unwrap().take() {
                    out.violation = Some(Violation { class: v.class, detail: format!("op {i} {op:?}: {}", v.detail) });
                    out.nontrivial = true;
                    return out;
                }
                if matches!(op, Op::Commit { .. } | Op::Rollback { .. }) {
                    if let Some(v) = world.judge(&format!("after op {i} {op:?}")) {
                        out.violation = Some(v);
                        out.nontrivial = true;
                        return out;
                    }
                }
            }
        } else {
            let mut bodies: Vec<sched::Body> = Vec::new();
            for (t, prog) in case.threads.iter().enumerate() {
                let w = world.clone();
                let prog = prog.clone();
                bodies.push(Box::new(move || {
                    let mut slots = BTreeMap::new();
                    for op in &prog {
                        w.exec(t, &mut slots, op);
                        sched::yield_point("c16.op");
                    }
                }));
            }
            // the case's schedule, then a fair round-robin tail (a thread spinning on a
            // yielding lock must not be chosen forever)
            let mut schedule = case.schedule.clone();
            for i in 0..4000usize {
                schedule.push((i % 12) as u8);
            }
            let res = sched::run_threads(ctx, &schedule, 4000, bodies);
            if res.exhausted {
                out.harness_error = Some(format!("schedule exhausted after {} steps (threads still running)", res.steps));
                return out;
            }
            // which commit phases overlapped (from the sites threads resumed from)
            let n = case.threads.len();
            let mut phase = vec![0u8; n]; // 1 = inside commit before the snapshot, 2 = past the snapshot, not yet appended
            for (t, site) in res.trace.iter().zip(res.trace_sites.iter()) {
                let t = *t as usize;
                phase[t] = match *site {
                    "chain.commit.after_conflict_check" | "chain.commit.before_snapshot" => 1,
                    "chain.commit.after_snapshot" | "chain.commit.after_apply" | "chain.commit.after_state_root" | "chain.commit.before_append" => 2,
                    "tensor_chain.lock" | "tensor_chain.lock.wait" => phase[t],
                    _ => 0,
                };
                if *site == "chain.commit.before_restore" {
                    ctx.probe("append_failure_path_under_concurrency");
                }
                if phase.iter().filter(|p| **p == 2).count() >= 2 {
                    ctx.probe("two_commits_past_snapshot_before_append");
                }
                if phase.iter().filter(|p| **p >= 1).count() >= 2 {
                    ctx.probe("two_commits_inside_commit");
                }
            }
            for (site, nn) in &res.preempted_at {
                if site.starts_with("chain.commit.") && *nn > 0 {
                    ctx.probe("preempted_inside_commit");
                }
                ctx.fp(&format!("pre:{site}"));
            }
            ctx.fp(&format!("sw{}", res.switches.min(12)));
            if !res.panics.is_empty() {
                out.violation = Some(Violation {
                    class: format!("panic-in-operation{}", world.shape()),
                    detail: format!("thread panics: {:?}", res.panics),
                });
                out.nontrivial = true;
                return out;
            }
            world.ensure_own_key_registered();
            if let Some(v) = world.judge("after all threads finished") {
                out.violation = Some(v);
                out.nontrivial = true;
                return out;
            }
        }
        if !concurrent && world.ensure_own_key_registered() {
            // the chain went through commits that were refused for the missing key: with
            // the key back, every clause (verify() included) holds again
            if let Some(v) = world.judge("after the program, own key registered again") {
                out.violation = Some(v);
                out.nontrivial = true;
                return out;
            }
        }

        let height = world.chain.height();
        out.nontrivial = height >= 1 && (!concurrent || ctx.lock().probes.get("concurrent_commits_overlapped").copied().unwrap_or(0) > 0);
        ctx.fp(&format!("h{height}"));
        match &case.kind {
            Kind::Commits => {},
            Kind::Tamper(t) => self.run_tamper(&world, t, case.cosigned_blocks, second.as_ref(), &mut out),
            Kind::Replay { skew_ms, own_id, sm_b, bad_at } => self.run_replay(&world, t_init, *skew_ms, *own_id, *sm_b, *bad_at, &mut out),
        }
        out
    }

    fn shrink(&self, case: &Case) -> Vec<Case> {
        let mut v = Vec::new();
        // drop a whole thread (never the last two: that would change the execution mode)
        if case.threads.len() > 2 {
            for i in 0..case.threads.len() {
                let mut c = case.clone();
                c.threads.remove(i);
                v.push(c);
            }
        }
        for (t, prog) in case.threads.iter().enumerate() {
            for ops in drop_chunks(prog) {
                let mut c = case.clone();
                c.threads[t] = ops;
                v.push(c);
            }
        }
        for s in drop_chunks(&case.schedule) {
            let mut c = case.clone();
            c.schedule = s;
            v.push(c);
        }
        for (i, p) in case.schedule.iter().enumerate() {
            if *p != sched::STAY {
                let mut c = case.clone();
                c.schedule[i] = sched::STAY;
                v.push(c);
            }
        }
        if case.auto_merge {
            let mut c = case.clone();
            c.auto_merge = false;
            v.push(c);
        }
        if case.second_validator {
            let mut c = case.clone();
            c.second_validator = false;
            v.push(c);
        }
        if case.max_txs != 0 {
            let mut c = case.clone();
            c.max_txs = 0;
            v.push(c);
        }
        if case.cosigned_blocks != 0 {
            let mut c = case.clone();
            c.cosigned_blocks -= 1;
            v.push(c);
        }
        if case.validation != Validation::default() {
            let mut c = case.clone();
            c.validation = Validation::default();
            v.push(c);
            let d = Validation::default();
            let mut c = case.clone();
            c.validation = Validation { centroids: case.validation.centroids.clone(), ..d };
            if c.validation != case.validation {
                v.push(c);
            }
            for i in 0..case.validation.centroids.len() {
                let mut c = case.clone();
                c.validation.centroids.remove(i);
                v.push(c);
                if case.validation.centroids[i].len() > 1 {
                    for j in 0..case.validation.centroids[i].len() {
                        let mut c = case.clone();
                        c.validation.centroids[i].remove(j);
                        v.push(c);
                    }
                }
            }
        }
        for (t, prog) in case.threads.iter().enumerate() {
            for (i, op) in prog.iter().enumerate() {
                if let Op::Begin { ws, dir } = op {
                    if *dir % 6 != 0 {
                        let mut c = case.clone();
                        c.threads[t][i] = Op::Begin { ws: *ws, dir: 0 };
                        v.push(c);
                    }
                }
            }
        }
        match &case.kind {
            Kind::Replay { skew_ms, own_id, sm_b, bad_at } => {
                if *skew_ms > 1 {
                    let mut c = case.clone();
                    c.kind = Kind::Replay { skew_ms: 1, own_id: *own_id, sm_b: *sm_b, bad_at: *bad_at };
                    v.push(c);
                }
                if *sm_b != 0 {
                    let mut c = case.clone();
                    c.kind = Kind::Replay { skew_ms: *skew_ms, own_id: *own_id, sm_b: 0, bad_at: *bad_at };
                    v.push(c);
                }
                if *bad_at != 0 {
                    let mut c = case.clone();
                    c.kind = Kind::Replay { skew_ms: *skew_ms, own_id: *own_id, sm_b: *sm_b, bad_at: 0 };
                    v.push(c);
                }
            },
            Kind::Tamper(Tamper::Field { h, field }) if *h > 1 => {
                let mut c = case.clone();
                c.kind = Kind::Tamper(Tamper::Field { h: 1, field: *field });
                v.push(c);
            },
            Kind::Tamper(Tamper::Length { h, field, form, pick }) if *h > 1 || *pick > 0 => {
                if *h > 1 {
                    let mut c = case.clone();
                    c.kind = Kind::Tamper(Tamper::Length { h: 1, field: *field, form: *form, pick: *pick });
                    v.push(c);
                }
                if *pick > 0 {
                    let mut c = case.clone();
                    c.kind = Kind::Tamper(Tamper::Length { h: *h, field: *field, form: *form, pick: 0 });
                    v.push(c);
                }
            },
            Kind::Tamper(Tamper::Reshape { h, kind, pick }) if *h > 1 || *pick > 0 => {
                if *h > 1 {
                    let mut c = case.clone();
                    c.kind = Kind::Tamper(Tamper::Reshape { h: 1, kind: *kind, pick: *pick });
                    v.push(c);
                }
                if *pick > 0 {
                    let mut c = case.clone();
                    c.kind = Kind::Tamper(Tamper::Reshape { h: *h, kind: *kind, pick: 0 });
                    v.push(c);
                }
            },
            _ => {},
        }
        v
    }

    fn required_probes(&self) -> Vec<&'static str> {
        vec![
            "concurrent_commits_overlapped",
            "preempted_inside_commit",
            "auto_merge_merged",
            "merge_vetoed_by_validator",
            "merge_vetoed_candidate_had_writes",
            "merge_accepted_by_validator",
            "tamper_detected_by_signature",
            "tamper_detected_by_hash_link",
            "replay_blocks_accepted",
            "replay_replicas_with_different_state_machine_setups",
            "replay_wrong_state_root_block_similar_to_recent_blocks",
            // every operation kind reached a block
            "block_with_table_op",
            "block_with_graph_op",
            "block_with_embed_op",
            "block_with_cas_op",
            // commits refused by Chain::append after their operations were applied
            "commit_failed_after_apply",
            "commit_failed_after_apply_multi_op",
            "commit_failed_after_apply_with_table_ops",
            "failed_commit_after_apply_left_store_untouched",
            "commit_failed_on_block_size",
            // two-field alterations of stored blocks
            "boundary_shift_within_tx_applied",
            "boundary_shift_across_txs_applied",
            "equal_length_swap_applied",
            "tx_reorder_applied",
            "header_two_field_alteration_applied",
            // length alterations of stored blocks
            "field_extended",
            "field_truncated",
            "field_emptied",
            "proposer_signature_extended",
            "header_field_length_altered",
            "tx_field_length_altered",
            "cosignature_length_altered",
            "field_length_altered_in_inner_block",
            "cosigned_block_appended",
        ]
    }
    fn rule(&self) -> String {
        "A case is one program of begin/put/delete/any-other-Transaction-kind (embed, node create/delete, edge create, table insert/update/delete, compare-and-swap; half of the cases)/commit/rollback/advance-time operations per thread, in a third of the cases with the chain's own key removed from its validator registry somewhere in the program and mostly put back later (the commits in between are refused by Chain::append AFTER their operations were applied; in sequential cases the full store dump, height and tip before and after every failed commit call are compared), in an eighth with max_txs_per_block 2-4 (1 thread: sequential over 2-4 interleaved workspaces, oracle evaluated after every commit and rollback; 2-4 threads: baton-scheduled with an explicit schedule, switches at operation boundaries and at 8 hook sites inside TensorChain::commit, oracle evaluated after quiescence), auto-merge on/off, the chain's codebook / transition-validation configuration (default empty codebook, or TensorChain::with_codebook with 1-3 centroids that are sums of the workspaces' delta directions, state threshold 0.6/0.8/0.95, maximum transition magnitude 0.5/1/3, strict or lenient, full or half dimension: auto-merge's validator accepts some merged transitions and vetoes others), per-workspace delta embeddings (none / orthogonal / identical / overlapping) and shared or disjoint key sets; Tamper cases add one storage fault on the stored block records (15 single-field mutations, removal, swap, forgery re-signed by a non-validator or by another validator, or one of 7 two-field alterations: boundary between adjacent variable-length fields of a stored transaction moved by 1-8 bytes, tail of one transaction's last field moved to the head of the next transaction's first field or back, two equal-length fields swapped within one or across two transactions, two transactions exchanged, two 32-byte header fields swapped, the boundaries quantized_codes|timestamp|proposer of the header moved; or a change of the LENGTH of one variable-length field - proposer signature, proposer id, code list, delta embedding, any string / bytes / f32-vector field of any stored transaction, the co-signature list, a co-signature's signature or signer - by appending one unit, appending a second copy of the field, cutting off the last unit, cutting off the second half, or emptying it; block chosen over genesis, inner blocks and tip), in a third of the tamper cases (and whenever a co-signature is aimed at) after one or two blocks carrying validator co-signatures were appended through new_block / add_signature / append_block and verify() accepted them, followed by verify(); Replay cases feed the committed blocks to two TensorStateMachine replicas on their own OS threads. Non-trivial: at least one block was committed and, for multi-thread cases, two commit calls overlapped in time. Distinct: hash of (kind, thread count, auto-merge, codebook empty or not, validator vetoes, operation kinds in order, late commit failures, sites at which threads were preempted, switch count, height, tamper kind).".into()
    }
    fn components(&self) -> Value {
        json!({
            "real": ["tensor_chain::TensorChain (begin, commit incl. conflict detection and auto-merge, rollback, verify, get_block, height)", "tensor_chain::Chain (append, verify_chain, initialize)", "TransactionWorkspace / TransactionManager", "GlobalCodebook / CodebookManager / TransitionValidator (consulted by auto-merge and for quantized_codes; non-empty codebook in half of the cases)", "Block / BlockHeader hashing, tx merkle root, Ed25519 signing and ValidatorRegistry", "TensorStateMachine::apply_block + compute_state_root (replicas)", "GraphEngine (chain links)", "TensorStore incl. snapshot_bytes/restore_from_bytes"],
            "simulated": ["thread interleaving (baton scheduler, schedule in the case)", "wall clock (block, workspace and graph-node timestamps)", "OS randomness (Ed25519 keys, HashMap seeds per thread)", "storage faults on block records (direct store writes: contents, length of every variable-length field, removal, swap, forgery)", "validator registry membership of the chain's own key (public ValidatorRegistry::remove / register_public_key)"],
            "stub": ["RaftNode inside TensorStateMachine is constructed but never driven (apply_block only)"]
        })
    }
    fn assumptions(&self) -> Vec<String> {
        vec![
            "an undetected change of a field's length is classified under the same class as an undetected change of that field's contents (tamper-undetected:field:<field>:<position>; every transaction field under tx_data, everything inside Block.signatures under signatures): the class names the part of the stored block that verification does not cover, the detail names the form".into(),
            "blocks committed through TensorChain::commit never carry co-signatures; blocks that do are appended through TensorChain::new_block / Block::add_signature / TensorChain::append_block after the workspace program (their transactions are not applied to the store by that interface and are not judged against it)".into(),
            "tampering is applied to the store underneath a live TensorChain instance (its in-memory height and tip hash are those of the untampered chain); re-opening the chain after tampering is not judged".into(),
            "a stored block's fields are the fields of `Block` (header fields, transactions, signatures); the auxiliary record fields _height/_hash/_timestamp next to the serialized block are not judged".into(),
            "a commit of an empty workspace returns Ok without a block and is not counted".into(),
            "the store keys an operation writes are the ones the Transaction variants document (emb:{key}, node:{key}, edge:{from}:{to}:{type}, table:{table}:row:{row id}, for an insert :row:{hex of the operation's hash}); the reference model is written from that description, not taken from apply_transaction_to_store".into(),
            "workspace operations use graph keys that are not numbers (node:u:n1): GraphEngine keeps the chain-link nodes of the same store under node:{numeric id} / edge:{numeric id}, and a NodeCreate/NodeDelete with a numeric key would overwrite them; that collision is outside the property and is not generated".into(),
            "keys under chain:, _graph*, node:{digit}.., edge:{digit}.. are the chain's own bookkeeping: they are compared before/after a failed commit (sequential cases) but not against the reference model".into(),
            "while the chain's own key is out of the validator registry verify() is expected to refuse (unknown proposer) and is not judged; every run puts the key back at the end and judges again".into(),
            "no Transaction kind can fail in apply_transaction_to_store on a store without WAL (TensorStore::put never fails, deletes are idempotent) and compute_state_root cannot fail without a concurrent foreign delete, so the only commit failure after apply that the public interface can provoke is Chain::append refusing the block".into(),
            "a merge candidate that auto-merge gives up (validator veto) ends in state Failed without its owner having done anything; the property only asks that chain and store hold none of its writes, so that state is not judged".into(),
            "TensorChain::commit has no path on which the validator rejects the committing workspace itself (it only vetoes merge candidates); the probe commit_rejected_by_validator watches for errors of the validation family and stays at 0 on this tree".into(),
            "a workspace merged into another commit counts as committed when its state() is Committed (its owner's commit call returns an error by design)".into(),
            "replicas are TensorStateMachine over a Chain sharing the replica's store, created with the origin's node id and, in the baseline, replaying at the same simulated instants as the origin committed".into(),
        ]
    }
    fn watchdog_secs(&self) -> u64 {
        300
    }
}

#[allow(dead_code)]
fn _unused(_: BTreeSet<u8>) {}
