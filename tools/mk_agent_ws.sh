#!/bin/sh
# mk_agent_ws.sh <name>: scratch workspace for building a scenario without touching /repo or /verif.
#   /tmp/ag-<name>/repo  detached git worktree of /repo HEAD
#   /tmp/ag-<name>/sim   copy of /verif/sim whose path deps point at that worktree, own target dir
set -e
n="$1"; d="/tmp/ag-$n"
rm -rf "$d"; mkdir -p "$d"
git -C /repo worktree add --detach "$d/repo" HEAD >/dev/null 2>&1
rsync -a --exclude target --exclude build.log /verif/sim/ "$d/sim/"
sed -i "s#/repo/#$d/repo/#g" "$d/sim/Cargo.toml"
true
mkdir -p "$d/out"
echo "$d"
