//! Baton scheduler: real OS threads, exactly one runnable at a time, the next
//! one chosen from an explicit schedule (a list of small integers). Threads
//! give the baton back at `yield_point`s: operation boundaries in the harness
//! and the `neumann_verif` hook sites inside /repo. The schedule is part of the
//! case, so a run is a pure function of it, and it can be shrunk and replayed.

use crate::ctx::{install, RunCtx};
use std::cell::RefCell;
use std::collections::BTreeMap;
use std::sync::{Arc, Condvar, Mutex};

/// schedule entry meaning "keep running the thread that ran last, if it can"
pub const STAY: u8 = 255;
/// schedule entry: force a switch to the next runnable thread
pub const NEXT: u8 = 254;

#[derive(Clone, Copy, PartialEq, Eq, Debug)]
enum Turn {
    Controller,
    Thread(usize),
    FreeRun,
    /// the execution was given up (step budget exhausted while every live thread
    /// spins on a lock: a deadlock among the scheduled threads); threads stay
    /// parked for good and are not joined
    Abandoned,
}

struct BState {
    turn: Turn,
    done: Vec<bool>,
    site_of: Vec<&'static str>,
    /// threads that yielded at a "*.wait" site (spinning on a lock another
    /// thread holds): not picked again before some other thread made progress
    /// (yielded at an ordinary site or finished)
    waiting: Vec<bool>,
}

pub struct Baton {
    m: Mutex<BState>,
    cv: Condvar,
    /// site-name prefixes at which threads of this execution may be switched
    /// (None: everywhere). Hook sites of layers *below* the one a scenario
    /// studies are reached while the layer above holds its own locks (the
    /// relational engine calls the store inside an index lock, say), so a
    /// scenario enables only its own layer's sites.
    allow: Option<Vec<&'static str>>,
}

thread_local! {
    static ALLOW: RefCell<Option<Vec<&'static str>>> = const { RefCell::new(None) };
    static ME: RefCell<Option<(Arc<Baton>, usize)>> = const { RefCell::new(None) };
    /// optional per-thread observer of the sites this thread yields at (see `set_site_observer`)
    static OBSERVER: RefCell<Option<Box<dyn Fn(&'static str)>>> = const { RefCell::new(None) };
}

/// Site-name suffix of a yield made by a thread that could not take a lock
/// (`try_lock` failed) and will retry: the controller never lets a `STAY`
/// pick keep such a thread running, so a lock holder parked at a hook site is
/// always reached and a waiter cannot spin the schedule away.
pub const BLOCKED_SUFFIX: &str = ".blocked";

/// Install (or clear) an observer on the calling scheduled thread. It is
/// called with the site name at every `yield_point` of this thread, before the
/// baton is given back. Scenarios use it to derive probes ("thread is inside
/// window X"); it must not call `yield_point` itself.
pub fn set_site_observer(f: Option<Box<dyn Fn(&'static str)>>) {
    let _ = OBSERVER.try_with(|o| *o.borrow_mut() = f);
}

/// Restrict the sites at which the next `run_threads` of this thread switches
/// threads to those starting with one of `prefixes` (see `Baton::allow`).
pub fn set_allowed_sites(prefixes: &[&'static str]) {
    ALLOW.with(|a| *a.borrow_mut() = Some(prefixes.to_vec()));
}

/// Called from harness code and (through the fn pointer installed in
/// `tensor_store::verif_hooks`) from /repo hook sites.
pub fn yield_point(site: &'static str) -> bool {
    let me = ME.try_with(|m| m.borrow().clone()).ok().flatten();
    if let Some((b, i)) = me {
        if let Some(allow) = &b.allow {
            if !allow.iter().any(|p| site.starts_with(p)) {
                return false;
            }
        }
        let _ = OBSERVER.try_with(|o| {
            if let Ok(o) = o.try_borrow() {
                if let Some(f) = o.as_ref() {
                    f(site);
                }
            }
        });
        let mut g = b.m.lock().unwrap();
        if g.turn == Turn::FreeRun {
            return false;
        }
        g.site_of[i] = site;
        if site.ends_with(".wait") {
            g.waiting[i] = true;
        } else {
            // real progress was made: every spinner may retry
            g.waiting.iter_mut().for_each(|w| *w = false);
        }
        g.turn = Turn::Controller;
        b.cv.notify_all();
        while g.turn != Turn::Thread(i) && g.turn != Turn::FreeRun {
            g = b.cv.wait(g).unwrap();
        }
        return g.turn != Turn::FreeRun;
    }
    false
}

/// Install `yield_point` as the /repo schedule-point hook (idempotent).
pub fn install_repo_hook() {
    tensor_store::verif_hooks::install(yield_point);
}

/// True when the calling thread runs under the baton scheduler.
pub fn scheduled() -> bool {
    ME.with(|m| m.borrow().is_some())
}

#[derive(Debug, Default, Clone)]
pub struct SchedResult {
    /// every live thread was spinning on a lock when the step budget ran out:
    /// a deadlock among the scheduled threads. They are left parked (leaked).
    pub deadlocked: bool,
    pub steps: usize,
    pub switches: usize,
    pub exhausted: bool,
    pub panics: Vec<String>,
    /// how often a thread was preempted at each site (i.e. another thread ran
    /// between its yield at that site and its resumption)
    pub preempted_at: BTreeMap<&'static str, u64>,
    pub trace: Vec<u8>,
    /// parallel to `trace`: the site at which the chosen thread was parked
    /// ("start" before its first step), i.e. the site it resumes from
    pub trace_sites: Vec<&'static str>,
}

pub type Body = Box<dyn FnOnce() + Send + 'static>;

pub fn run_threads(ctx: &Arc<RunCtx>, schedule: &[u8], max_steps: usize, bodies: Vec<Body>) -> SchedResult {
    let n = bodies.len();
    let baton = Arc::new(Baton {
        m: Mutex::new(BState { turn: Turn::Controller, done: vec![false; n], site_of: vec!["start"; n], waiting: vec![false; n] }),
        cv: Condvar::new(),
        allow: ALLOW.with(|a| a.borrow().clone()),
    });
    let panics = Arc::new(Mutex::new(Vec::<String>::new()));
    let mut handles = Vec::new();
    for (i, body) in bodies.into_iter().enumerate() {
        let b = baton.clone();
        let c = ctx.clone();
        let pn = panics.clone();
        let h = std::thread::Builder::new()
            .name(format!("sim-t{i}"))
            .stack_size(8 << 20)
            .spawn(move || {
                let _inst = install(&c);
                ME.with(|m| *m.borrow_mut() = Some((b.clone(), i)));
                {
                    let mut g = b.m.lock().unwrap();
                    while g.turn != Turn::Thread(i) && g.turn != Turn::FreeRun {
                        g = b.cv.wait(g).unwrap();
                    }
                }
                let r = std::panic::catch_unwind(std::panic::AssertUnwindSafe(body));
                if let Err(e) = r {
                    let msg = if let Some(s) = e.downcast_ref::<String>() {
                        s.clone()
                    } else if let Some(s) = e.downcast_ref::<&str>() {
                        (*s).to_string()
                    } else {
                        "panic".to_string()
                    };
                    pn.lock().unwrap().push(format!("t{i}: {msg}"));
                }
                ME.with(|m| *m.borrow_mut() = None);
                let mut g = b.m.lock().unwrap();
                g.done[i] = true;
                g.waiting.iter_mut().for_each(|w| *w = false);
                if g.turn != Turn::FreeRun {
                    g.turn = Turn::Controller;
                }
                b.cv.notify_all();
            })
            .expect("spawn sim thread");
        handles.push(h);
    }

    let mut res = SchedResult::default();
    let mut k = 0usize;
    let mut last: Option<usize> = None;
    loop {
        let mut g = baton.m.lock().unwrap();
        while g.turn != Turn::Controller {
            g = baton.cv.wait(g).unwrap();
        }
        let mut runnable: Vec<usize> = (0..n).filter(|i| !g.done[*i]).collect();
        if runnable.is_empty() {
            break;
        }
        // a thread spinning at a "*.wait" site makes no progress until another
        // thread ran: leave it out while any other thread can run (otherwise a
        // STAY pick would re-run the spinner forever).
        if runnable.iter().any(|i| !g.waiting[*i]) {
            runnable.retain(|i| !g.waiting[*i]);
        }
        if res.steps >= max_steps {
            res.exhausted = true;
            let all_waiting = (0..n).filter(|i| !g.done[*i]).all(|i| {
                g.waiting[i] || g.site_of[i].ends_with(BLOCKED_SUFFIX) || g.site_of[i].ends_with(".wait")
            });
            if all_waiting {
                // letting them run freely would block them for real and hang the join
                res.deadlocked = true;
                g.turn = Turn::Abandoned;
                drop(g);
                res.panics = panics.lock().unwrap().clone();
                return res;
            }
            g.turn = Turn::FreeRun;
            baton.cv.notify_all();
            break;
        }
        let p = schedule.get(k).copied().unwrap_or(STAY);
        k += 1;
        let choice = match (p, last) {
            // a thread waiting for a lock does not keep the baton on STAY: the next runnable one runs
            (STAY, Some(l)) if runnable.contains(&l) && runnable.len() > 1 && g.site_of[l].ends_with(BLOCKED_SUFFIX) => {
                *runnable.iter().find(|i| **i > l).unwrap_or(&runnable[0])
            },
            (STAY, Some(l)) if runnable.contains(&l) => l,
            (STAY, _) => runnable[0],
            // forced preemption: the next runnable thread after the one that ran last
            (NEXT, Some(l)) => *runnable.iter().find(|i| **i > l).unwrap_or(&runnable[0]),
            (p, _) => runnable[p as usize % runnable.len()],
        };
        if let Some(l) = last {
            if l != choice {
                res.switches += 1;
                if !g.done[l] {
                    *res.preempted_at.entry(g.site_of[l]).or_insert(0) += 1;
                }
            }
        }
        res.trace.push(choice as u8);
        res.trace_sites.push(g.site_of[choice]);
        last = Some(choice);
        res.steps += 1;
        g.turn = Turn::Thread(choice);
        baton.cv.notify_all();
    }
    for h in handles {
        let _ = h.join();
    }
    res.panics = panics.lock().unwrap().clone();
    res
}

/// Generate a schedule of `len` picks. `stickiness` in 0..=100 is the
/// percentage of STAY entries (few preemptions explore "almost sequential"
/// executions, which is where most atomicity bugs live; 0 is a random walk).
/// PCT-style schedule: the thread picked first runs on, except at `d` randomly
/// placed forced preemptions (`NEXT`) among the first `len` schedule points —
/// the "one or two context switches at the right place" executions that
/// check-then-act defects need, which a sticky random walk reaches only with
/// probability (stickiness)^(length of the other thread's critical path).
pub fn gen_schedule_pct(rng: &mut crate::rng::Rng, len: usize, d: usize) -> Vec<u8> {
    let mut v = vec![STAY; len.max(1)];
    v[0] = rng.below(16) as u8;
    for _ in 0..d {
        let at = 1 + rng.usize_below(len.max(2) - 1);
        v[at] = NEXT;
    }
    v
}

pub fn gen_schedule(rng: &mut crate::rng::Rng, len: usize, stickiness: u64) -> Vec<u8> {
    (0..len)
        .map(|_| if rng.below(100) < stickiness { STAY } else { rng.below(16) as u8 })
        .collect()
}
