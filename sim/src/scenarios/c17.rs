//! C17 — Cluster membership views converge and never move backwards.
//!
//! Property text (the specification; the oracle states nothing beyond it):
//!
//!   "Cluster membership views converge and never move backwards. Two nodes
//!    that have received the same set of membership updates hold identical
//!    views of every member's health and incarnation, regardless of the
//!    order, grouping or repetition in which the updates arrived. A node's
//!    recorded incarnation for any member and its logical clock never
//!    decrease, and a member is never recorded as failed at an incarnation
//!    higher than one that member itself announced."
//!
//! Configuration A (`Mode::Merge`, `Mode::Local`): 2-4 real
//! `LWWMembershipState` replicas. The case holds one multiset of updates
//! (node states over 2-4 members, incarnations/timestamps from tiny ranges so
//! ties are frequent, every health value) and, as explicit `Deliver` steps, a
//! delivery plan per replica: a permutation of the multiset with duplicates,
//! cut into batches (one batch = one `merge` call). The delivery order is the
//! simulated network fault. `Mode::Local` additionally interleaves the local
//! events suspect / fail / refute / mark_healthy / update_local and
//! replica-to-replica syncs; a replica that executed a local event is
//! *tainted* and no longer takes part in the convergence check.
//!
//! Configuration B (`Mode::Manager`): 2-4 real `GossipMembershipManager`s on
//! `net::SimTransport`, every timer path and every delivery decided by the
//! step list. Clauses (2) and (3) are judged on every manager after every
//! step; clause (1) between each manager and its shadow (below).
//!
//! Configuration C (`Mode::Threads`): ONE real `GossipMembershipManager`
//! (member n0, peers n1..) that receives the membership updates of the case
//! as the messages a node receives them in: `Sync{sender, states}` built from
//! the multiset (any subset, any batching, repeated), `Alive` (refute),
//! `Suspect` / `suspect_node` (suspect), `gossip_round` after the suspicion
//! timeout (fail), successful `PingAck` (mark-healthy). A sequential prefix
//! (`steps`) is followed by 1-3 scheduled threads (`threads`, one program
//! each) that call into the SAME manager concurrently: the manager is `Sync`,
//! every entry point takes `&self`, and in production its `run()` loop and the
//! transport's receive tasks do call it from different threads. The
//! manager's lock acquisitions (`tensor_chain.lock`, gossip.rs uses
//! `crate::sync_compat`) are the schedule points, the schedule is part of the
//! case. Clauses (2) and (3) are judged on the view every thread reads through
//! the public API after each of its completed calls (one read-locked snapshot;
//! the comparison with the previous snapshot is made before the observing
//! thread can be switched out, so snapshots are compared in the order in which
//! they were taken). A thread interleaving of deliveries is a delivery order at
//! the granularity of the manager's own critical sections; the statement's
//! "every permutation and batching of their delivery, interleaved with local
//! ... events" and "a node's recorded incarnation ... never decrease" do not
//! exempt overlapping deliveries, so configuration C gives verdicts.
//!
//! Registration and the other local entry points (B, C, D). Which members a
//! manager has registered with `add_peer` before the first step is part of the
//! case (`pre_peers`, any subset), `AddPeer` is a step kind that can occur at
//! any point - before or after gossip has told the node about the member - and
//! `LocalCall` drives the public entry points that are neither message handlers
//! nor timers (heal progress, bidirectional probes, flap records, callback
//! registration, readers, shutdown). None of them is a membership update: the
//! clauses are judged across them unchanged.
//!
//! Clause (1) between real managers. Configuration B gives every manager a
//! *shadow*: a second real manager with the same identity, configuration and
//! registration whose sends go nowhere. Every input the manager receives from
//! the other real managers (whole Sync messages as they were put on the wire -
//! bounded state lists, real sender times - and its registrations) is also put
//! on the shadow's backlog; `ShadowDeliver{pick}` / `ShadowDup{pick}` hand
//! backlog items to the shadow in any order and repetition, and the rest is
//! handed over at the end of the run in an order given by the case. Whenever
//! the backlog is empty manager and shadow have received the same set of
//! messages, in different orders. Configuration D (`Mode::Twins`) does the same
//! with 2-4 managers of identity n0 and Sync messages built from the multiset
//! (any sender, sender_time, grouping), see `run_d`. What is compared, and why
//! not the health of members a manager has stamped with its own clock, is
//! stated at `compare_views`. A manager that had a local suspect / refute /
//! mark-healthy / fail input (Suspect, Alive, PingAck message, `suspect_node`)
//! leaves the comparison, like a tainted replica of configuration A.
//!
//! The observer's wall clock. Every update of the multiset carries an `updated_at`
//! value of its own (`Upd::wall`, 0..3, independent of member, health, incarnation
//! and timestamp; ties included) in configurations A, C and D. The statement does
//! not mention it, no check reads it; it is input the merge must not be swayed by.
//!
//! Configuration D, identities and Suspect messages. The twins are either all n0
//! or each any member of the cluster (`Case::idents`): the same messages then reach
//! different members, among them the member the messages are about. A manager's
//! start-up node state about itself is the first update it has received; the others
//! receive it as an `own` update of the multiset. Suspect messages (about any
//! member, the receiver included, which makes it refute) no longer take a twin out
//! of the comparison; what is judged between such twins, and between twins of
//! different identity, is stated at `compare_views`.
//!
//! Who "announces" an incarnation (clause 3). In the API an incarnation of
//! member m originates from m in exactly three ways: its own node state
//! (`update_local(m, Healthy, inc)` executed on m), an `Alive{m, inc}` message
//! (applied by receivers through `refute(m, inc)`), and node states about m
//! that m itself put on the wire. Everything else (suspect, fail,
//! mark_healthy, third-party node states) re-uses an incarnation that was
//! learnt from m. The scenario therefore
//!   * flags updates of the multiset as `own` (always Healthy: written by the
//!     member) or third-party; third-party updates carry an incarnation
//!     clamped to the greatest incarnation the member announces in the
//!     multiset (or 0, the incarnation every member starts with), so the input
//!     itself never contains a fabricated incarnation, also after shrinking;
//!   * counts a `Refute{m, inc}` step as m announcing `inc` (it models the
//!     receipt of m's Alive message) and an `Announce` step as the replica's
//!     own member announcing its current counter;
//!   * in configuration B reads the announcements off the wire: `Alive{m, i}`
//!     messages sent by m;
//!   * in configuration C counts an `Alive{m, inc}` message as m announcing
//!     `inc` from the moment the call that delivers it starts.
//! With this encoding a correct implementation can never trip clause (3).

use crate::ctx::RunCtx;
use crate::driver::{drop_chunks, RunOut, Scenario, Tier, Violation};
use crate::net::{new_net, now_or_never, SimTransport};
use crate::rng::Rng;
use crate::sched;
use serde::{Deserialize, Serialize};
use serde_json::{json, Value};
use std::collections::{BTreeMap, BTreeSet};
use std::sync::atomic::{AtomicBool, AtomicU64, Ordering};
use std::sync::{Arc, Mutex, MutexGuard};
use std::time::Instant;
use tensor_chain::gossip::{GossipConfig, GossipMembershipManager, GossipMessage, GossipNodeState, LWWMembershipState};
use tensor_chain::membership::{ClusterView, MembershipCallback, NodeHealth};
use tensor_chain::network::Message;

/// One membership update of the multiset (a node state on the wire).
#[derive(Serialize, Deserialize, Clone, Debug, PartialEq)]
pub struct Upd {
    /// member the update is about (taken modulo `members`)
    pub m: u8,
    /// 0 Healthy, 1 Degraded, 2 Failed, 3 Unknown (modulo 4); ignored (Healthy) when `own`
    pub h: u8,
    pub inc: u8,
    pub ts: u8,
    /// written by member `m` itself (a self-announcement of `inc`)
    pub own: bool,
    /// the observer's wall clock carried by the node state (`updated_at`); an independent field of the
    /// update, from a tiny range. The statement speaks of health and incarnation only: two updates that
    /// differ in nothing but `wall` are the same update for the oracle, and no check reads the field.
    #[serde(default)]
    pub wall: u8,
}

#[derive(Serialize, Deserialize, Clone, Debug, PartialEq)]
pub enum Step {
    // ---- configuration A ----
    /// one `merge` call on replica `r` with the listed updates (indices into `updates`)
    Deliver { r: u8, items: Vec<u8> },
    /// `suspect(m, inc)`; `inc: None` = the incarnation currently recorded (what `suspect_node` passes)
    Suspect { r: u8, m: u8, inc: Option<u8> },
    Fail { r: u8, m: u8 },
    /// `refute(m, inc)`: receipt of m's `Alive{m, inc}`, i.e. m announces `inc`
    Refute { r: u8, m: u8, inc: u8 },
    MarkHealthy { r: u8, m: u8 },
    /// replica r (= member r) re-announces itself: `update_local(r, Healthy, own counter)`, counter +1 if `bump`
    Announce { r: u8, bump: bool },
    /// `to` handles a Sync from `from`: `sync_time(from.lamport)`, `merge(from.states_for_gossip)`
    Sync { from: u8, to: u8 },
    // ---- configuration B ----
    Round { r: u8 },
    SuspectNode { r: u8, m: u8 },
    Advance { ms: u32 },
    NetDeliver { pick: u8 },
    NetDrop { pick: u8 },
    NetDup { pick: u8 },
    // ---- configuration C: calls into the one manager n0 (also `Round`, `SuspectNode`, `Advance`; their `r` is ignored) ----
    /// `handle_gossip(Sync{sender: a peer, states: the listed multiset updates, sender_time: time})`
    /// (`r`: the twin it is delivered to in configuration D; ignored in C)
    MsgSync {
        #[serde(default)]
        r: u8,
        from: u8,
        items: Vec<u8>,
        time: u8,
    },
    /// `handle_gossip(Alive{m, inc})`: m announces `inc`
    MsgAlive {
        #[serde(default)]
        r: u8,
        m: u8,
        inc: u8,
    },
    /// `handle_gossip(Suspect{reporter: a peer, suspect: m, incarnation: inc})`
    MsgSuspect {
        #[serde(default)]
        r: u8,
        from: u8,
        m: u8,
        inc: u8,
    },
    /// `handle_gossip(PingAck{origin: a peer, target: m, sequence: 0, success: ok})`
    MsgPingAck {
        #[serde(default)]
        r: u8,
        from: u8,
        m: u8,
        ok: bool,
    },
    // ---- configurations B, C, D: registration and the remaining public local entry points of the manager ----
    /// `add_peer(n{m})` on manager r (C: the one manager; D: twin r) at any point of the run
    AddPeer {
        #[serde(default)]
        r: u8,
        m: u8,
    },
    /// one of the public entry points that are neither message handlers nor timers (see `local_call`), about member m
    LocalCall {
        #[serde(default)]
        r: u8,
        m: u8,
        kind: u8,
    },
    /// C, D: `handle_gossip(BidirectionalProbe{origin: a peer, probe_id: id, ..})` / `BidirectionalAck{.., responder: a peer}`
    MsgBidir {
        #[serde(default)]
        r: u8,
        from: u8,
        id: u8,
        ack: bool,
    },
    // ---- configuration B: the shadow of manager r (same identity, receives what r received, in its own order) ----
    /// hand one of the inputs r has received and its shadow has not (picked from the backlog) to the shadow
    ShadowDeliver { r: u8, pick: u8 },
    /// the same without removing it from the backlog (the shadow will see it again)
    ShadowDup { r: u8, pick: u8 },
}

#[derive(Serialize, Deserialize, Clone, Copy, Debug, PartialEq)]
pub enum Mode {
    Merge,
    Local,
    Manager,
    Threads,
    Twins,
}

#[derive(Serialize, Deserialize, Clone, Debug)]
pub struct Case {
    pub mode: Mode,
    pub members: u8,
    pub replicas: u8,
    pub updates: Vec<Upd>,
    pub steps: Vec<Step>,
    // configuration B knobs
    pub fanout: u8,
    pub max_states: u8,
    pub susp_ms: u32,
    // configuration C: after `steps` (sequential prefix) one scheduled thread per program
    #[serde(default)]
    pub threads: Vec<Vec<Step>>,
    /// baton schedule (see `sched::run_threads`)
    #[serde(default)]
    pub schedule: Vec<u8>,
    /// configurations B, C, D: who is registered with `add_peer` before the first step. Bit `4*i + j`:
    /// manager i registers member j at the start (C, D: i = 0). Replay files written before the field
    /// existed registered everybody up front.
    #[serde(default = "all_pre_registered")]
    pub pre_peers: u16,
    /// configuration B: order in which the backlog of a shadow is handed over at the end of the run
    /// (0 oldest first, 1 newest first, 2 alternating ends)
    #[serde(default)]
    pub flush: u8,
    /// configuration D: the identity of twin i is member `(idents >> 2*i) & 3` (modulo `members`). 0 (and
    /// every replay file written before the field existed): all twins are n0.
    #[serde(default)]
    pub idents: u8,
}

fn twin_ident(case: &Case, i: usize, members: usize) -> usize {
    ((case.idents >> (2 * (i % 4))) & 3) as usize % members
}
/// configuration D: column of `pre_peers` (row 0) that says whether a twin of identity `id` registers member j up front
fn pre_col(id: usize, j: usize) -> usize {
    if j == 0 {
        id
    } else {
        j
    }
}

fn all_pre_registered() -> u16 {
    u16::MAX
}

fn pre_registered(case: &Case, i: usize, j: usize) -> bool {
    (case.pre_peers >> ((4 * i + j) % 16)) & 1 == 1
}

pub struct C17;

/// (member, health code, incarnation, timestamp)
type Val = (u8, u8, u64, u64);

fn name(m: usize) -> String {
    format!("n{m}")
}
fn member_idx(s: &str) -> u8 {
    s.trim_start_matches('n').parse::<u8>().unwrap_or(255)
}
fn health(h: u8) -> NodeHealth {
    match h % 4 {
        0 => NodeHealth::Healthy,
        1 => NodeHealth::Degraded,
        2 => NodeHealth::Failed,
        _ => NodeHealth::Unknown,
    }
}
fn hcode(h: NodeHealth) -> u8 {
    match h {
        NodeHealth::Healthy => 0,
        NodeHealth::Degraded => 1,
        NodeHealth::Failed => 2,
        NodeHealth::Unknown => 3,
        _ => 9,
    }
}
fn hname(c: u8) -> &'static str {
    match c {
        0 => "Healthy",
        1 => "Degraded",
        2 => "Failed",
        3 => "Unknown",
        _ => "?",
    }
}
/// the multiset with the wall clock (`updated_at`) of every update, for the event log
fn show_multiset(vals: &[Val], walls: &[u64]) -> String {
    vals.iter().enumerate().map(|(i, v)| format!("#{i}={}@wall{}", show(&[*v]), walls.get(i).copied().unwrap_or(0))).collect::<Vec<_>>().join(" ")
}
fn show(v: &[Val]) -> String {
    let parts: Vec<String> = v.iter().map(|(m, h, i, t)| format!("n{m}:{}/inc{i}/ts{t}", hname(*h))).collect();
    format!("[{}]", parts.join(" "))
}
fn view_of<'a>(it: impl Iterator<Item = &'a GossipNodeState>) -> Vec<Val> {
    let mut v: Vec<Val> = it.map(|s| (member_idx(&s.node_id), hcode(s.health), s.incarnation, s.timestamp)).collect();
    v.sort_unstable();
    v
}

/// Bookkeeping for clause (2) on one node.
#[derive(Default)]
struct Mono {
    inc: BTreeMap<u8, u64>,
    lamport: u64,
}

/// Clause (2), first half, on one snapshot of a node's view:
/// "A node's recorded incarnation for any member ... never decrease[s]"
fn check_incarnations(cfg: &str, op: &str, who: usize, prev: &Mono, view: &[Val], hist: &dyn Fn() -> String) -> Option<Violation> {
    for (m, _h, inc, _ts) in view {
        if let Some(old) = prev.inc.get(m) {
            if inc < old {
                return Some(Violation {
                    class: format!("c2-incarnation-decreased:{cfg}:{op}"),
                    detail: format!(
                        "node r{who}: recorded incarnation of member n{m} went from {old} to {inc} in step `{op}`; view now {}; history: {}",
                        show(view),
                        hist()
                    ),
                });
            }
        }
    }
    None
}

/// Clause (2), second half: "[a node's] logical clock never decrease[s]"
fn check_lamport(cfg: &str, op: &str, who: usize, prev: &Mono, lamport: u64, hist: &dyn Fn() -> String) -> Option<Violation> {
    if lamport < prev.lamport {
        return Some(Violation {
            class: format!("c2-lamport-decreased:{cfg}:{op}"),
            detail: format!("node r{who}: logical clock went from {} to {lamport} in step `{op}`; history: {}", prev.lamport, hist()),
        });
    }
    None
}

/// Clause (3): "a member is never recorded as failed at an incarnation higher
/// than one that member itself announced"
fn check_failed(cfg: &str, op: &str, who: usize, view: &[Val], announced: &[u64], hist: &dyn Fn() -> String) -> Option<Violation> {
    for (m, h, inc, _ts) in view {
        if *h == 2 {
            let ann = announced.get(*m as usize).copied().unwrap_or(0);
            if *inc > ann {
                return Some(Violation {
                    class: format!("c3-failed-above-announced:{cfg}:{op}"),
                    detail: format!(
                        "node r{who}: member n{m} recorded Failed at incarnation {inc}, but the greatest incarnation n{m} itself announced is {ann} (step `{op}`); view {}; history: {}",
                        show(view),
                        hist()
                    ),
                });
            }
        }
    }
    None
}

/// Clauses (2) and (3), evaluated on one node after one step.
///
/// (2) "A node's recorded incarnation for any member and its logical clock
///      never decrease"
/// (3) "a member is never recorded as failed at an incarnation higher than
///      one that member itself announced"
fn check_backwards(
    cfg: &str,
    op: &str,
    who: usize,
    prev: &mut Mono,
    view: &[Val],
    lamport: u64,
    announced: &[u64],
    hist: &dyn Fn() -> String,
) -> Option<Violation> {
    if let Some(v) = check_incarnations(cfg, op, who, prev, view, hist) {
        return Some(v);
    }
    if let Some(v) = check_lamport(cfg, op, who, prev, lamport, hist) {
        return Some(v);
    }
    if let Some(v) = check_failed(cfg, op, who, view, announced, hist) {
        return Some(v);
    }
    for (m, _h, inc, _ts) in view {
        prev.inc.insert(*m, *inc);
    }
    prev.lamport = lamport;
    None
}

/// depth probes: the conditions clauses (2)/(3) are about were actually reached
fn depth_probes(ctx: &RunCtx, cfg: char, before: &[Val], after: &[Val]) {
    let (failed_pos, raised) = match cfg {
        'B' => ("mgr_failed_at_refuted_incarnation", "mgr_incarnation_raised"),
        'C' => ("thr_failed_at_refuted_incarnation", "thr_incarnation_raised"),
        'D' => ("twin_failed_at_positive_incarnation", "twin_incarnation_raised"),
        _ => ("failed_recorded_at_positive_incarnation", "incarnation_raised"),
    };
    for (m, h, inc, _) in after {
        let old = before.iter().find(|b| b.0 == *m);
        if *h == 2 && *inc > 0 && old.map_or(true, |o| o.1 != 2 || o.2 != *inc) {
            ctx.probe(failed_pos);
        }
        if let Some(o) = old {
            if *inc > o.2 {
                ctx.probe(raised);
            }
        }
    }
}

/// Effective values of the multiset and the greatest incarnation each member
/// announces inside it. Every member starts at incarnation 0
/// (GossipMembershipManager::new registers the local node with
/// update_local(local, Healthy, 0)); a third party can only repeat an
/// incarnation it learnt from the member, so third-party updates are clamped.
fn effective_vals(case: &Case, members: usize) -> (Vec<Val>, Vec<u64>) {
    let mut announced_ms = vec![0u64; members];
    for u in &case.updates {
        if u.own {
            let m = u.m as usize % members;
            announced_ms[m] = announced_ms[m].max(u64::from(u.inc));
        }
    }
    let vals: Vec<Val> = case
        .updates
        .iter()
        .map(|u| {
            let m = u.m as usize % members;
            if u.own {
                (m as u8, 0, u64::from(u.inc), u64::from(u.ts))
            } else {
                (m as u8, u.h % 4, u64::from(u.inc).min(announced_ms[m]), u64::from(u.ts))
            }
        })
        .collect();
    (vals, announced_ms)
}

/// `updated_at` of each update of the multiset (same indices as `effective_vals`)
fn walls_of(case: &Case) -> Vec<u64> {
    case.updates.iter().map(|u| u64::from(u.wall)).collect()
}

/// probe: the multiset contains an exact (member, incarnation, timestamp) tie of different health in
/// which the LESS severe report carries the LATER wall clock (a "latest observation wins" rule and the
/// severity rule would disagree on it)
fn probe_wall_against_severity(ctx: &RunCtx, vals: &[Val], walls: &[u64]) {
    let rank = |h: u8| match h {
        3 => 0u8,
        0 => 1,
        1 => 2,
        _ => 3,
    };
    for i in 0..vals.len() {
        for j in 0..vals.len() {
            if vals[i].0 == vals[j].0 && vals[i].2 == vals[j].2 && vals[i].3 == vals[j].3 && rank(vals[i].1) < rank(vals[j].1) && walls[i] > walls[j] {
                ctx.probe("tie_wall_clock_against_severity");
                return;
            }
        }
    }
}

// ---------------------------------------------------------------------------
// configuration A
// ---------------------------------------------------------------------------

struct Rep {
    st: LWWMembershipState,
    /// the mirror: same batches (each in reverse order), same local events
    st2: LWWMembershipState,
    tainted: bool,
    /// distinct update values received so far (only meaningful while untainted)
    recv: BTreeSet<Val>,
    /// order stamp of the first receipt of each multiset index
    first: BTreeMap<usize, u64>,
    mono: Mono,
    hist: Vec<String>,
    last_view: Vec<Val>,
}

fn run_a(case: &Case, ctx: &Arc<RunCtx>) -> RunOut {
    let mut out = RunOut::default();
    let members = case.members.clamp(1, 8) as usize;
    let nrep = case.replicas.clamp(1, 8) as usize;

    let (vals, announced_ms) = effective_vals(case, members);
    let walls = walls_of(case);
    probe_wall_against_severity(ctx, &vals, &walls);
    // announcements so far: multiset + Refute/Announce steps executed so far
    let mut announced = announced_ms.clone();

    // tie pairs: same member, incarnation, timestamp; different health
    let mut ties: Vec<(usize, usize)> = Vec::new();
    for i in 0..vals.len() {
        for j in i + 1..vals.len() {
            if vals[i].0 == vals[j].0 && vals[i].2 == vals[j].2 && vals[i].3 == vals[j].3 && vals[i].1 != vals[j].1 {
                ties.push((i, j));
            }
        }
    }
    if !ties.is_empty() {
        ctx.probe("multiset_contains_tie");
    }
    ctx.event(&format!(
        "A mode={:?} members={members} replicas={nrep} multiset={}",
        case.mode,
        show_multiset(&vals, &walls)
    ));

    let mut reps: Vec<Rep> = (0..nrep)
        .map(|_| Rep {
            st: LWWMembershipState::new(),
            st2: LWWMembershipState::new(),
            tainted: false,
            recv: BTreeSet::new(),
            first: BTreeMap::new(),
            mono: Mono::default(),
            hist: Vec::new(),
            last_view: Vec::new(),
        })
        .collect();
    // received set -> (view, replica, step) of the first untainted replica that held it
    let mut seen: BTreeMap<Vec<Val>, (Vec<Val>, usize, usize, String)> = BTreeMap::new();
    let mut stamp = 0u64;
    let mut comparisons = 0u64;
    let mut mirror_cmp = 0u64;
    let mut local_applied = 0u64;
    let mut ts_obs = false;

    for (sn, step) in case.steps.iter().enumerate() {
        // (replica touched, op name, whether an untainted delivery happened)
        let touched: (usize, &'static str);
        let mut delivered: Option<Vec<Val>> = None;
        match step {
            Step::Deliver { r, items } => {
                let r = *r as usize % nrep;
                let idx: Vec<usize> = items.iter().map(|i| *i as usize).filter(|i| *i < vals.len()).collect();
                if idx.is_empty() {
                    continue;
                }
                let batch: Vec<GossipNodeState> = idx
                    .iter()
                    .map(|i| {
                        let (m, h, inc, ts) = vals[*i];
                        GossipNodeState::with_wall_time(name(m as usize), health(h), ts, inc, walls[*i])
                    })
                    .collect();
                // probes
                for (a, i) in idx.iter().enumerate() {
                    if reps[r].recv.contains(&vals[*i]) || idx[..a].iter().any(|j| vals[*j] == vals[*i]) {
                        ctx.probe("duplicate_delivery");
                        ctx.fault_fired("duplicate");
                    }
                }
                if idx.len() > 1 {
                    ctx.fault_fired("batched");
                    if ties.iter().any(|(i, j)| idx.contains(i) && idx.contains(j)) {
                        ctx.probe("batch_with_both_tie_members");
                    }
                }
                for i in &idx {
                    stamp += 1;
                    reps[r].first.entry(*i).or_insert(stamp);
                }
                let changed = reps[r].st.merge(&batch);
                let mut rb = batch.clone();
                rb.reverse();
                let _ = reps[r].st2.merge(&rb);
                let bv: Vec<Val> = idx.iter().map(|i| vals[*i]).collect();
                let line = format!("merge{}", show(&bv));
                ctx.event(&format!("s{sn} r{r} {line} changed={} -> {} L={}", changed.len(), show(&view_of(reps[r].st.all_states())), reps[r].st.lamport_time()));
                ctx.fp(&format!("D{}c{}", idx.len().min(3), changed.len().min(2)));
                reps[r].hist.push(line);
                delivered = Some(bv);
                touched = (r, "deliver");
            },
            Step::Sync { from, to } => {
                let (f, t) = (*from as usize % nrep, *to as usize % nrep);
                if f == t {
                    continue;
                }
                let states = reps[f].st.states_for_gossip(20);
                if states.is_empty() {
                    continue;
                }
                let sender_time = reps[f].st.lamport_time();
                let bv = view_of(states.iter());
                reps[t].st.sync_time(sender_time);
                let changed = reps[t].st.merge(&states);
                let mut s2 = states.clone();
                s2.reverse();
                reps[t].st2.sync_time(sender_time);
                let _ = reps[t].st2.merge(&s2);
                let line = format!("sync-from-r{f}(time {sender_time}){}", show(&bv));
                ctx.event(&format!("s{sn} r{t} {line} changed={} -> {} L={}", changed.len(), show(&view_of(reps[t].st.all_states())), reps[t].st.lamport_time()));
                ctx.fp("Y");
                ctx.probe("replica_sync");
                reps[t].hist.push(line);
                if reps[f].tainted {
                    reps[t].tainted = true;
                } else {
                    // an untainted sender holds verbatim copies of multiset updates:
                    // for the receiver this is one more batch of the same updates
                    delivered = Some(bv);
                }
                touched = (t, "sync");
            },
            Step::Suspect { r, m, inc } => {
                let (r, m) = (*r as usize % nrep, *m as usize % members);
                let cur = reps[r].st.get(&name(m)).map(|s| s.incarnation);
                let inc = inc.map(u64::from).or(cur).unwrap_or(0);
                let ok = reps[r].st.suspect(&name(m), inc);
                let _ = reps[r].st2.suspect(&name(m), inc);
                let line = format!("suspect(n{m},inc{inc})={ok}");
                ctx.event(&format!("s{sn} r{r} {line} -> {}", show(&view_of(reps[r].st.all_states()))));
                ctx.fp(if ok { "S1" } else { "S0" });
                if ok {
                    ctx.probe("suspect_applied");
                    local_applied += 1;
                }
                reps[r].hist.push(line);
                reps[r].tainted = true;
                touched = (r, "suspect");
            },
            Step::Fail { r, m } => {
                let (r, m) = (*r as usize % nrep, *m as usize % members);
                let ok = reps[r].st.fail(&name(m));
                let _ = reps[r].st2.fail(&name(m));
                let line = format!("fail(n{m})={ok}");
                ctx.event(&format!("s{sn} r{r} {line} -> {}", show(&view_of(reps[r].st.all_states()))));
                ctx.fp(if ok { "F1" } else { "F0" });
                if ok {
                    ctx.probe("fail_applied");
                    local_applied += 1;
                }
                reps[r].hist.push(line);
                reps[r].tainted = true;
                touched = (r, "fail");
            },
            Step::Refute { r, m, inc } => {
                let (r, m) = (*r as usize % nrep, *m as usize % members);
                let inc = u64::from(*inc);
                // the Alive{m, inc} message this models was sent by m: m announced inc
                announced[m] = announced[m].max(inc);
                let ok = reps[r].st.refute(&name(m), inc);
                let _ = reps[r].st2.refute(&name(m), inc);
                let line = format!("refute(n{m},inc{inc})={ok}");
                ctx.event(&format!("s{sn} r{r} {line} -> {}", show(&view_of(reps[r].st.all_states()))));
                ctx.fp(if ok { "R1" } else { "R0" });
                if ok {
                    ctx.probe("refute_applied");
                    local_applied += 1;
                }
                reps[r].hist.push(line);
                reps[r].tainted = true;
                touched = (r, "refute");
            },
            Step::MarkHealthy { r, m } => {
                let (r, m) = (*r as usize % nrep, *m as usize % members);
                let ok = reps[r].st.mark_healthy(&name(m));
                let _ = reps[r].st2.mark_healthy(&name(m));
                let line = format!("mark_healthy(n{m})={ok}");
                ctx.event(&format!("s{sn} r{r} {line} -> {}", show(&view_of(reps[r].st.all_states()))));
                ctx.fp(if ok { "H1" } else { "H0" });
                if ok {
                    ctx.probe("mark_healthy_applied");
                    local_applied += 1;
                }
                reps[r].hist.push(line);
                reps[r].tainted = true;
                touched = (r, "mark_healthy");
            },
            Step::Announce { r, bump } => {
                let r = *r as usize % nrep;
                if r >= members {
                    continue; // this replica is an observer, not a member
                }
                // replica r is member r; its own counter is the greatest incarnation it has
                // announced so far (never below anything anybody can hold about it)
                if *bump {
                    announced[r] += 1;
                }
                let inc = announced[r];
                let _ = reps[r].st.update_local(name(r), NodeHealth::Healthy, inc);
                let _ = reps[r].st2.update_local(name(r), NodeHealth::Healthy, inc);
                let line = format!("update_local(n{r},Healthy,inc{inc})");
                ctx.event(&format!("s{sn} r{r} {line} -> {}", show(&view_of(reps[r].st.all_states()))));
                ctx.fp("U");
                ctx.probe("update_local_applied");
                local_applied += 1;
                reps[r].hist.push(line);
                reps[r].tainted = true;
                touched = (r, "update_local");
            },
            _ => continue, // configuration B steps: nothing to act on
        }
        let (r, op) = touched;
        let view = view_of(reps[r].st.all_states());
        let lam = reps[r].st.lamport_time();
        depth_probes(ctx, 'A', &reps[r].last_view, &view);
        reps[r].last_view = view.clone();

        // clauses (2) and (3), after every step, on the replica it touched
        {
            let rep = &mut reps[r];
            let hist = rep.hist.clone();
            let h = move || hist.join("; ");
            if let Some(v) = check_backwards("A", op, r, &mut rep.mono, &view, lam, &announced, &h) {
                out.violation = Some(v);
                out.nontrivial = true;
                return out;
            }
        }

        // clause (1) between the replica and its mirror: the mirror got the same updates in
        // the same batches and the same local events at the same points; only the order
        // INSIDE each batch is the other way round ("regardless of the order ... in which
        // the updates arrived", with local events interleaved as the quantifier says)
        {
            let v2 = view_of(reps[r].st2.all_states());
            let hi1: Vec<(u8, u8, u64)> = view.iter().map(|x| (x.0, x.1, x.2)).collect();
            let hi2: Vec<(u8, u8, u64)> = v2.iter().map(|x| (x.0, x.1, x.2)).collect();
            mirror_cmp += 1;
            if hi1 != hi2 {
                let what = if hi1.iter().map(|x| (x.0, x.2)).eq(hi2.iter().map(|x| (x.0, x.2))) { "health" } else { "incarnation" };
                out.violation = Some(Violation {
                    class: format!("c1-convergence-{what}-differs:batch-order"),
                    detail: format!(
                        "after step {sn} replica r{r} holds {} but a replica given the same batches (each in reverse order) and the same local events holds {}; history: {}",
                        show(&view),
                        show(&v2),
                        reps[r].hist.join("; ")
                    ),
                });
                out.nontrivial = true;
                return out;
            }
        }

        // clause (1): "Two nodes that have received the same set of membership
        // updates hold identical views of every member's health and
        // incarnation, regardless of the order, grouping or repetition in which
        // the updates arrived." Judged only between replicas whose whole input
        // is deliveries of multiset updates (no local event so far).
        if let Some(bv) = delivered {
            if !reps[r].tainted {
                for v in bv {
                    reps[r].recv.insert(v);
                }
                let key: Vec<Val> = reps[r].recv.iter().copied().collect();
                match seen.get(&key) {
                    None => {
                        seen.insert(key, (view.clone(), r, sn, reps[r].hist.join("; ")));
                    },
                    Some((v0, r0, s0, h0)) => {
                        comparisons += 1;
                        let hi0: Vec<(u8, u8, u64)> = v0.iter().map(|x| (x.0, x.1, x.2)).collect();
                        let hi1: Vec<(u8, u8, u64)> = view.iter().map(|x| (x.0, x.1, x.2)).collect();
                        if hi0 != hi1 {
                            let what = if hi0.iter().map(|x| (x.0, x.2)).eq(hi1.iter().map(|x| (x.0, x.2))) { "health" } else { "incarnation" };
                            let same = if *r0 == r { "the same replica earlier (a repeated delivery changed the view)" } else { "another replica" };
                            out.violation = Some(Violation {
                                class: format!("c1-convergence-{what}-differs"),
                                detail: format!(
                                    "same set of updates received {}, different views: r{r0} after step {s0} holds {} (history: {h0}); r{r} after step {sn} holds {} (history: {}); {same}",
                                    show(&key),
                                    show(v0),
                                    show(&view),
                                    reps[r].hist.join("; ")
                                ),
                            });
                            out.nontrivial = true;
                            return out;
                        }
                        if *v0 != view && !ts_obs {
                            ts_obs = true;
                            out.observations.push(
                                "observation(timestamp is not part of C17's statement): same set of updates, same health and incarnation, different recorded timestamp".into(),
                            );
                        }
                    },
                }
            }
        }
    }

    // probe: a tie delivered in both orders to two replicas
    'p: for (i, j) in &ties {
        let mut orders = BTreeSet::new();
        for rep in &reps {
            if let (Some(a), Some(b)) = (rep.first.get(i), rep.first.get(j)) {
                orders.insert(a < b);
            }
        }
        if orders.len() == 2 {
            ctx.probe("tie_delivered_in_both_orders");
            ctx.fault_fired("reordered_tie");
            break 'p;
        }
    }
    if comparisons > 0 {
        ctx.probe("same_set_compared");
    }
    out.inner_evals = comparisons + mirror_cmp;
    out.nontrivial = match case.mode {
        Mode::Local => local_applied > 0,
        _ => comparisons > 0,
    };
    out
}

// ---------------------------------------------------------------------------
// configuration B
// ---------------------------------------------------------------------------

fn msg_line(m: &Message) -> String {
    match m {
        Message::Gossip(GossipMessage::Sync { sender, states, sender_time }) => {
            format!("Sync(from {sender}, time {sender_time}, {})", show(&view_of(states.iter())))
        },
        Message::Gossip(GossipMessage::Suspect { reporter, suspect, incarnation }) => format!("Suspect({suspect} inc{incarnation} by {reporter})"),
        Message::Gossip(GossipMessage::Alive { node_id, incarnation }) => format!("Alive({node_id} inc{incarnation})"),
        Message::Gossip(GossipMessage::PingReq { origin, target, sequence }) => format!("PingReq({origin}->{target} #{sequence})"),
        Message::Gossip(GossipMessage::PingAck { origin, target, sequence, success }) => format!("PingAck({origin} about {target} #{sequence} ok={success})"),
        Message::Gossip(_) => "Gossip(other)".into(),
        Message::Ping { .. } => "Ping".into(),
        _ => "other".into(),
    }
}

/// callback handed to `register_callback`: counts, nothing else
struct CountCb(AtomicU64);
impl MembershipCallback for CountCb {
    fn on_health_change(&self, _node: &String, _old: NodeHealth, _new: NodeHealth) {
        self.0.fetch_add(1, Ordering::Relaxed);
    }
    fn on_view_change(&self, _view: &ClusterView) {}
}

const LOCAL_KINDS: u8 = 13;

/// The public entry points of `GossipMembershipManager` that are neither
/// message handlers nor the round timer nor `add_peer` / `suspect_node` (those
/// have step kinds of their own): heal-progress bookkeeping, bidirectional
/// probes, flap records, callback registration, the readers, shutdown. None of
/// them is a membership update, so the clauses are judged across them unchanged.
/// Must run inside the runtime handle (`send_bidirectional_probe` spawns its send).
fn local_call(mgr: &GossipMembershipManager, m: &String, kind: u8) -> &'static str {
    match kind % LOCAL_KINDS {
        0 => {
            mgr.record_heal_progress(m, None);
            "record_heal_progress"
        },
        1 => {
            mgr.record_heal_progress(m, Some(Instant::now()));
            "record_heal_progress(partition_start)"
        },
        2 => {
            let _ = mgr.is_heal_confirmed(m, 1);
            "is_heal_confirmed"
        },
        3 => {
            mgr.clear_heal_progress(m);
            "clear_heal_progress"
        },
        4 => {
            mgr.clear_heal_progress_batch(std::slice::from_ref(m));
            "clear_heal_progress_batch"
        },
        5 => {
            mgr.reset_heal_progress(m);
            "reset_heal_progress"
        },
        6 => {
            mgr.send_bidirectional_probe(m);
            "send_bidirectional_probe"
        },
        7 => {
            mgr.expire_bidirectional_probes();
            "expire_bidirectional_probes"
        },
        8 => {
            mgr.reset_stable_flap_records();
            "reset_stable_flap_records"
        },
        9 => {
            mgr.clear_connectivity(m);
            "clear_connectivity"
        },
        10 => {
            mgr.register_callback(Arc::new(CountCb(AtomicU64::new(0))));
            "register_callback"
        },
        11 => {
            let _ = (mgr.node_state(m), mgr.all_states().len(), mgr.node_count(), mgr.health_counts(), mgr.round_count());
            let _ = (mgr.healing_nodes().len(), mgr.is_in_flap_backoff(m), mgr.flap_count(m), mgr.connectivity_status(m).is_some());
            let _ = (mgr.is_bidirectional_confirmed(m), mgr.check_sequence_exhaustion(), mgr.incarnation_rejected_count());
            "readers"
        },
        _ => {
            mgr.shutdown();
            "shutdown"
        },
    }
}

/// One manager's side of a clause (1) comparison.
struct Side<'a> {
    who: String,
    view: &'a [Val],
    /// members whose entry this node has stamped with its OWN clock: the sender of
    /// every Sync it handled (`handle_sync` merges `sender Healthy @ local time + 1`)
    /// and members for which a late `add_peer` wrote the Unknown placeholder
    /// (`@ local time + 1`). Such a stamp is a local observation, made at a time that
    /// depends on the delivery order; it is not one of "the same set of membership
    /// updates", and which of it and an update of equal incarnation wins is a
    /// matter of the local time. It never carries an incarnation of its own (it
    /// re-uses the recorded one, or 0 for a member not recorded at all).
    stamped: &'a BTreeSet<u8>,
    hist: String,
    /// configuration D: the update values this node has received (its own initial node state included)
    recv: Option<&'a BTreeSet<Val>>,
    /// configuration D: one of the two nodes received Suspect messages (local suspect / self-refutation /
    /// later suspicion expiry = fail events, all of which stamp entries with the node's own clock), or the
    /// two nodes are different members (each has stamped the placeholders of the members it registered,
    /// the other one among them, with its own clock): only entries that are received update values are judged
    local_in: bool,
}

/// Clause (1) between two real managers:
/// "Two nodes that have received the same set of membership updates hold
///  identical views of every member's health and incarnation, regardless of
///  the order, grouping or repetition in which the updates arrived."
/// The caller guarantees: same identity, same configuration, same members
/// registered, same set of update values received inside Sync messages, and no
/// other input (no Alive / Suspect / PingAck message, no `suspect_node`) on either
/// side. Judged: the incarnation of every member both hold; the health of every
/// member neither side has stamped with its own clock (see `Side::stamped`); a
/// member that one side holds un-stamped must be held by the other side too.
///
/// Nodes that also had local suspect events (configuration D, `Side::local_in`: Suspect messages, and
/// the fail events their expiry produces), and nodes that are different members. Every local event and every stamp rewrites an entry with the
/// same or a higher incarnation and a time above everything the node has merged so far, so an entry
/// only ever moves upwards in the order (incarnation, timestamp, severity) in which `merge` keeps the
/// greatest value: entry = max(received updates about m, local stamps on m). If the entry a node holds
/// for m IS one of the received update values, it is the greatest received update about m - a function
/// of the received set alone. Two such nodes with the same received set must therefore agree on m
/// whatever local events either of them had; this is all that is judged when one side had local events.
fn compare_views(cfg: &str, key: &str, a: &Side, b: &Side) -> Option<Violation> {
    let members: BTreeSet<u8> = a.view.iter().chain(b.view.iter()).map(|v| v.0).collect();
    let local = a.local_in || b.local_in;
    let verbatim = |s: &Side, e: &Val| s.recv.is_some_and(|r| r.contains(e));
    for m in members {
        let x = a.view.iter().find(|v| v.0 == m);
        let y = b.view.iter().find(|v| v.0 == m);
        if local {
            if let (Some(x), Some(y)) = (x, y) {
                if verbatim(a, x) && verbatim(b, y) && (x.1 != y.1 || x.2 != y.2) {
                    let what = if x.2 != y.2 { "incarnation" } else { "health" };
                    return Some(Violation {
                        class: format!("c1-convergence-{what}-differs:{cfg}"),
                        detail: format!(
                            "same set of updates received {key}, different views of member n{m}, both entries being received update values: {} holds {} (history: {}); {} holds {} (history: {})",
                            a.who,
                            show(a.view),
                            a.hist,
                            b.who,
                            show(b.view),
                            b.hist
                        ),
                    });
                }
            }
            continue;
        }
        let what = match (x, y) {
            (Some(x), Some(y)) => {
                if x.2 != y.2 {
                    Some("incarnation")
                } else if x.1 != y.1 && !a.stamped.contains(&m) && !b.stamped.contains(&m) {
                    Some("health")
                } else {
                    None
                }
            },
            (Some(_), None) if !a.stamped.contains(&m) => Some("member"),
            (None, Some(_)) if !b.stamped.contains(&m) => Some("member"),
            _ => None,
        };
        if let Some(what) = what {
            return Some(Violation {
                class: format!("c1-convergence-{what}-differs:{cfg}"),
                detail: format!(
                    "same set of updates received {key}, different views of member n{m}: {} holds {} (history: {}); {} holds {} (history: {})",
                    a.who,
                    show(a.view),
                    a.hist,
                    b.who,
                    show(b.view),
                    b.hist
                ),
            });
        }
    }
    None
}

/// what a shadow still has to receive
#[derive(Clone)]
enum ShItem {
    Msg(GossipMessage, String),
    AddPeer(u8),
}

#[derive(Default)]
struct Pair {
    backlog: Vec<ShItem>,
    /// the manager (or its shadow) had an input other than Sync messages and registration
    tainted: bool,
    stamped_p: BTreeSet<u8>,
    stamped_s: BTreeSet<u8>,
    mono_s: Mono,
    last_s: Vec<Val>,
    hist_p: Vec<String>,
    hist_s: Vec<String>,
    /// Sync messages handed to the shadow so far
    syncs_s: u64,
    /// the shadow received something in another order than the manager
    reordered: bool,
    /// greatest sender_time handled so far, per sender (manager / shadow)
    times_p: BTreeMap<u8, u64>,
    times_s: BTreeMap<u8, u64>,
}

fn run_b(case: &Case, ctx: &Arc<RunCtx>) -> RunOut {
    let mut out = RunOut::default();
    let n = case.replicas.clamp(2, 4) as usize;
    let all: Vec<String> = (0..n).map(name).collect();
    let net = new_net();
    // gossip_round / broadcast_alive / handle_ping_req hand their sends to
    // tokio::spawn. A current-thread runtime without I/O or time driver is the
    // executor: it has no worker thread, its run queue is FIFO, and it is
    // drained explicitly after every step (see `drain`).
    let rt = match tokio::runtime::Builder::new_current_thread().build() {
        Ok(rt) => rt,
        Err(e) => {
            out.harness_error = Some(format!("tokio current-thread runtime: {e}"));
            return out;
        },
    };
    let drain = |rt: &tokio::runtime::Runtime| -> Result<(), String> {
        rt.block_on(async {
            for _ in 0..4 {
                tokio::task::yield_now().await;
            }
        });
        let alive = rt.metrics().num_alive_tasks();
        if alive != 0 {
            return Err(format!("{alive} spawned task(s) still pending after drain (a send suspended)"));
        }
        Ok(())
    };
    let cfg = GossipConfig {
        fanout: case.fanout.clamp(1, 3) as usize,
        gossip_interval_ms: 200,
        suspicion_timeout_ms: u64::from(case.susp_ms.max(1)),
        max_states_per_message: case.max_states.max(1) as usize,
        geometric_routing: false,
        require_signatures: false,
        ..GossipConfig::default()
    };
    let mgrs: Vec<GossipMembershipManager> =
        all.iter().map(|me| GossipMembershipManager::new(me.clone(), cfg.clone(), SimTransport::new(me, &all, &net))).collect();
    // The shadow of manager i: a second node with the same identity, configuration and
    // registration, on a network of its own (what it sends goes nowhere). It receives the
    // inputs manager i received from the real managers - whole Sync messages as they were
    // put on the wire, and the registrations - in an order of its own (`ShadowDeliver`,
    // `ShadowDup`, the flush at the end): the second of the "two nodes that have received
    // the same set of membership updates".
    let shadow_nets: Vec<crate::net::Net> = (0..n).map(|_| new_net()).collect();
    let shadows: Vec<GossipMembershipManager> = all
        .iter()
        .enumerate()
        .map(|(i, me)| GossipMembershipManager::new(me.clone(), cfg.clone(), SimTransport::new(me, &all, &shadow_nets[i])))
        .collect();
    for i in 0..n {
        for (j, p) in all.iter().enumerate() {
            if i != j && pre_registered(case, i, j) {
                mgrs[i].add_peer(p.clone());
                shadows[i].add_peer(p.clone());
            }
        }
    }
    ctx.event(&format!(
        "B managers={n} fanout={} max_states={} suspicion_timeout_ms={} pre_registered={:#06x}",
        cfg.fanout, cfg.max_states_per_message, cfg.suspicion_timeout_ms, case.pre_peers
    ));

    // every member starts by announcing incarnation 0 (constructor)
    let mut announced = vec![0u64; n];
    let mut monos: Vec<Mono> = (0..n).map(|_| Mono::default()).collect();
    let mut lasts: Vec<Vec<Val>> = vec![Vec::new(); n];
    let mut pairs: Vec<Pair> = (0..n).map(|_| Pair::default()).collect();
    let mut last_id = 0u64;
    let mut log: Vec<String> = Vec::new();
    let mut sync_changed = 0u64;
    let mut failed_seen = false;
    let mut comparisons = 0u64;

    // hand one backlog item to the shadow of r; clauses (2)/(3) on the shadow
    let to_shadow = |r: usize, item: ShItem, pairs: &mut Vec<Pair>, announced: &[u64], tag: &str| -> Result<Option<Violation>, String> {
        let p = &mut pairs[r];
        let op: &'static str;
        {
            let _e = rt.enter();
            match item {
                ShItem::Msg(g, line) => {
                    if let GossipMessage::Sync { sender, sender_time, .. } = &g {
                        let s = member_idx(sender);
                        p.stamped_s.insert(s);
                        p.syncs_s += 1;
                        let t0 = p.times_s.entry(s).or_insert(0);
                        if *sender_time < *t0 {
                            ctx.probe("mgr_shadow_sync_older_than_previous_from_sender");
                        }
                        *t0 = (*t0).max(*sender_time);
                    }
                    shadows[r].handle_gossip(g);
                    p.hist_s.push(format!("{tag} {line}"));
                    op = "shadow_deliver";
                },
                ShItem::AddPeer(m) => {
                    if shadows[r].node_state(&name(m as usize)).is_none() {
                        p.stamped_s.insert(m);
                    }
                    shadows[r].add_peer(name(m as usize));
                    p.hist_s.push(format!("{tag} add_peer(n{m})"));
                    op = "shadow_add_peer";
                },
            }
        }
        drain(&rt)?;
        let view = view_of(shadows[r].membership_view().iter());
        let lam = shadows[r].lamport_time();
        ctx.event(&format!("   shadow of n{r}: {} -> {} L={lam}", p.hist_s.last().map(String::as_str).unwrap_or(""), show(&view)));
        p.last_s = view.clone();
        let hs = p.hist_s.clone();
        let h = move || format!("shadow of n{r}: {}", hs.join("; "));
        Ok(check_backwards("B", op, r, &mut p.mono_s, &view, lam, announced, &h))
    };
    // clause (1) between manager r and its shadow, once the shadow has caught up
    let compare_pair = |r: usize, pairs: &Vec<Pair>, comparisons: &mut u64| -> Option<Violation> {
        let p = &pairs[r];
        if p.tainted || !p.backlog.is_empty() || p.syncs_s == 0 {
            return None;
        }
        *comparisons += 1;
        ctx.probe("mgr_same_set_compared");
        if p.reordered {
            ctx.probe("mgr_same_set_compared_after_reordering");
        }
        let view = view_of(mgrs[r].membership_view().iter());
        let a = Side { who: format!("manager n{r}"), view: &view, stamped: &p.stamped_p, hist: p.hist_p.join("; "), recv: None, local_in: false };
        let b = Side { who: format!("the shadow of n{r} (same inputs, own order)"), view: &p.last_s, stamped: &p.stamped_s, hist: p.hist_s.join("; "), recv: None, local_in: false };
        compare_views("B", "(every message and registration manager and shadow received is in both histories)", &a, &b)
    };

    for (sn, step) in case.steps.iter().enumerate() {
        let op: &'static str;
        match step {
            Step::Round { r } => {
                let r = *r as usize % n;
                ctx.advance_ms(cfg.gossip_interval_ms);
                let _e = rt.enter();
                let _ = now_or_never(mgrs[r].gossip_round());
                log.push(format!("s{sn} n{r}.gossip_round"));
                ctx.fp("Br");
                op = "gossip_round";
            },
            Step::SuspectNode { r, m } => {
                let (r, m) = (*r as usize % n, *m as usize % n);
                if r == m {
                    continue;
                }
                let _e = rt.enter();
                let _ = now_or_never(mgrs[r].suspect_node(&name(m)));
                // a local suspect event: the manager's input is no longer "updates only"
                pairs[r].tainted = true;
                log.push(format!("s{sn} n{r}.suspect_node(n{m})"));
                ctx.fp("Bs");
                ctx.probe("mgr_suspect_node");
                op = "suspect_node";
            },
            Step::Advance { ms } => {
                ctx.advance_ms(u64::from(*ms));
                log.push(format!("s{sn} advance {ms}ms"));
                continue;
            },
            Step::AddPeer { r, m } => {
                let (r, m) = (*r as usize % n, *m as usize % n);
                if mgrs[r].node_state(&name(m)).is_none() {
                    // the placeholder will carry this manager's own time
                    pairs[r].stamped_p.insert(m as u8);
                } else if r != m && !pre_registered(case, r, m) {
                    ctx.probe("mgr_add_peer_of_known_member");
                }
                mgrs[r].add_peer(name(m));
                pairs[r].backlog.push(ShItem::AddPeer(m as u8));
                pairs[r].hist_p.push(format!("s{sn} add_peer(n{m})"));
                log.push(format!("s{sn} n{r}.add_peer(n{m})"));
                ctx.fp("Ba");
                op = "add_peer";
            },
            Step::LocalCall { r, m, kind } => {
                let (r, m) = (*r as usize % n, *m as usize % n);
                let _e = rt.enter();
                let what = local_call(&mgrs[r], &name(m), *kind);
                log.push(format!("s{sn} n{r}.{what}(n{m})"));
                ctx.fp("Bl");
                ctx.probe("mgr_local_call");
                op = "local_call";
            },
            Step::ShadowDeliver { r, pick } | Step::ShadowDup { r, pick } => {
                let r = *r as usize % n;
                let dup = matches!(step, Step::ShadowDup { .. });
                if pairs[r].backlog.is_empty() {
                    continue;
                }
                let i = *pick as usize % pairs[r].backlog.len();
                if i > 0 {
                    pairs[r].reordered = true;
                    ctx.fault_fired("shadow_reordered");
                }
                let item = if dup { pairs[r].backlog[i].clone() } else { pairs[r].backlog.remove(i) };
                if dup {
                    ctx.fault_fired("shadow_duplicate");
                }
                match to_shadow(r, item, &mut pairs, &announced, &format!("s{sn}")) {
                    Err(e) => {
                        out.harness_error = Some(e);
                        return out;
                    },
                    Ok(Some(v)) => {
                        out.violation = Some(v);
                        out.nontrivial = true;
                        return out;
                    },
                    Ok(None) => {},
                }
                ctx.fp(if dup { "Bxd" } else { "Bx" });
                if let Some(v) = compare_pair(r, &pairs, &mut comparisons) {
                    out.violation = Some(v);
                    out.nontrivial = true;
                    return out;
                }
                continue;
            },
            Step::NetDeliver { pick } | Step::NetDup { pick } => {
                let dup = matches!(step, Step::NetDup { .. });
                let f = {
                    let mut g = net.lock().unwrap();
                    if g.inflight.is_empty() {
                        continue;
                    }
                    let i = *pick as usize % g.inflight.len();
                    if i > 0 {
                        ctx.fault_fired("reordered");
                    }
                    if dup {
                        g.inflight[i].clone()
                    } else {
                        g.inflight.remove(i)
                    }
                };
                if dup {
                    ctx.fault_fired("duplicate");
                }
                let to = member_idx(&f.to) as usize;
                if to >= n {
                    continue;
                }
                let line = msg_line(&f.msg);
                match f.msg {
                    Message::Gossip(g) => {
                        let kind = match &g {
                            GossipMessage::Sync { .. } => "Bd-sync",
                            GossipMessage::Suspect { .. } => "Bd-suspect",
                            GossipMessage::Alive { .. } => "Bd-alive",
                            GossipMessage::PingReq { .. } => "Bd-pingreq",
                            GossipMessage::PingAck { .. } => "Bd-pingack",
                            _ => "Bd-other",
                        };
                        let before = view_of(mgrs[to].membership_view().iter());
                        // the tie of clause (1) arising in real manager traffic: a state on the wire with
                        // the incarnation and timestamp the receiver already holds, but another health
                        if let GossipMessage::Sync { states, sender, sender_time } = &g {
                            let wire = view_of(states.iter());
                            if wire.iter().any(|w| before.iter().any(|b| b.0 == w.0 && b.2 == w.2 && b.3 == w.3 && b.1 != w.1)) {
                                ctx.probe("mgr_tie_on_the_wire");
                            }
                            let s = member_idx(sender);
                            pairs[to].stamped_p.insert(s);
                            let t0 = pairs[to].times_p.entry(s).or_insert(0);
                            if *sender_time < *t0 {
                                ctx.probe("mgr_sync_older_than_previous_from_sender");
                            }
                            *t0 = (*t0).max(*sender_time);
                        }
                        match &g {
                            // suspect / refute / mark-healthy events: local events of the statement's quantifier,
                            // after which this manager's input is no longer "updates only"
                            GossipMessage::Suspect { .. } | GossipMessage::Alive { .. } | GossipMessage::PingAck { .. } => pairs[to].tainted = true,
                            _ => {},
                        }
                        pairs[to].backlog.push(ShItem::Msg(g.clone(), line.clone()));
                        pairs[to].hist_p.push(format!("s{sn} {line}"));
                        let _e = rt.enter();
                        mgrs[to].handle_gossip(g);
                        let after = view_of(mgrs[to].membership_view().iter());
                        ctx.fp(kind);
                        match kind {
                            "Bd-sync" => {
                                ctx.probe("mgr_sync_delivered");
                                if before != after {
                                    sync_changed += 1;
                                }
                            },
                            "Bd-alive" if before != after => ctx.probe("mgr_alive_applied"),
                            "Bd-suspect" if before != after => ctx.probe("mgr_suspect_applied"),
                            "Bd-pingack" if before != after => ctx.probe("mgr_pingack_marked_healthy"),
                            _ => {},
                        }
                    },
                    // Message::Ping of the indirect probe is answered by the transport layer, not by gossip
                    _ => {},
                }
                log.push(format!("s{sn} deliver{} {}->{} {line}", if dup { "(dup)" } else { "" }, f.from, f.to));
                op = "deliver";
            },
            Step::NetDrop { pick } => {
                let mut g = net.lock().unwrap();
                if g.inflight.is_empty() {
                    continue;
                }
                let i = *pick as usize % g.inflight.len();
                let f = g.inflight.remove(i);
                drop(g);
                ctx.fault_fired("dropped");
                log.push(format!("s{sn} drop {}->{} {}", f.from, f.to, msg_line(&f.msg)));
                continue;
            },
            _ => continue, // steps of the other configurations: nothing to act on
        }
        if let Err(e) = drain(&rt) {
            out.harness_error = Some(e);
            return out;
        }
        // announcements read off the wire: Alive{m, i} sent by m itself
        {
            let g = net.lock().unwrap();
            for f in g.inflight.iter().filter(|f| f.id > last_id) {
                if let Message::Gossip(GossipMessage::Alive { node_id, incarnation }) = &f.msg {
                    if *node_id == f.from {
                        let m = member_idx(node_id) as usize;
                        if m < n && *incarnation > announced[m] {
                            announced[m] = *incarnation;
                            ctx.probe("mgr_self_refute_announced");
                        }
                    }
                }
            }
            last_id = g.next_id;
        }
        ctx.event(log.last().map(String::as_str).unwrap_or(""));
        for (i, m) in mgrs.iter().enumerate() {
            let view = view_of(m.membership_view().iter());
            let lam = m.lamport_time();
            if view.iter().any(|v| v.1 == 2) && !failed_seen {
                failed_seen = true;
                ctx.probe("mgr_failed_recorded");
            }
            ctx.event(&format!("   n{i}: {} L={lam}", show(&view)));
            depth_probes(ctx, 'B', &lasts[i], &view);
            lasts[i] = view.clone();
            let lg = &log;
            let h = move || lg.join("; ");
            if let Some(v) = check_backwards("B", op, i, &mut monos[i], &view, lam, &announced, &h) {
                out.violation = Some(v);
                out.nontrivial = true;
                return out;
            }
        }
    }
    // the end of the run: every shadow whose manager had updates only receives the rest of
    // its backlog (order from the case), then both have received the same set
    for r in 0..n {
        if pairs[r].tainted || pairs[r].backlog.is_empty() {
            continue;
        }
        let mut k = 0usize;
        while !pairs[r].backlog.is_empty() {
            let len = pairs[r].backlog.len();
            let i = match case.flush % 3 {
                0 => 0,
                1 => len - 1,
                _ => {
                    if k % 2 == 0 {
                        len - 1
                    } else {
                        0
                    }
                },
            };
            if i > 0 {
                pairs[r].reordered = true;
                ctx.fault_fired("shadow_reordered");
            }
            k += 1;
            let item = pairs[r].backlog.remove(i);
            match to_shadow(r, item, &mut pairs, &announced, "end") {
                Err(e) => {
                    out.harness_error = Some(e);
                    return out;
                },
                Ok(Some(v)) => {
                    out.violation = Some(v);
                    out.nontrivial = true;
                    return out;
                },
                Ok(None) => {},
            }
        }
        if let Some(v) = compare_pair(r, &pairs, &mut comparisons) {
            out.violation = Some(v);
            out.nontrivial = true;
            return out;
        }
    }
    out.inner_evals = comparisons;
    out.nontrivial = sync_changed > 0;
    out
}

// ---------------------------------------------------------------------------
// configuration C
// ---------------------------------------------------------------------------

const C_MAX_STEPS: usize = 20_000;

#[derive(Default)]
struct CShared {
    mono: Mono,
    announced: Vec<u64>,
    log: Vec<String>,
    /// per thread: the call it is inside (description, member the call is about)
    inflight: Vec<Option<(String, Option<u8>)>>,
    last_view: Vec<Val>,
    viol: Option<Violation>,
    view_changes: u64,
    overlapped: bool,
    /// members registered with add_peer so far (only feeds a probe)
    registered: BTreeSet<u8>,
}

enum CCall {
    Gossip(GossipMessage),
    SuspectNode(String),
    Round,
    AddPeer(String),
    Local(String, u8),
}

struct CWorld {
    mgr: GossipMembershipManager,
    rt: tokio::runtime::Runtime,
    ctx: Arc<RunCtx>,
    sh: Mutex<CShared>,
    vals: Vec<Val>,
    /// `updated_at` of the updates (same indices as `vals`)
    walls: Vec<u64>,
    members: usize,
    interval_ms: u64,
    /// more than one thread is calling (only picks the suffix of the violation class)
    concurrent: AtomicBool,
}

impl CWorld {
    /// never held across a call into the manager (i.e. across a schedule point)
    fn sh(&self) -> MutexGuard<'_, CShared> {
        match self.sh.lock() {
            Ok(g) => g,
            Err(p) => p.into_inner(),
        }
    }

    fn history(g: &CShared) -> String {
        let inflight: Vec<String> = g.inflight.iter().enumerate().filter_map(|(i, x)| x.as_ref().map(|(l, _)| format!("t{i}:{l}"))).collect();
        format!("{}; calls in flight at the observation: [{}]", g.log.join("; "), inflight.join(", "))
    }

    /// One call into the manager by thread `t`, then the observation of clauses (2)/(3).
    fn exec(&self, t: usize, tag: &str, step: &Step) {
        if self.sh().viol.is_some() {
            return;
        }
        let n = self.members;
        // a member other than the manager itself (senders / reporters of messages)
        let peer = |x: u8| 1 + (x as usize % (n - 1));
        let (line, subject, call, op): (String, Option<u8>, CCall, &'static str) = match step {
            Step::MsgSync { from, items, time, .. } => {
                let f = peer(*from);
                let idx: Vec<usize> = items.iter().map(|i| *i as usize).filter(|i| *i < self.vals.len()).collect();
                let bv: Vec<Val> = idx.iter().map(|i| self.vals[*i]).collect();
                let states: Vec<GossipNodeState> = idx
                    .iter()
                    .map(|i| {
                        let (m, h, inc, ts) = self.vals[*i];
                        GossipNodeState::with_wall_time(name(m as usize), health(h), ts, inc, self.walls.get(*i).copied().unwrap_or(0))
                    })
                    .collect();
                if states.len() > 1 {
                    self.ctx.fault_fired("batched");
                }
                (
                    format!("Sync(from n{f}, time {time}, {})", show(&bv)),
                    Some(f as u8),
                    CCall::Gossip(GossipMessage::Sync { sender: name(f), states, sender_time: u64::from(*time) }),
                    "sync",
                )
            },
            Step::MsgAlive { m, inc, .. } => {
                let m = *m as usize % n;
                (
                    format!("Alive(n{m} inc{inc})"),
                    Some(m as u8),
                    CCall::Gossip(GossipMessage::Alive { node_id: name(m), incarnation: u64::from(*inc) }),
                    "alive",
                )
            },
            Step::MsgSuspect { from, m, inc, .. } => {
                let (f, m) = (peer(*from), *m as usize % n);
                (
                    format!("Suspect(n{m} inc{inc} by n{f})"),
                    Some(m as u8),
                    CCall::Gossip(GossipMessage::Suspect { reporter: name(f), suspect: name(m), incarnation: u64::from(*inc) }),
                    "suspect",
                )
            },
            Step::MsgPingAck { from, m, ok, .. } => {
                let (f, m) = (peer(*from), *m as usize % n);
                (
                    format!("PingAck(n{f} about n{m} ok={ok})"),
                    Some(m as u8),
                    CCall::Gossip(GossipMessage::PingAck { origin: name(f), target: name(m), sequence: 0, success: *ok }),
                    "pingack",
                )
            },
            Step::SuspectNode { m, .. } => {
                let m = *m as usize % n;
                if m == 0 {
                    return; // a node does not suspect itself
                }
                (format!("suspect_node(n{m})"), Some(m as u8), CCall::SuspectNode(name(m)), "suspect_node")
            },
            Step::Round { .. } => {
                self.ctx.advance_ms(self.interval_ms);
                ("gossip_round".to_string(), None, CCall::Round, "gossip_round")
            },
            Step::AddPeer { m, .. } => {
                let m = *m as usize % n;
                // probe: registration of a member the node already holds without having registered it
                // (learnt through gossip); the read is one more call into the manager
                let known = self.mgr.node_state(&name(m)).is_some();
                let first = self.sh().registered.insert(m as u8);
                if known && first && m != 0 {
                    self.ctx.probe("thr_add_peer_of_known_member");
                }
                (format!("add_peer(n{m})"), Some(m as u8), CCall::AddPeer(name(m)), "add_peer")
            },
            Step::LocalCall { m, kind, .. } => {
                let m = *m as usize % n;
                (format!("local_call#{}(n{m})", kind % LOCAL_KINDS), None, CCall::Local(name(m), *kind), "local_call")
            },
            Step::MsgBidir { from, id, ack, .. } => {
                let f = peer(*from);
                let g = if *ack {
                    GossipMessage::BidirectionalAck { origin: name(0), probe_id: u64::from(*id), responder: name(f) }
                } else {
                    GossipMessage::BidirectionalProbe { origin: name(f), probe_id: u64::from(*id), timestamp: 0 }
                };
                (format!("Bidirectional{}(n{f} #{id})", if *ack { "Ack" } else { "Probe" }), None, CCall::Gossip(g), "bidir")
            },
            Step::Advance { ms } => {
                self.ctx.advance_ms(u64::from(*ms));
                let line = format!("t{t}.{tag} advance {ms}ms");
                self.ctx.event(&line);
                self.sh().log.push(line);
                return;
            },
            _ => return, // steps of the other configurations: nothing to act on
        };
        {
            let mut g = self.sh();
            if let Step::MsgAlive { m, inc, .. } = step {
                // the Alive message was sent by m: from now on m has announced inc
                let m = *m as usize % n;
                g.announced[m] = g.announced[m].max(u64::from(*inc));
            }
            if g.inflight.iter().enumerate().any(|(i, x)| i != t && x.is_some()) {
                g.overlapped = true;
                self.ctx.probe("thr_calls_overlapped");
                if g.inflight.iter().enumerate().any(|(i, x)| i != t && x.as_ref().is_some_and(|(_, sub)| sub.is_some() && *sub == subject)) {
                    self.ctx.probe("thr_calls_about_same_member_overlapped");
                }
            }
            g.inflight[t] = Some((line.clone(), subject));
            g.log.push(format!("t{t}.{tag} start {line}"));
        }
        self.ctx.event(&format!("t{t}.{tag} start {line}"));
        self.ctx.fp(op);
        {
            let _e = self.rt.enter();
            match call {
                CCall::Gossip(g) => self.mgr.handle_gossip(g),
                CCall::SuspectNode(m) => {
                    let _ = now_or_never(self.mgr.suspect_node(&m));
                },
                CCall::Round => {
                    let _ = now_or_never(self.mgr.gossip_round());
                },
                CCall::AddPeer(m) => self.mgr.add_peer(m),
                CCall::Local(m, kind) => {
                    let _ = local_call(&self.mgr, &m, kind);
                },
            }
        }
        {
            let mut g = self.sh();
            g.inflight[t] = None;
            g.log.push(format!("t{t}.{tag} done"));
        }
        self.observe(t, op, tag);
    }

    /// Read the node's view through the public API and judge clauses (2)/(3) on it.
    /// `membership_view` / `lamport_time` are one read-locked snapshot each; no
    /// schedule point lies between the return of either and the comparison with
    /// the previous snapshot, so snapshots are judged in the order they were taken.
    fn observe(&self, t: usize, op: &'static str, tag: &str) {
        let cls = if self.concurrent.load(Ordering::Relaxed) { "concurrent" } else { op };
        let view = view_of(self.mgr.membership_view().iter());
        {
            let mut g = self.sh();
            if g.viol.is_some() {
                return;
            }
            for (m, _h, inc, _) in &view {
                if let Some(o) = g.last_view.iter().find(|b| b.0 == *m) {
                    if *inc > o.2 && g.inflight.iter().enumerate().any(|(i, x)| i != t && x.as_ref().is_some_and(|(_, sub)| *sub == Some(*m))) {
                        // the window clause (2) is about under concurrency: the recorded incarnation of m
                        // rose while another thread is inside a call that concerns m
                        self.ctx.probe("thr_incarnation_raised_under_inflight_call");
                    }
                }
            }
            if view.iter().any(|v| v.1 == 2) && !g.last_view.iter().any(|v| v.1 == 2) {
                self.ctx.probe("thr_failed_recorded");
            }
            depth_probes(&self.ctx, 'C', &g.last_view, &view);
            if view.iter().map(|v| (v.0, v.1, v.2)).ne(g.last_view.iter().map(|v| (v.0, v.1, v.2))) {
                g.view_changes += 1;
                match op {
                    "sync" => self.ctx.probe("thr_sync_changed_view"),
                    "alive" => self.ctx.probe("thr_alive_changed_view"),
                    _ => {},
                }
            }
            let v = {
                let h = || Self::history(&g);
                check_incarnations("C", cls, 0, &g.mono, &view, &h).or_else(|| check_failed("C", cls, 0, &view, &g.announced, &h))
            };
            if v.is_some() {
                g.viol = v;
                return;
            }
            for (m, _h, inc, _ts) in &view {
                g.mono.inc.insert(*m, *inc);
            }
            g.last_view = view.clone();
        }
        let lam = self.mgr.lamport_time();
        {
            let mut g = self.sh();
            if g.viol.is_some() {
                return;
            }
            let v = {
                let h = || Self::history(&g);
                check_lamport("C", cls, 0, &g.mono, lam, &h)
            };
            if v.is_some() {
                g.viol = v;
                return;
            }
            g.mono.lamport = lam;
            let line = format!("t{t}.{tag} observed {} L={lam}", show(&view));
            g.log.push(line.clone());
            drop(g);
            self.ctx.event(&line);
        }
    }
}

fn run_c(case: &Case, ctx: &Arc<RunCtx>) -> RunOut {
    let mut out = RunOut::default();
    let members = case.members.clamp(2, 4) as usize;
    let all: Vec<String> = (0..members).map(name).collect();
    let net = new_net();
    // executor of the manager's tokio::spawn'ed sends (see run_b); threads enter its
    // handle, the queue is drained by the controller between the phases
    let rt = match tokio::runtime::Builder::new_current_thread().build() {
        Ok(rt) => rt,
        Err(e) => {
            out.harness_error = Some(format!("tokio current-thread runtime: {e}"));
            return out;
        },
    };
    let cfg = GossipConfig {
        fanout: case.fanout.clamp(1, 3) as usize,
        gossip_interval_ms: 200,
        suspicion_timeout_ms: u64::from(case.susp_ms.max(1)),
        max_states_per_message: case.max_states.max(1) as usize,
        geometric_routing: false,
        require_signatures: false,
        ..GossipConfig::default()
    };
    let interval_ms = cfg.gossip_interval_ms;
    let mgr = GossipMembershipManager::new(name(0), cfg, SimTransport::new(&name(0), &all, &net));
    let mut registered = BTreeSet::new();
    for (j, p) in all.iter().enumerate().skip(1) {
        if pre_registered(case, 0, j) {
            mgr.add_peer(p.clone());
            registered.insert(j as u8);
        }
    }
    let (vals, announced_ms) = effective_vals(case, members);
    let nthreads = case.threads.len().min(3);
    ctx.event(&format!(
        "C members={members} threads={nthreads} suspicion_timeout_ms={} pre_registered={:#06x} multiset={}",
        case.susp_ms.max(1),
        case.pre_peers,
        show_multiset(&vals, &walls_of(case))
    ));
    let world = Arc::new(CWorld {
        mgr,
        rt,
        ctx: ctx.clone(),
        sh: Mutex::new(CShared { announced: announced_ms, inflight: vec![None; nthreads.max(1)], registered, ..CShared::default() }),
        vals,
        walls: walls_of(case),
        members,
        interval_ms,
        concurrent: AtomicBool::new(false),
    });
    let drain = |w: &CWorld| -> Result<(), String> {
        w.rt.block_on(async {
            for _ in 0..4 {
                tokio::task::yield_now().await;
            }
        });
        let alive = w.rt.metrics().num_alive_tasks();
        if alive != 0 {
            return Err(format!("{alive} spawned task(s) still pending after drain (a send suspended)"));
        }
        Ok(())
    };
    let finish = |w: &CWorld, mut out: RunOut| -> RunOut {
        let g = w.sh();
        out.violation = g.viol.clone();
        out.nontrivial = out.violation.is_some() || (g.view_changes > 0 && (nthreads < 2 || g.overlapped));
        out
    };

    world.observe(0, "start", "init");
    // sequential prefix
    for (sn, step) in case.steps.iter().enumerate() {
        world.exec(0, &format!("p{sn}"), step);
        if let Err(e) = drain(&world) {
            out.harness_error = Some(e);
            return out;
        }
        if world.sh().viol.is_some() {
            return finish(&world, out);
        }
    }
    if nthreads == 0 {
        return finish(&world, out);
    }
    world.concurrent.store(nthreads > 1, Ordering::Relaxed);
    let mut bodies: Vec<sched::Body> = Vec::new();
    for (t, prog) in case.threads.iter().take(nthreads).enumerate() {
        let w = world.clone();
        let prog = prog.clone();
        bodies.push(Box::new(move || {
            for (k, step) in prog.iter().enumerate() {
                w.exec(t, &format!("{k}"), step);
                sched::yield_point("c17.op");
            }
        }));
    }
    let res = sched::run_threads(ctx, &case.schedule, C_MAX_STEPS, bodies);
    if res.exhausted {
        out.harness_error = Some(format!("schedule exhausted after {} steps (threads still running)", res.steps));
        return out;
    }
    if !res.panics.is_empty() {
        out.harness_error = Some(format!("panic on a scheduled thread: {}", res.panics.join(" | ")));
        return out;
    }
    for (site, nn) in &res.preempted_at {
        if *nn > 0 && site.starts_with("tensor_chain.lock") {
            ctx.probe("thr_preempted_at_manager_lock");
        }
        ctx.fp(&format!("pre:{site}"));
    }
    if res.trace_sites.iter().any(|s| s.ends_with(".wait")) {
        ctx.probe("thr_waited_for_manager_lock");
    }
    ctx.fp(&format!("sw{}", res.switches.min(12)));
    ctx.event(&format!("threads done: steps={} switches={}", res.steps, res.switches));
    if let Err(e) = drain(&world) {
        out.harness_error = Some(e);
        return out;
    }
    world.observe(0, "end", "final");
    finish(&world, out)
}

// ---------------------------------------------------------------------------
// configuration D
// ---------------------------------------------------------------------------

struct Twin {
    mgr: GossipMembershipManager,
    net: crate::net::Net,
    /// had an input other than Sync messages, registration and the neutral local calls
    tainted: bool,
    stamped: BTreeSet<u8>,
    registered: BTreeSet<u8>,
    /// distinct update values received inside Sync messages
    recv: BTreeSet<Val>,
    mono: Mono,
    last_view: Vec<Val>,
    hist: Vec<String>,
    announced: Vec<u64>,
    /// greatest sender_time handled so far, per sender
    times: BTreeMap<u8, u64>,
    /// senders in the order of their first Sync (probe only)
    order: Vec<(u8, u8)>,
    last_id: u64,
    /// the member this twin is
    id: usize,
    /// received Suspect messages (see `compare_views`)
    local_in: bool,
    /// Suspect messages that named this twin itself (each one is refuted: private counter + 1, Alive broadcast)
    self_refutes: u64,
    /// update values received inside Sync messages so far (with repetitions)
    got: u64,
}

/// what an untainted twin held when it first had a given (received set, registered set)
struct SeenD {
    view: Vec<Val>,
    stamped: BTreeSet<u8>,
    twin: usize,
    step: usize,
    hist: String,
    order: Vec<(u8, u8)>,
    recv: BTreeSet<Val>,
    local_in: bool,
    id: usize,
}

/// Configuration D (`Mode::Twins`): 2-4 real `GossipMembershipManager`s with the SAME
/// identity n0, configuration and up-front registration - several nodes in the same
/// position - that are handed whole `Sync` messages built from the case's multiset
/// (`MsgSync{r, from, items, time}`: any sender, any sub-multiset, any sender_time), each
/// twin in an order, repetition and grouping of its own, interleaved with `add_peer`
/// at arbitrary points and the other local entry points. Clause (1) is judged between
/// twins that have received the same set of update values and registered the same
/// members (see `compare_views`); a twin that received an Alive / Suspect / PingAck
/// message or executed `suspect_node` (the statement's local refute / suspect /
/// mark-healthy / fail events) leaves the comparison, as in configuration A. Clauses
/// (2) and (3) are judged on every twin after every step.
fn run_d(case: &Case, ctx: &Arc<RunCtx>) -> RunOut {
    let mut out = RunOut::default();
    let members = case.members.clamp(2, 4) as usize;
    let ntw = case.replicas.clamp(2, 4) as usize;
    let all: Vec<String> = (0..members).map(name).collect();
    let rt = match tokio::runtime::Builder::new_current_thread().build() {
        Ok(rt) => rt,
        Err(e) => {
            out.harness_error = Some(format!("tokio current-thread runtime: {e}"));
            return out;
        },
    };
    let drain = |rt: &tokio::runtime::Runtime| -> Result<(), String> {
        rt.block_on(async {
            for _ in 0..4 {
                tokio::task::yield_now().await;
            }
        });
        let alive = rt.metrics().num_alive_tasks();
        if alive != 0 {
            return Err(format!("{alive} spawned task(s) still pending after drain (a send suspended)"));
        }
        Ok(())
    };
    let cfg = GossipConfig {
        fanout: case.fanout.clamp(1, 3) as usize,
        gossip_interval_ms: 200,
        suspicion_timeout_ms: u64::from(case.susp_ms.max(1)),
        max_states_per_message: case.max_states.max(1) as usize,
        geometric_routing: false,
        require_signatures: false,
        ..GossipConfig::default()
    };
    let interval_ms = cfg.gossip_interval_ms;
    let (vals, announced_ms) = effective_vals(case, members);
    let walls = walls_of(case);
    probe_wall_against_severity(ctx, &vals, &walls);
    let mut twins: Vec<Twin> = (0..ntw)
        .map(|i| {
            let id = twin_ident(case, i, members);
            let net = new_net();
            let mgr = GossipMembershipManager::new(name(id), cfg.clone(), SimTransport::new(&name(id), &all, &net));
            // The node state a manager writes about itself when it is created (`update_local(local,
            // Healthy, 0)` at its first clock tick) is that member's own announcement of incarnation 0.
            // It is the first membership update the node "receives"; a node of another identity has
            // received the same set only once it was handed the same value (an `own` update of the
            // multiset with incarnation 0 and that timestamp).
            let recv: BTreeSet<Val> = view_of(mgr.membership_view().iter()).into_iter().filter(|v| v.0 as usize == id).collect();
            let mut registered = BTreeSet::new();
            registered.insert(id as u8);
            for (j, p) in all.iter().enumerate() {
                if j != id && pre_registered(case, 0, pre_col(id, j)) {
                    mgr.add_peer(p.clone());
                    registered.insert(j as u8);
                }
            }
            Twin {
                id,
                local_in: false,
                self_refutes: 0,
                got: 0,
                recv,
                mgr,
                net,
                tainted: false,
                stamped: BTreeSet::new(),
                registered,
                mono: Mono::default(),
                last_view: Vec::new(),
                hist: Vec::new(),
                announced: announced_ms.clone(),
                times: BTreeMap::new(),
                order: Vec::new(),
                last_id: 0,
            }
        })
        .collect();
    ctx.event(&format!(
        "D members={members} twins={ntw} identities={:?} suspicion_timeout_ms={} pre_registered={:#06x} multiset={}",
        twins.iter().map(|t| t.id).collect::<Vec<_>>(),
        case.susp_ms.max(1),
        case.pre_peers,
        show_multiset(&vals, &walls_of(case))
    ));
    // a member other than the receiving twin itself (senders / reporters of messages)
    let peer_of = |id: usize, x: u8| {
        let k = x as usize % (members - 1);
        if k >= id {
            k + 1
        } else {
            k
        }
    };
    if twins.iter().any(|t| t.id != twins[0].id) {
        ctx.probe("twin_identities_differ");
    }
    let mut seen: BTreeMap<(Vec<Val>, Vec<u8>), SeenD> = BTreeMap::new();
    let mut comparisons = 0u64;

    for (sn, step) in case.steps.iter().enumerate() {
        let r = match step {
            Step::MsgSync { r, .. }
            | Step::MsgAlive { r, .. }
            | Step::MsgSuspect { r, .. }
            | Step::MsgPingAck { r, .. }
            | Step::MsgBidir { r, .. }
            | Step::AddPeer { r, .. }
            | Step::LocalCall { r, .. }
            | Step::SuspectNode { r, .. }
            | Step::Round { r } => *r as usize % ntw,
            Step::Advance { ms } => {
                ctx.advance_ms(u64::from(*ms));
                ctx.event(&format!("s{sn} advance {ms}ms"));
                continue;
            },
            _ => continue, // steps of the other configurations: nothing to act on
        };
        let tw = &mut twins[r];
        let twid = tw.id;
        let peer = |x: u8| peer_of(twid, x);
        let op: &'static str;
        let line: String;
        {
            let _e = rt.enter();
            match step {
                Step::MsgSync { from, items, time, .. } => {
                    let f = peer(*from);
                    let idx: Vec<usize> = items.iter().map(|i| *i as usize).filter(|i| *i < vals.len()).collect();
                    let bv: Vec<Val> = idx.iter().map(|i| vals[*i]).collect();
                    let states: Vec<GossipNodeState> = idx
                        .iter()
                        .map(|i| {
                            let (m, h, inc, ts) = vals[*i];
                            GossipNodeState::with_wall_time(name(m as usize), health(h), ts, inc, walls[*i])
                        })
                        .collect();
                    tw.got += bv.len() as u64;
                    if tw.self_refutes > 0 && bv.iter().any(|v| v.0 as usize == tw.id && v.1 != 0 && v.2 < tw.self_refutes) {
                        ctx.probe("twin_sync_reports_receiver_below_its_refuted_incarnation");
                    }
                    if states.len() > 1 {
                        ctx.fault_fired("batched");
                    }
                    if !bv.is_empty() && bv.iter().all(|v| tw.recv.contains(v)) {
                        ctx.probe("twin_duplicate_sync");
                        ctx.fault_fired("duplicate");
                    }
                    let t0 = tw.times.entry(f as u8).or_insert(0);
                    if u64::from(*time) < *t0 {
                        // a Sync of one sender overtaken by a later one of the same sender
                        ctx.probe("twin_sync_older_than_previous_from_sender");
                        ctx.fault_fired("reordered");
                        if bv.iter().any(|v| !tw.recv.contains(v)) {
                            ctx.probe("twin_overtaken_sync_carries_new_update");
                        }
                    }
                    *t0 = (*t0).max(u64::from(*time));
                    tw.order.push((f as u8, *time));
                    tw.stamped.insert(f as u8);
                    for v in &bv {
                        tw.recv.insert(*v);
                    }
                    line = format!("Sync(from n{f}, time {time}, {})", show(&bv));
                    tw.mgr.handle_gossip(GossipMessage::Sync { sender: name(f), states, sender_time: u64::from(*time) });
                    op = "sync";
                },
                Step::MsgAlive { m, inc, .. } => {
                    let m = *m as usize % members;
                    // the Alive message was sent by m: m has announced inc
                    tw.announced[m] = tw.announced[m].max(u64::from(*inc));
                    tw.tainted = true;
                    line = format!("Alive(n{m} inc{inc})");
                    tw.mgr.handle_gossip(GossipMessage::Alive { node_id: name(m), incarnation: u64::from(*inc) });
                    op = "alive";
                },
                Step::MsgSuspect { from, m, inc, .. } => {
                    let (f, m) = (peer(*from), *m as usize % members);
                    // A Suspect message is a local suspect event (about another member) or makes the
                    // receiver refute (about itself). The twin stays in the comparison of clause (1),
                    // restricted to entries that are received update values (see `compare_views`).
                    tw.local_in = true;
                    if m == tw.id {
                        tw.self_refutes += 1;
                        ctx.probe("twin_suspect_names_receiver");
                    }
                    line = format!("Suspect(n{m} inc{inc} by n{f})");
                    tw.mgr.handle_gossip(GossipMessage::Suspect { reporter: name(f), suspect: name(m), incarnation: u64::from(*inc) });
                    op = "suspect";
                },
                Step::MsgPingAck { from, m, ok, .. } => {
                    let (f, m) = (peer(*from), *m as usize % members);
                    tw.tainted = true;
                    line = format!("PingAck(n{f} about n{m} ok={ok})");
                    tw.mgr.handle_gossip(GossipMessage::PingAck { origin: name(f), target: name(m), sequence: 0, success: *ok });
                    op = "pingack";
                },
                Step::MsgBidir { from, id, ack, .. } => {
                    let f = peer(*from);
                    let g = if *ack {
                        GossipMessage::BidirectionalAck { origin: name(tw.id), probe_id: u64::from(*id), responder: name(f) }
                    } else {
                        GossipMessage::BidirectionalProbe { origin: name(f), probe_id: u64::from(*id), timestamp: 0 }
                    };
                    line = format!("Bidirectional{}(n{f} #{id})", if *ack { "Ack" } else { "Probe" });
                    tw.mgr.handle_gossip(g);
                    op = "bidir";
                },
                Step::SuspectNode { m, .. } => {
                    let m = *m as usize % members;
                    if m == tw.id {
                        continue; // a node does not suspect itself
                    }
                    tw.tainted = true;
                    line = format!("suspect_node(n{m})");
                    let _ = now_or_never(tw.mgr.suspect_node(&name(m)));
                    op = "suspect_node";
                },
                Step::Round { .. } => {
                    // sends a Sync of its own and expires suspicions; suspicions exist only on tainted twins
                    ctx.advance_ms(interval_ms);
                    line = "gossip_round".to_string();
                    let _ = now_or_never(tw.mgr.gossip_round());
                    op = "gossip_round";
                },
                Step::AddPeer { m, .. } => {
                    let m = *m as usize % members;
                    if tw.mgr.node_state(&name(m)).is_none() {
                        // the placeholder will carry this twin's own time
                        tw.stamped.insert(m as u8);
                    } else if m != tw.id && !tw.registered.contains(&(m as u8)) {
                        ctx.probe("twin_add_peer_of_known_member");
                    }
                    tw.registered.insert(m as u8);
                    line = format!("add_peer(n{m})");
                    tw.mgr.add_peer(name(m));
                    op = "add_peer";
                },
                Step::LocalCall { m, kind, .. } => {
                    let m = *m as usize % members;
                    let what = local_call(&tw.mgr, &name(m), *kind);
                    ctx.probe("twin_local_call");
                    line = format!("{what}(n{m})");
                    op = "local_call";
                },
                _ => continue,
            }
        }
        if let Err(e) = drain(&rt) {
            out.harness_error = Some(e);
            return out;
        }
        // the twin's own announcements, read off its wire: Alive{itself, i}
        {
            let g = tw.net.lock().unwrap();
            for f in g.inflight.iter().filter(|f| f.id > tw.last_id) {
                if let Message::Gossip(GossipMessage::Alive { node_id, incarnation }) = &f.msg {
                    if *node_id == f.from && member_idx(node_id) as usize == tw.id {
                        tw.announced[tw.id] = tw.announced[tw.id].max(*incarnation);
                    }
                }
            }
            tw.last_id = g.next_id;
        }
        let view = view_of(tw.mgr.membership_view().iter());
        let lam = tw.mgr.lamport_time();
        ctx.event(&format!("s{sn} twin{r} {line} -> {} L={lam}", show(&view)));
        ctx.fp(&format!("D{op}{}", u8::from(view != tw.last_view)));
        tw.hist.push(line);
        depth_probes(ctx, 'D', &tw.last_view, &view);
        tw.last_view = view.clone();
        {
            let hist = tw.hist.clone();
            let h = move || hist.join("; ");
            let announced = tw.announced.clone();
            if let Some(v) = check_backwards("D", op, r, &mut tw.mono, &view, lam, &announced, &h) {
                out.violation = Some(v);
                out.nontrivial = true;
                return out;
            }
        }
        // clause (1), see `compare_views`
        if tw.tainted {
            continue;
        }
        let key = (tw.recv.iter().copied().collect::<Vec<Val>>(), tw.registered.iter().copied().collect::<Vec<u8>>());
        match seen.get(&key) {
            None => {
                seen.insert(
                    key,
                    SeenD {
                        view,
                        stamped: tw.stamped.clone(),
                        twin: r,
                        step: sn,
                        hist: tw.hist.join("; "),
                        order: tw.order.clone(),
                        recv: tw.recv.clone(),
                        local_in: tw.local_in,
                        id: tw.id,
                    },
                );
            },
            Some(s0) => {
                if tw.got == 0 {
                    continue; // nothing received yet
                }
                comparisons += 1;
                if s0.twin != r {
                    ctx.probe("twin_same_set_compared");
                    if s0.order != tw.order {
                        ctx.probe("twin_same_set_compared_after_other_order_or_grouping");
                    }
                    if s0.id != tw.id {
                        ctx.probe("twin_same_set_compared_between_identities");
                    }
                    if s0.local_in || tw.local_in {
                        ctx.probe("twin_same_set_compared_after_suspect_message");
                    }
                }
                let a = Side {
                    who: format!("twin{} (member n{}) after step {}", s0.twin, s0.id, s0.step),
                    view: &s0.view,
                    stamped: &s0.stamped,
                    hist: s0.hist.clone(),
                    recv: Some(&s0.recv),
                    local_in: s0.local_in || tw.local_in || s0.id != tw.id,
                };
                let b = Side {
                    who: format!("twin{r} (member n{}) after step {sn}", tw.id),
                    view: &view,
                    stamped: &tw.stamped,
                    hist: tw.hist.join("; "),
                    recv: Some(&tw.recv),
                    local_in: s0.local_in || tw.local_in || s0.id != tw.id,
                };
                let desc = format!("{} (registered: {:?})", show(&key.0), key.1);
                if let Some(v) = compare_views("D", &desc, &a, &b) {
                    out.violation = Some(v);
                    out.nontrivial = true;
                    return out;
                }
            },
        }
    }
    out.inner_evals = comparisons;
    out.nontrivial = comparisons > 0;
    out
}

// ---------------------------------------------------------------------------
// generation, shrinking
// ---------------------------------------------------------------------------

/// the multiset: updates over `members` members, tiny incarnation / timestamp ranges, ties injected
fn gen_updates(rng: &mut Rng, members: u8, n_upd: usize) -> (Vec<Upd>, u64) {
    let inc_max = *rng.pick(&[0u64, 1, 1, 2, 2]);
    // mostly tiny (ties), now and then with gaps (a clock that lags behind a stored timestamp)
    let ts_max = *rng.pick(&[0u64, 1, 2, 3, 3, 6, 9, 30]);
    let tie_w = rng.range(1, 4);
    // the observer's wall clock: constant, or an independent value from a tiny range (ties included)
    let wall_max = *rng.pick(&[0u64, 1, 2, 3]);
    let mut updates: Vec<Upd> = Vec::new();
    for _ in 0..n_upd {
        if !updates.is_empty() && rng.chance(tie_w, 6) {
            // a tie: same member, incarnation and timestamp as an earlier update, other health
            let b = updates[rng.usize_below(updates.len())].clone();
            let bh = if b.own { 0 } else { b.h % 4 };
            updates.push(Upd { m: b.m, h: (bh + 1 + rng.below(3) as u8) % 4, inc: b.inc, ts: b.ts, own: false, wall: rng.below(wall_max + 1) as u8 });
        } else {
            let own = rng.chance(1, 3);
            updates.push(Upd {
                m: rng.below(u64::from(members)) as u8,
                h: if own { 0 } else { rng.below(4) as u8 },
                inc: rng.below(inc_max + 1) as u8,
                ts: rng.below(ts_max + 1) as u8,
                own,
                wall: rng.below(wall_max + 1) as u8,
            });
        }
    }
    (updates, inc_max)
}

fn gen_a(rng: &mut Rng, mode: Mode) -> Case {
    let members = rng.range(2, 4) as u8;
    let replicas = rng.range(2, 4) as u8;
    let n_upd = rng.range(2, 12) as usize;
    let (updates, inc_max) = gen_updates(rng, members, n_upd);
    // per-replica delivery plan: permutation + duplicates, cut into batches
    let mut plans: Vec<Vec<Step>> = Vec::new();
    for r in 0..replicas {
        let mut order: Vec<u8> = (0..n_upd as u8).collect();
        for i in (1..order.len()).rev() {
            let j = rng.usize_below(i + 1);
            order.swap(i, j);
        }
        let dups = if rng.chance(1, 3) { 0 } else { rng.usize_below(n_upd / 2 + 2) };
        for _ in 0..dups {
            let x = rng.below(n_upd as u64) as u8;
            let pos = rng.usize_below(order.len() + 1);
            order.insert(pos, x);
        }
        let style = rng.below(4);
        let mut plan = Vec::new();
        let mut i = 0;
        while i < order.len() {
            let sz = match style {
                0 => 1,
                1 => order.len(),
                2 => rng.range(1, 3) as usize,
                _ => rng.range(1, order.len() as u64) as usize,
            };
            let end = (i + sz).min(order.len());
            plan.push(Step::Deliver { r, items: order[i..end].to_vec() });
            i = end;
        }
        plans.push(plan);
    }
    // interleave the plans, keeping each replica's order
    let mut steps: Vec<Step> = Vec::new();
    let mut cursors = vec![0usize; plans.len()];
    loop {
        let open: Vec<usize> = (0..plans.len()).filter(|p| cursors[*p] < plans[*p].len()).collect();
        if open.is_empty() {
            break;
        }
        let p = open[rng.usize_below(open.len())];
        steps.push(plans[p][cursors[p]].clone());
        cursors[p] += 1;
    }
    let r_of = |rng: &mut Rng| rng.below(u64::from(replicas)) as u8;
    let m_of = |rng: &mut Rng| rng.below(u64::from(members)) as u8;
    match mode {
        Mode::Merge => {
            // occasionally a replica-to-replica sync as one more way of grouping
            if rng.chance(1, 4) {
                for _ in 0..rng.range(1, 2) {
                    let pos = rng.usize_below(steps.len() + 1);
                    steps.insert(pos, Step::Sync { from: r_of(rng), to: r_of(rng) });
                }
            }
        },
        _ => {
            for _ in 0..rng.range(1, 10) {
                let pos = rng.usize_below(steps.len() + 1);
                let s = match rng.below(12) {
                    0..=1 => Step::Suspect { r: r_of(rng), m: m_of(rng), inc: None },
                    2 => Step::Suspect { r: r_of(rng), m: m_of(rng), inc: Some(rng.below(inc_max + 2) as u8) },
                    3..=4 => Step::Fail { r: r_of(rng), m: m_of(rng) },
                    5..=6 => Step::Refute { r: r_of(rng), m: m_of(rng), inc: rng.below(inc_max + 3) as u8 },
                    7 => Step::MarkHealthy { r: r_of(rng), m: m_of(rng) },
                    8..=9 => Step::Announce { r: r_of(rng), bump: rng.chance(1, 2) },
                    _ => Step::Sync { from: r_of(rng), to: r_of(rng) },
                };
                steps.insert(pos, s);
            }
        },
    }
    Case {
        mode,
        members,
        replicas,
        updates,
        steps,
        fanout: 1,
        max_states: 20,
        susp_ms: 500,
        threads: Vec::new(),
        schedule: Vec::new(),
        pre_peers: u16::MAX,
        flush: 0,
        idents: 0,
    }
}

/// who is registered before the first step: everybody (the cluster bootstrap), or any subset
fn gen_pre_peers(rng: &mut Rng) -> u16 {
    match rng.below(4) {
        0..=1 => u16::MAX,
        2 => rng.below(1 << 16) as u16,
        _ => (rng.below(1 << 16) | rng.below(1 << 16)) as u16,
    }
}

fn gen_b(rng: &mut Rng) -> Case {
    let n = rng.range(2, 4) as u8;
    let susp_ms = *rng.pick(&[300u32, 500, 1000]);
    let n_steps = rng.range(10, 50) as usize;
    // suspect_node makes the suspecting manager's input more than "updates only": some runs go without
    let suspects = rng.chance(2, 3);
    let mut steps = Vec::new();
    for _ in 0..n_steps {
        let r_of = |rng: &mut Rng| rng.below(u64::from(n)) as u8;
        let s = match rng.below(28) {
            0..=4 => Step::Round { r: r_of(rng) },
            5..=12 => Step::NetDeliver { pick: if rng.chance(1, 2) { 0 } else { rng.below(8) as u8 } },
            13..=14 if suspects => Step::SuspectNode { r: r_of(rng), m: r_of(rng) },
            13..=14 => Step::Round { r: r_of(rng) },
            15..=16 => Step::Advance { ms: *rng.pick(&[100u32, 300, 600, 1200]) },
            17 => Step::NetDrop { pick: rng.below(8) as u8 },
            18..=19 => Step::NetDup { pick: rng.below(8) as u8 },
            20..=21 => Step::AddPeer { r: r_of(rng), m: r_of(rng) },
            22 => Step::LocalCall { r: r_of(rng), m: r_of(rng), kind: rng.below(u64::from(LOCAL_KINDS)) as u8 },
            23..=26 => Step::ShadowDeliver { r: r_of(rng), pick: if rng.chance(1, 2) { 0 } else { rng.below(8) as u8 } },
            _ => Step::ShadowDup { r: r_of(rng), pick: rng.below(8) as u8 },
        };
        steps.push(s);
    }
    Case {
        mode: Mode::Manager,
        members: n,
        replicas: n,
        updates: Vec::new(),
        steps,
        fanout: rng.range(1, 3) as u8,
        max_states: *rng.pick(&[1u8, 2, 20, 20]),
        susp_ms,
        threads: Vec::new(),
        schedule: Vec::new(),
        pre_peers: gen_pre_peers(rng),
        flush: rng.below(3) as u8,
        idents: 0,
    }
}

/// one call into the manager of configuration C
fn gen_c_op(rng: &mut Rng, members: u8, n_upd: usize, inc_max: u64) -> Step {
    let m_of = |rng: &mut Rng| rng.below(u64::from(members)) as u8;
    match rng.below(112) {
        0..=34 => gen_sync(rng, 0, n_upd),
        35..=54 => Step::MsgAlive { r: 0, m: m_of(rng), inc: rng.below(inc_max + 3) as u8 },
        55..=66 => Step::MsgSuspect { r: 0, from: rng.below(3) as u8, m: m_of(rng), inc: rng.below(inc_max + 2) as u8 },
        67..=76 => Step::SuspectNode { r: 0, m: m_of(rng) },
        77..=84 => Step::MsgPingAck { r: 0, from: rng.below(3) as u8, m: m_of(rng), ok: rng.chance(3, 4) },
        85..=92 => Step::Round { r: 0 },
        93..=99 => Step::Advance { ms: *rng.pick(&[100u32, 300, 600, 1200]) },
        100..=106 => Step::AddPeer { r: 0, m: m_of(rng) },
        107..=109 => Step::LocalCall { r: 0, m: m_of(rng), kind: rng.below(u64::from(LOCAL_KINDS)) as u8 },
        _ => Step::MsgBidir { r: 0, from: rng.below(3) as u8, id: rng.below(3) as u8, ack: rng.chance(1, 2) },
    }
}

/// a whole Sync message: any sender, any sub-multiset in any grouping, repeated at will (an empty Sync is legal too),
/// any sender_time from a tiny range (so that Syncs of one sender arrive in and out of the order of their times)
fn gen_sync(rng: &mut Rng, r: u8, n_upd: usize) -> Step {
    let k = if n_upd == 0 { 0 } else { *rng.pick(&[0usize, 1, 1, 2, 2, 3, 4]) };
    let items: Vec<u8> = (0..k).map(|_| rng.below(n_upd as u64) as u8).collect();
    Step::MsgSync { r, from: rng.below(3) as u8, items, time: rng.below(5) as u8 }
}

fn gen_c(rng: &mut Rng) -> Case {
    let members = rng.range(2, 4) as u8;
    let n_upd = rng.range(0, 8) as usize;
    let (updates, inc_max) = gen_updates(rng, members, n_upd);
    let nthreads = match rng.below(20) {
        0..=1 => 1,
        2..=12 => 2,
        _ => 3,
    };
    let steps: Vec<Step> = (0..rng.below(5)).map(|_| gen_c_op(rng, members, n_upd, inc_max)).collect();
    let threads: Vec<Vec<Step>> =
        (0..nthreads).map(|_| (0..rng.range(1, 5)).map(|_| gen_c_op(rng, members, n_upd, inc_max)).collect()).collect();
    let stick = *rng.pick(&[0u64, 50, 80, 92]);
    let schedule = if nthreads > 1 { sched::gen_schedule(rng, 40 + 60 * nthreads, stick) } else { Vec::new() };
    Case {
        mode: Mode::Threads,
        members,
        replicas: 1,
        updates,
        steps,
        fanout: rng.range(1, 3) as u8,
        // what a node sends is bounded by this; what it receives (from nodes configured otherwise) is not
        max_states: *rng.pick(&[1u8, 2, 3, 20, 20, 20]),
        susp_ms: *rng.pick(&[300u32, 500, 1000]),
        threads,
        schedule,
        pre_peers: gen_pre_peers(rng),
        flush: 0,
        idents: 0,
    }
}

/// configuration D: a pool of whole Sync messages; every twin receives the pool in a permutation of its own,
/// with repetitions, sometimes re-grouped into other messages (other senders, times, cuts); registrations
/// and neutral local calls at arbitrary points; in some runs a few of the statement's local events
fn gen_d(rng: &mut Rng) -> Case {
    let mut members = rng.range(2, 4) as u8;
    let twins = rng.range(2, 4) as u8;
    // who the twins are: all n0 (several nodes in the same position), or any members (the same messages
    // reach different members of the cluster, among them the member the messages are about)
    let mixed = rng.chance(1, 2);
    if mixed {
        members = members.max(3);
    }
    let ids: Vec<u8> = (0..twins).map(|_| if mixed { rng.below(u64::from(members)) as u8 } else { 0 }).collect();
    let idents = ids.iter().enumerate().fold(0u8, |a, (i, id)| a | (id << (2 * i)));
    let mut n_upd = rng.range(1, 8) as usize;
    let (mut updates, inc_max) = gen_updates(rng, members, n_upd);
    if mixed {
        // a slightly wider timestamp range (the placeholders of registered members sit at times 2..4)
        for u in updates.iter_mut().filter(|u| !u.own) {
            u.ts += rng.below(3) as u8;
        }
        // the node state every twin wrote about itself at start-up, as an update the others can receive
        let mut distinct = ids.clone();
        distinct.sort_unstable();
        distinct.dedup();
        for id in distinct {
            if rng.chance(7, 8) {
                updates.push(Upd { m: id, h: 0, inc: 0, ts: 1, own: true, wall: 0 });
            }
        }
    }
    let n_gen = n_upd;
    n_upd = updates.len();
    let pre_peers = gen_pre_peers(rng);
    let mut pool: Vec<Step> = (0..rng.range(1, 6)).map(|_| gen_sync(rng, 0, n_upd)).collect();
    // the start-up states travel in some message of the pool (mostly)
    for k in n_gen..n_upd {
        if rng.chance(7, 8) {
            let at = rng.usize_below(pool.len());
            if let Step::MsgSync { items, .. } = &mut pool[at] {
                let pos = rng.usize_below(items.len() + 1);
                items.insert(pos, k as u8);
            }
        }
    }
    let m_of = |rng: &mut Rng| rng.below(u64::from(members)) as u8;
    let mut plans: Vec<Vec<Step>> = Vec::new();
    for r in 0..twins {
        let mut plan: Vec<Step> = pool.clone();
        if rng.chance(1, 4) {
            // other grouping of the same updates: all items of the pool, cut anew
            let mut items: Vec<u8> = pool.iter().flat_map(|s| if let Step::MsgSync { items, .. } = s { items.clone() } else { Vec::new() }).collect();
            for i in (1..items.len()).rev() {
                let j = rng.usize_below(i + 1);
                items.swap(i, j);
            }
            plan.clear();
            let mut i = 0;
            while i < items.len() {
                let end = (i + rng.range(1, 4) as usize).min(items.len());
                plan.push(Step::MsgSync { r, from: rng.below(3) as u8, items: items[i..end].to_vec(), time: rng.below(5) as u8 });
                i = end;
            }
        }
        for i in (1..plan.len()).rev() {
            let j = rng.usize_below(i + 1);
            plan.swap(i, j);
        }
        if !plan.is_empty() {
            for _ in 0..rng.below(3) {
                let x = plan[rng.usize_below(plan.len())].clone();
                let pos = rng.usize_below(plan.len() + 1);
                plan.insert(pos, x);
            }
        }
        // registration of the members not registered up front (mostly), and of registered ones again (sometimes)
        let my = ids[r as usize] as usize;
        for m in (0..members).filter(|m| *m as usize != my) {
            let pre = (pre_peers >> pre_col(my, m as usize)) & 1 == 1;
            if (!pre && rng.chance(3, 4)) || (pre && rng.chance(1, 8)) {
                let pos = rng.usize_below(plan.len() + 1);
                plan.insert(pos, Step::AddPeer { r, m });
            }
        }
        if rng.chance(1, 3) {
            let pos = rng.usize_below(plan.len() + 1);
            let s = match rng.below(4) {
                0 => Step::Round { r },
                1 => Step::MsgBidir { r, from: rng.below(3) as u8, id: rng.below(3) as u8, ack: rng.chance(1, 2) },
                _ => Step::LocalCall { r, m: m_of(rng), kind: rng.below(u64::from(LOCAL_KINDS)) as u8 },
            };
            plan.insert(pos, s);
        }
        if rng.chance(2, 5) {
            // Suspect messages about any member, the receiver included (local suspect events / self-refutation;
            // the twin stays in the comparison of clause (1), see `compare_views`)
            for _ in 0..rng.range(1, 2) {
                let pos = rng.usize_below(plan.len() + 1);
                let m = if rng.chance(1, 2) { my as u8 } else { m_of(rng) };
                plan.insert(pos, Step::MsgSuspect { r, from: rng.below(3) as u8, m, inc: rng.below(inc_max + 2) as u8 });
            }
            if rng.chance(1, 4) {
                plan.push(Step::Advance { ms: *rng.pick(&[300u32, 600, 1200]) });
                plan.push(Step::Round { r });
            }
        }
        if rng.chance(1, 5) {
            // the statement's other local events on this twin (it leaves the comparison of clause (1))
            for _ in 0..rng.range(1, 3) {
                let pos = rng.usize_below(plan.len() + 1);
                let s = match rng.below(6) {
                    0..=1 => Step::MsgAlive { r, m: m_of(rng), inc: rng.below(inc_max + 3) as u8 },
                    2 => Step::MsgSuspect { r, from: rng.below(3) as u8, m: m_of(rng), inc: rng.below(inc_max + 2) as u8 },
                    3 => Step::SuspectNode { r, m: m_of(rng) },
                    4 => Step::MsgPingAck { r, from: rng.below(3) as u8, m: m_of(rng), ok: rng.chance(3, 4) },
                    _ => Step::Advance { ms: *rng.pick(&[300u32, 600, 1200]) },
                };
                plan.insert(pos, s);
                if rng.chance(1, 2) {
                    plan.push(Step::Round { r });
                }
            }
        }
        for s in &mut plan {
            if let Step::MsgSync { r: rr, .. } = s {
                *rr = r;
            }
        }
        plans.push(plan);
    }
    // interleave the plans, keeping each twin's order
    let mut steps: Vec<Step> = Vec::new();
    let mut cursors = vec![0usize; plans.len()];
    loop {
        let open: Vec<usize> = (0..plans.len()).filter(|p| cursors[*p] < plans[*p].len()).collect();
        if open.is_empty() {
            break;
        }
        let p = open[rng.usize_below(open.len())];
        steps.push(plans[p][cursors[p]].clone());
        cursors[p] += 1;
    }
    Case {
        mode: Mode::Twins,
        members,
        replicas: twins,
        updates,
        steps,
        fanout: rng.range(1, 3) as u8,
        // what a node sends is bounded by this; what it receives (from nodes configured otherwise) is not
        max_states: *rng.pick(&[1u8, 2, 3, 20, 20, 20]),
        susp_ms: *rng.pick(&[300u32, 500, 1000]),
        threads: Vec::new(),
        schedule: Vec::new(),
        pre_peers,
        flush: 0,
        idents,
    }
}

/// remove update `k` and renumber the references to the updates after it
fn without_update(case: &Case, k: usize) -> Case {
    let mut c = case.clone();
    c.updates.remove(k);
    for s in c.steps.iter_mut().chain(c.threads.iter_mut().flatten()) {
        if let Step::Deliver { items, .. } | Step::MsgSync { items, .. } = s {
            items.retain(|i| *i as usize != k);
            for i in items.iter_mut() {
                if *i as usize > k {
                    *i -= 1;
                }
            }
        }
    }
    c
}

/// per-step simplifications of configuration C calls
fn simpler_c_step(s: &Step) -> Vec<Step> {
    let mut v = Vec::new();
    match s {
        Step::MsgSync { r, from, items, time } => {
            for it in drop_chunks(items) {
                v.push(Step::MsgSync { r: *r, from: *from, items: it, time: *time });
            }
            if *time > 0 {
                v.push(Step::MsgSync { r: *r, from: *from, items: items.clone(), time: 0 });
            }
            if *time > 1 {
                v.push(Step::MsgSync { r: *r, from: *from, items: items.clone(), time: time - 1 });
            }
            if *from > 0 {
                v.push(Step::MsgSync { r: *r, from: 0, items: items.clone(), time: *time });
            }
        },
        Step::MsgAlive { r, m, inc } if *inc > 0 => v.push(Step::MsgAlive { r: *r, m: *m, inc: inc - 1 }),
        Step::MsgSuspect { r, from, m, inc } => {
            if *inc > 0 {
                v.push(Step::MsgSuspect { r: *r, from: *from, m: *m, inc: inc - 1 });
            }
            if *from > 0 {
                v.push(Step::MsgSuspect { r: *r, from: 0, m: *m, inc: *inc });
            }
        },
        Step::MsgPingAck { r, from, m, ok } if *from > 0 => v.push(Step::MsgPingAck { r: *r, from: 0, m: *m, ok: *ok }),
        Step::LocalCall { r, m, kind } if *kind % LOCAL_KINDS != 11 => v.push(Step::LocalCall { r: *r, m: *m, kind: 11 }),
        _ => {},
    }
    v
}

impl Scenario for C17 {
    type Case = Case;
    fn id(&self) -> &'static str {
        "C17"
    }
    fn level(&self) -> &'static str {
        "exploration"
    }
    fn runs(&self, tier: Tier) -> u64 {
        match tier {
            Tier::Quick => 150_000,
            Tier::Thorough => 6_000_000,
        }
    }
    fn generate(&self, rng: &mut Rng, _tier: Tier, _index: u64) -> Case {
        match rng.below(20) {
            0..=6 => gen_a(rng, Mode::Merge),
            7..=10 => gen_a(rng, Mode::Local),
            11..=13 => gen_b(rng),
            14..=16 => gen_d(rng),
            _ => gen_c(rng),
        }
    }

    fn run(&self, case: &Case, ctx: &Arc<RunCtx>) -> RunOut {
        // threads are switched only at this scenario's own sites and at the lock
        // acquisitions of tensor_chain (gossip.rs takes its locks from crate::sync_compat)
        sched::set_allowed_sites(&["c17.", "tensor_chain."]);
        ctx.fp(match case.mode {
            Mode::Merge => "merge",
            Mode::Local => "local",
            Mode::Manager => "manager",
            Mode::Threads => "threads",
            Mode::Twins => "twins",
        });
        match case.mode {
            Mode::Manager => run_b(case, ctx),
            Mode::Threads => run_c(case, ctx),
            Mode::Twins => run_d(case, ctx),
            _ => run_a(case, ctx),
        }
    }

    fn shrink(&self, case: &Case) -> Vec<Case> {
        let mut v = Vec::new();
        for steps in drop_chunks(&case.steps) {
            let mut c = case.clone();
            c.steps = steps;
            v.push(c);
        }
        // configuration C: fewer threads, shorter programs, a plainer schedule
        if case.mode == Mode::Threads {
            for t in 0..case.threads.len() {
                let mut c = case.clone();
                c.threads.remove(t);
                v.push(c);
            }
            for (t, prog) in case.threads.iter().enumerate() {
                for p in drop_chunks(prog) {
                    let mut c = case.clone();
                    c.threads[t] = p;
                    v.push(c);
                }
            }
            for sch in drop_chunks(&case.schedule) {
                let mut c = case.clone();
                c.schedule = sch;
                v.push(c);
            }
            // a thread's first call moved into the sequential prefix
            for t in 0..case.threads.len() {
                if !case.threads[t].is_empty() {
                    let mut c = case.clone();
                    let s = c.threads[t].remove(0);
                    c.steps.push(s);
                    v.push(c);
                }
            }
        }
        // drop updates of the multiset
        for k in 0..case.updates.len() {
            v.push(without_update(case, k));
        }
        // smaller batches
        for (i, s) in case.steps.iter().enumerate() {
            if let Step::Deliver { r, items } = s {
                if items.len() > 1 {
                    for it in drop_chunks(items) {
                        if !it.is_empty() {
                            let mut c = case.clone();
                            c.steps[i] = Step::Deliver { r: *r, items: it };
                            v.push(c);
                        }
                    }
                }
            }
        }
        // renumber a replica to an unused smaller id (lets `replicas - 1` succeed afterwards)
        if case.mode == Mode::Merge || case.mode == Mode::Local {
            let n = case.replicas.max(1);
            let mut used = BTreeSet::new();
            for s in &case.steps {
                match s {
                    Step::Deliver { r, .. } | Step::Suspect { r, .. } | Step::Fail { r, .. } | Step::Refute { r, .. } | Step::MarkHealthy { r, .. } | Step::Announce { r, .. } => {
                        used.insert(r % n);
                    },
                    Step::Sync { from, to } => {
                        used.insert(from % n);
                        used.insert(to % n);
                    },
                    _ => {},
                }
            }
            for x in &used {
                if let Some(y) = (0..*x).find(|y| !used.contains(y)) {
                    let mut c = case.clone();
                    let f = |r: &mut u8| {
                        if *r % n == *x {
                            *r = y;
                        } else {
                            *r %= n;
                        }
                    };
                    for s in &mut c.steps {
                        match s {
                            Step::Deliver { r, .. } | Step::Suspect { r, .. } | Step::Fail { r, .. } | Step::Refute { r, .. } | Step::MarkHealthy { r, .. } | Step::Announce { r, .. } => f(r),
                            Step::Sync { from, to } => {
                                f(from);
                                f(to);
                            },
                            _ => {},
                        }
                    }
                    v.push(c);
                }
            }
            // member ids written out modulo the member count
            if case.updates.iter().any(|u| u.m >= case.members.max(1)) {
                let mut c = case.clone();
                for u in &mut c.updates {
                    u.m %= case.members.max(1);
                }
                v.push(c);
            }
        }
        // fewer replicas / members (steps address them modulo the count, so any count is valid)
        if case.replicas > 2 {
            let mut c = case.clone();
            c.replicas -= 1;
            v.push(c);
        }
        if case.members > 1 && case.mode != Mode::Manager && (!matches!(case.mode, Mode::Threads | Mode::Twins) || case.members > 2) {
            let mut c = case.clone();
            c.members -= 1;
            v.push(c);
        }
        if case.mode == Mode::Local {
            let mut c = case.clone();
            c.mode = Mode::Merge;
            v.push(c);
        }
        // everybody registered up front; one registration less
        if case.pre_peers != u16::MAX && case.mode != Mode::Merge && case.mode != Mode::Local {
            let mut c = case.clone();
            c.pre_peers = u16::MAX;
            v.push(c);
            for b in 0..16 {
                if (case.pre_peers >> b) & 1 == 0 {
                    let mut c = case.clone();
                    c.pre_peers |= 1 << b;
                    v.push(c);
                }
            }
        }
        if case.flush != 0 {
            let mut c = case.clone();
            c.flush = 0;
            v.push(c);
        }
        if case.idents != 0 {
            let mut c = case.clone();
            c.idents = 0;
            v.push(c);
            for i in 0..4 {
                if (case.idents >> (2 * i)) & 3 != 0 {
                    let mut c = case.clone();
                    c.idents &= !(3 << (2 * i));
                    v.push(c);
                }
            }
        }
        // simpler values
        for (k, u) in case.updates.iter().enumerate() {
            if u.inc > 0 {
                let mut c = case.clone();
                c.updates[k].inc -= 1;
                v.push(c);
            }
            if u.ts > 0 {
                let mut c = case.clone();
                c.updates[k].ts -= 1;
                v.push(c);
            }
            if u.wall > 0 {
                let mut c = case.clone();
                c.updates[k].wall -= 1;
                v.push(c);
            }
            if u.own {
                let mut c = case.clone();
                c.updates[k].own = false;
                c.updates[k].h = 0;
                v.push(c);
            }
        }
        for (i, s) in case.steps.iter().enumerate() {
            match s {
                Step::Refute { r, m, inc } if *inc > 0 => {
                    let mut c = case.clone();
                    c.steps[i] = Step::Refute { r: *r, m: *m, inc: inc - 1 };
                    v.push(c);
                },
                Step::Announce { r, bump: true } => {
                    let mut c = case.clone();
                    c.steps[i] = Step::Announce { r: *r, bump: false };
                    v.push(c);
                },
                Step::ShadowDeliver { r, pick } if *pick > 0 => {
                    let mut c = case.clone();
                    c.steps[i] = Step::ShadowDeliver { r: *r, pick: 0 };
                    v.push(c);
                },
                Step::ShadowDup { r, pick } => {
                    let mut c = case.clone();
                    c.steps[i] = Step::ShadowDeliver { r: *r, pick: *pick };
                    v.push(c);
                },
                Step::NetDeliver { pick } | Step::NetDup { pick } | Step::NetDrop { pick } if *pick > 0 => {
                    let mut c = case.clone();
                    c.steps[i] = match s {
                        Step::NetDeliver { .. } => Step::NetDeliver { pick: 0 },
                        Step::NetDup { .. } => Step::NetDup { pick: 0 },
                        _ => Step::NetDrop { pick: 0 },
                    };
                    v.push(c);
                },
                _ => {},
            }
            if matches!(case.mode, Mode::Threads | Mode::Twins | Mode::Manager) {
                for simpler in simpler_c_step(s) {
                    let mut c = case.clone();
                    c.steps[i] = simpler;
                    v.push(c);
                }
            }
        }
        if case.mode == Mode::Threads {
            for (t, prog) in case.threads.iter().enumerate() {
                for (i, s) in prog.iter().enumerate() {
                    for simpler in simpler_c_step(s) {
                        let mut c = case.clone();
                        c.threads[t][i] = simpler;
                        v.push(c);
                    }
                }
            }
            for (i, p) in case.schedule.iter().enumerate() {
                if *p != sched::STAY {
                    let mut c = case.clone();
                    c.schedule[i] = sched::STAY;
                    v.push(c);
                }
            }
        }
        v
    }

    fn required_probes(&self) -> Vec<&'static str> {
        vec![
            // configuration A, clause (1)
            "tie_delivered_in_both_orders",
            "duplicate_delivery",
            "batch_with_both_tie_members",
            "same_set_compared",
            // configuration A, local events
            "suspect_applied",
            "fail_applied",
            "refute_applied",
            "mark_healthy_applied",
            "update_local_applied",
            // configuration B
            "mgr_sync_delivered",
            "mgr_failed_recorded",
            "mgr_self_refute_announced",
            "mgr_alive_applied",
            // configuration C
            "thr_calls_overlapped",
            "thr_calls_about_same_member_overlapped",
            "thr_preempted_at_manager_lock",
            "thr_incarnation_raised",
            "thr_incarnation_raised_under_inflight_call",
            "thr_sync_changed_view",
            "thr_alive_changed_view",
            "thr_failed_recorded",
            // registration at arbitrary points (B, C, D) and the other local entry points
            "mgr_add_peer_of_known_member",
            "thr_add_peer_of_known_member",
            "twin_add_peer_of_known_member",
            "mgr_local_call",
            "twin_local_call",
            // clause (1) between real managers: B (manager and shadow), D (twins)
            "mgr_same_set_compared_after_reordering",
            "mgr_shadow_sync_older_than_previous_from_sender",
            "twin_same_set_compared_after_other_order_or_grouping",
            "twin_duplicate_sync",
            "twin_overtaken_sync_carries_new_update",
            "twin_incarnation_raised",
            // the observer's wall clock as an independent field of the updates (A, C, D)
            "tie_wall_clock_against_severity",
            // D: twins that are different members; Suspect messages (about the receiver too) inside the comparison
            "twin_identities_differ",
            "twin_same_set_compared_between_identities",
            "twin_suspect_names_receiver",
            "twin_sync_reports_receiver_below_its_refuted_incarnation",
            "twin_same_set_compared_after_suspect_message",
        ]
    }
    fn rule(&self) -> String {
        "A case is (Merge/Local) a multiset of <=12 node-state updates over 2-4 members (incarnation 0..2, timestamp 0..3, all four health values, ties injected on purpose) plus, per replica (2-4 real LWWMembershipState), a delivery plan = permutation + duplicates + batching given as explicit merge steps, in Local mode interleaved with suspect/fail/refute/mark_healthy/update_local and replica-to-replica sync steps; or (Manager) 2-4 real GossipMembershipManager on SimTransport driven by 10-45 steps (gossip_round, suspect_node, clock advance, deliver/drop/duplicate of a picked in-flight message); or (Threads) ONE real GossipMembershipManager n0 with 1-3 peers that is handed the case's updates as the messages a node receives (Sync{sender, any sub-multiset of <=8 updates, sender_time}, Alive, Suspect, PingAck) and local events (suspect_node, gossip_round incl. suspicion expiry, clock advance): 0-4 calls sequentially, then 1-3 scheduled threads with 1-5 calls each into the same manager, switched at the manager's lock acquisitions according to the schedule in the case; clauses (2)/(3) judged on the view each thread reads after each completed call; or (Twins) 2-4 real GossipMembershipManager, all of identity n0 or each any member of the cluster (`idents`; its own start-up node state counts as the first update it received and travels to the others as an `own` update of the multiset), that are handed Suspect messages about any member (the receiver included: self-refutation) and a pool of 1-6 whole Sync messages (any sender, sub-multiset of <=8 updates, sender_time 0..4), each twin in its own permutation with repetitions and sometimes its own re-grouping of the same updates into other messages, clause (1) judged between twins with the same received set of update values and the same registered members. In Manager, Threads and Twins the members registered up front are any subset (pre_peers), add_peer is a step at arbitrary points, and so are the remaining public local entry points (heal progress, bidirectional probes, flap records, callback registration, readers, shutdown); in Manager every manager has a shadow (same identity/configuration/registration) that receives the manager's inputs in an order of its own (ShadowDeliver/ShadowDup picks, flush order at the end) and clause (1) is judged between manager and shadow whenever the shadow has caught up and neither had a local suspect/refute/mark-healthy input. inner_enumerated_points counts same-received-set view comparisons (clause 1). Non-trivial: Merge = at least one such comparison was made; Local = at least one local event took effect; Manager = at least one delivered Sync changed the receiver's view; Threads = the observed view changed at least once and (with 2+ threads) two calls overlapped; Twins = at least one comparison. Distinct: hash of (mode, sequence of step kinds with batch size / changed-count / outcome class).".into()
    }
    fn components(&self) -> Value {
        json!({
            "real": [
                "tensor_chain::gossip::LWWMembershipState (merge, sync_time, suspect, fail, refute, mark_healthy, update_local, states_for_gossip)",
                "tensor_chain::gossip::GossipNodeState::supersedes",
                "tensor_chain::gossip::GossipMembershipManager (new, add_peer at any point, gossip_round, suspect_node, handle_gossip: Sync/Suspect/Alive/PingReq/PingAck/BidirectionalProbe/BidirectionalAck, expire_suspicions, broadcast_alive, record_heal_progress, is_heal_confirmed, clear_heal_progress(_batch), reset_heal_progress, send_bidirectional_probe, expire_bidirectional_probes, reset_stable_flap_records, clear_connectivity, register_callback, readers, shutdown)",
                "configuration B: a shadow manager per manager, configuration D: 2-4 twin managers (same identity): real GossipMembershipManager instances whose sends go to a network nobody reads",
                "tokio current-thread runtime (no I/O, no time driver) as executor of the manager's tokio::spawn'ed sends, drained after every step (configuration C: after every sequential step and after the threads have finished)",
                "configuration C: the manager's own RwLocks (state, suspicions, known_peers, callbacks, flap_tracker) through tensor_chain::sync_compat, whose acquisitions are the schedule points `tensor_chain.lock`"
            ],
            "simulated": [
                "network: net::SimTransport, delivery/drop/duplication/reordering from the step list",
                "clock: Instant/SystemTime interposed, advanced by steps",
                "getrandom (HashMap order) from the run seed",
                "configuration C: thread interleaving = sched::run_threads baton, one thread at a time, switches only at `tensor_chain.lock*` and `c17.op`, decided by the case's schedule; peers n1.. exist only as senders named in the messages"
            ],
            "stub": ["Message::Ping of the indirect probe is discarded at delivery (answered by the transport layer in production)"]
        })
    }
    fn assumptions(&self) -> Vec<String> {
        vec![
            "a member 'announces' incarnation i by its own node state (own update / update_local on itself) or its Alive message (refute at receivers); every member starts having announced 0".into(),
            "third-party updates of the multiset carry incarnations not above the member's greatest announcement in the multiset (inputs with fabricated incarnations are outside the statement)".into(),
            "update_local is used the way the manager uses it: on the replica's own member, Healthy, with the member's own non-decreasing counter".into(),
            "clause (1) compares health and incarnation (the statement's words); a timestamp-only difference is an observation".into(),
            "GossipMembershipManager::run (tokio select!/sleep loop) is not used: the step list calls gossip_round itself".into(),
            "configuration C: overlapping calls of several threads into one manager are deliveries 'in any order and grouping, interleaved with local events' at the granularity of the manager's own critical sections (the manager is Sync, all entry points take &self, run() and the transport's receive tasks call it from different threads), so its violations are verdicts; a node's view is what membership_view()/lamport_time() return to a caller between two calls".into(),
            "configuration C: an Alive{m, inc} message counts as m's announcement of inc from the moment the delivering call starts".into(),
            "clause (1) between real managers (B: manager/shadow, D: twins): 'the same set of membership updates' = the same set of node-state values received inside Sync messages, by managers with the same identity, configuration and registered members and no other input; judged are the incarnation of every member, and the health of every member whose entry neither manager has stamped with its own clock (handle_sync stamps the sender Healthy at local time + 1, a late add_peer of an unknown member writes its placeholder at local time + 1: local observations whose time depends on the delivery order, not updates of the set)".into(),
            "configuration D, twins that received Suspect messages or are different members: a Suspect message / its expiry / a registration placeholder / the sender stamp only ever rewrite an entry upwards in merge's order (same or higher incarnation, time above everything merged so far), so an entry that equals a received update value is the greatest received update about that member; clause (1) is judged on exactly those entries (both nodes hold a received value for the member) and on nothing else".into(),
            "every update carries an observer wall clock (updated_at) drawn independently from 0..3; the statement speaks of health and incarnation only, so two updates that differ only in it are the same update for the oracle".into(),
            "handle_signed_gossip / with_signing / with_geometric are not driven (they wrap handle_gossip and target selection; signatures and geometry are outside C17's statement)".into(),
        ]
    }
}
