//! C19 — Blob store returns the bytes that were stored and never collects
//! live data.
//!
//! Real `tensor_blob::BlobStore` (put / writer+write+finish / get / reader /
//! delete / gc / full_gc / verify / repair) over a real in-memory
//! `TensorStore`. Its `async fn`s contain no suspension point, every call is
//! polled to completion with `net::now_or_never` (a pending future is a
//! harness error). The background GC task is never started; GC cycles are
//! explicit steps and chunk age is read from the simulated clock.
//!
//! A case is `setup` (sequential) ; `threads` (2-4 scheduled threads, baton
//! scheduler, schedule in the case, switches at operation boundaries, between
//! stream fragments and at the `blob.*` hook sites inside tensor_blob) ;
//! `tail` (sequential) ; and an implicit final "delete everything, full_gc".
//! With `threads` empty the case is a purely sequential program.
//!
//! Oracle = the property text only (each check quotes its clause).

use crate::ctx::RunCtx;
use crate::driver::{drop_chunks, RunOut, Scenario, Tier, Violation};
use crate::net::now_or_never;
use crate::rng::Rng;
use crate::sched;
use serde::{Deserialize, Serialize};
use serde_json::{json, Value};
use std::collections::{BTreeMap, BTreeSet};
use std::sync::{Arc, Mutex, MutexGuard};
use std::time::Duration;
use tensor_blob::{compute_hash, BlobConfig, BlobError, BlobStore, BlobWriter, PutOptions};
use tensor_store::{ScalarValue, TensorStore, TensorValue};

/// Content of an artifact, as whole blocks of `chunk` bytes drawn from a tiny
/// alphabet (so artifacts share chunks) plus a tail that is a prefix of a block.
#[derive(Serialize, Deserialize, Clone, Debug, PartialEq)]
pub struct Content {
    pub blocks: Vec<u8>,
    /// tail length is `tail % chunk`
    pub tail: u8,
    pub tail_of: u8,
}

fn block(b: u8, chunk: usize) -> Vec<u8> {
    (0..chunk).map(|i| b.wrapping_mul(41).wrapping_add((i as u8).wrapping_mul(7)).wrapping_add(3)).collect()
}

impl Content {
    fn bytes(&self, chunk: usize) -> Vec<u8> {
        let mut v = Vec::new();
        for b in &self.blocks {
            v.extend(block(*b, chunk));
        }
        let t = self.tail as usize % chunk;
        v.extend_from_slice(&block(self.tail_of, chunk)[..t]);
        v
    }
}

/// content-address keys of the chunks of `data` (the public key format)
fn chunk_keys(data: &[u8], chunk: usize) -> Vec<String> {
    data.chunks(chunk).map(|c| format!("_blob:chunk:{}", compute_hash(c))).collect()
}

#[derive(Serialize, Deserialize, Clone, Debug, PartialEq)]
pub enum Op {
    /// one-call put into slot `s`
    Put { s: u8, c: Content },
    /// streamed write, fragments of the given sizes (cycled; empty = one write);
    /// under the scheduler the thread yields between fragments
    Stream { s: u8, c: Content, frags: Vec<u8> },
    /// split streamed write (the writer stays open across steps of the same thread)
    Open { s: u8, c: Content },
    Write { s: u8, n: u8 },
    Finish { s: u8 },
    /// drop an open writer without finishing
    Abandon { s: u8 },
    Delete { s: u8 },
    /// buf 0: `get`; otherwise `reader` + `read` into a buffer of that size
    Get { s: u8, buf: u8 },
    Verify { s: u8 },
    Gc,
    FullGc,
    Repair,
    Advance { ms: u32 },
    /// storage fault on chunk `idx` (255 = last) of slot `s`:
    /// kind 0 flip a byte, 1 remove the chunk, 2 cut one byte, 3 strip the data field
    Tamper { s: u8, idx: u8, kind: u8 },
}

#[derive(Serialize, Deserialize, Clone, Debug)]
pub struct Case {
    pub chunk: usize,
    pub min_age_s: u64,
    pub gc_batch: usize,
    pub setup: Vec<Op>,
    pub threads: Vec<Vec<Op>>,
    pub schedule: Vec<u8>,
    pub tail: Vec<Op>,
    /// a client that gets an error from `delete` (other than NotFound) tries
    /// again at once, up to this many times
    #[serde(default)]
    pub retry_refused: u8,
    /// `BlobConfig::max_artifact_size` (None = not configured, the default)
    #[serde(default)]
    pub max_size: Option<usize>,
}

pub struct C19;

#[derive(Clone, Copy, PartialEq, Eq, Debug)]
enum Life {
    Live,
    Deleted,
    /// a delete returned an unexpected error: not judged
    Unsure,
}

#[derive(Clone, Debug)]
struct Slot {
    id: String,
    bytes: Vec<u8>,
    life: Life,
}

#[derive(Clone, Copy, PartialEq, Eq, Debug)]
enum Kind {
    Write,
    Delete,
    Gc,
    Maint,
}

struct Active {
    token: u64,
    kind: Kind,
    slot: u8,
    keys: BTreeSet<String>,
}

#[derive(Default)]
struct H {
    slots: BTreeMap<u8, Slot>,
    active: Vec<Active>,
    next_token: u64,
    /// a full_gc / repair overlapped a write that had not returned yet
    maint_during_write: bool,
    /// two deletes of the same artifact overlapped
    same_delete_overlap: bool,
    /// chunk keys hit by an injected storage fault
    faulted: BTreeSet<String>,
    violation: Option<Violation>,
    observations: Vec<String>,
    harness_error: Option<String>,
    writes_ok: u64,
    /// scheduled phase: site each thread is parked at, and what it is doing
    parked: BTreeMap<usize, &'static str>,
    doing: BTreeMap<usize, Kind>,
}

struct Env {
    blob: Arc<BlobStore>,
    h: Arc<Mutex<H>>,
    ctx: Arc<RunCtx>,
    chunk: usize,
    /// inside the scheduled phase
    par: bool,
    /// thread tag for the event log
    tag: String,
    tid: Option<usize>,
    /// slots no thread ever deletes (their reads are judged during the scheduled phase)
    never_deleted: BTreeSet<u8>,
    retry_refused: u8,
    max_size: Option<usize>,
}

struct OpenW {
    w: BlobWriter,
    bytes: Vec<u8>,
    pos: usize,
    token: u64,
    last: Option<usize>,
}

#[derive(Default)]
struct Local {
    open: BTreeMap<u8, OpenW>,
}

fn lock(h: &Arc<Mutex<H>>) -> MutexGuard<'_, H> {
    match h.lock() {
        Ok(g) => g,
        Err(p) => p.into_inner(),
    }
}

fn err_kind(e: &BlobError) -> &'static str {
    match e {
        BlobError::NotFound(_) => "not-found",
        BlobError::ChunkMissing(_) => "chunk-missing",
        BlobError::EmptyData => "empty-data",
        BlobError::InvalidConfig(_) => "rejected-by-configuration",
        _ => "other-error",
    }
}

impl Env {
    fn suffix(&self) -> String {
        let h = lock(&self.h);
        // one attribution only (the first that applies), so classes do not multiply
        if h.maint_during_write {
            "+fullgc-or-repair-during-write".to_string()
        } else if h.same_delete_overlap {
            "+same-artifact-deleted-twice-concurrently".to_string()
        } else {
            String::new()
        }
    }

    fn fail(&self, class: &str, detail: String) {
        let class = format!("{class}{}", self.suffix());
        self.ev(&format!("VIOLATION {class}: {detail}"));
        let mut h = lock(&self.h);
        if h.violation.is_none() {
            h.violation = Some(Violation { class, detail });
        }
    }

    fn ev(&self, s: &str) {
        self.ctx.event(&format!("{}{s}", self.tag));
    }

    fn failed(&self) -> bool {
        let h = lock(&self.h);
        h.violation.is_some() || h.harness_error.is_some()
    }

    /// register an operation as running; counts the overlap probes
    fn begin(&self, kind: Kind, slot: u8, keys: BTreeSet<String>) -> u64 {
        let mut probes: Vec<&'static str> = Vec::new();
        let token;
        {
            let mut h = lock(&self.h);
            h.next_token += 1;
            token = h.next_token;
            let mut maint = false;
            let mut same_del = false;
            for a in &h.active {
                let shares = a.keys.intersection(&keys).next().is_some();
                match (a.kind, kind) {
                    (Kind::Write, Kind::Delete) | (Kind::Delete, Kind::Write) if shares => {
                        probes.push("writer_and_deleter_of_same_chunk_overlapped")
                    },
                    (Kind::Write, Kind::Write) if shares => probes.push("writers_of_same_chunk_overlapped"),
                    (Kind::Delete, Kind::Delete) if a.slot == slot => {
                        same_del = true;
                        probes.push("deletes_of_same_artifact_overlapped")
                    },
                    (Kind::Delete, Kind::Delete) if shares => probes.push("deleters_of_same_chunk_overlapped"),
                    (Kind::Write, Kind::Gc) | (Kind::Gc, Kind::Write) => probes.push("gc_overlapped_a_write"),
                    (Kind::Delete, Kind::Gc) | (Kind::Gc, Kind::Delete) => probes.push("gc_overlapped_a_delete"),
                    (Kind::Write, Kind::Maint) | (Kind::Maint, Kind::Write) => {
                        maint = true;
                        probes.push("full_gc_or_repair_overlapped_an_unfinished_write")
                    },
                    _ => {},
                }
            }
            if maint {
                h.maint_during_write = true;
            }
            if same_del {
                h.same_delete_overlap = true;
            }
            h.active.push(Active { token, kind, slot, keys });
            if let Some(t) = self.tid {
                h.doing.insert(t, kind);
            }
        }
        if self.par {
            self.ev(&format!("begin {kind:?}{}", if slot == 255 { String::new() } else { format!(" slot{slot}") }));
        }
        for p in probes {
            self.ctx.probe(p);
        }
        token
    }

    fn end(&self, token: u64) {
        let mut h = lock(&self.h);
        h.active.retain(|a| a.token != token);
        if let Some(t) = self.tid {
            h.doing.remove(&t);
        }
    }

    /// Site observer of a scheduled thread: remembers where the thread parks and, when
    /// it parks because the chunk lock is taken, classifies which critical section of
    /// which other thread it ran into (the overlaps the hook sites exist for).
    fn observe(&self, site: &'static str) {
        let Some(me) = self.tid else { return };
        let mut probes: Vec<&'static str> = Vec::new();
        {
            let mut h = lock(&self.h);
            if site.ends_with(sched::BLOCKED_SUFFIX) {
                let mine = h.doing.get(&me).copied();
                for (t, at) in &h.parked {
                    if *t == me {
                        continue;
                    }
                    let p = match (*at, mine) {
                        ("blob.store_chunk.exists_to_incr", Some(Kind::Gc)) => "gc_ran_into_a_writer_parked_between_exists_and_increment",
                        ("blob.store_chunk.exists_to_incr" | "blob.store_chunk.absent_to_put", Some(Kind::Write)) => "writer_ran_into_a_writer_parked_inside_store_chunk",
                        ("blob.incr.get_to_put" | "blob.decr.get_to_put", Some(Kind::Write | Kind::Delete)) => "writer_or_deleter_ran_into_a_refcount_rmw_in_progress",
                        ("blob.incr.get_to_put" | "blob.decr.get_to_put", Some(Kind::Gc)) => "gc_ran_into_a_refcount_rmw_in_progress",
                        ("blob.gc.check_to_delete", Some(Kind::Write)) => "writer_ran_into_gc_parked_between_check_and_delete",
                        ("blob.gc.check_to_delete", Some(Kind::Delete)) => "deleter_ran_into_gc_parked_between_check_and_delete",
                        ("blob.delete.meta_read_to_decr" | "blob.delete.decr_to_meta_delete", Some(Kind::Delete)) => "deleter_ran_into_a_delete_in_progress",
                        ("blob.delete.meta_read_to_decr" | "blob.delete.decr_to_meta_delete", Some(Kind::Write)) => "writer_ran_into_a_delete_in_progress",
                        _ => continue,
                    };
                    probes.push(p);
                }
            }
            h.parked.insert(me, site);
        }
        for p in probes {
            self.ctx.probe(p);
        }
    }

    fn slot(&self, s: u8) -> Option<Slot> {
        lock(&self.h).slots.get(&s).cloned()
    }

    fn size_probe(&self, len: usize) {
        let c = self.chunk;
        let p = if len == 0 {
            "size_0"
        } else if len == 1 {
            "size_1"
        } else if len + 1 == c {
            "size_chunk_minus_1"
        } else if len == c {
            "size_exactly_one_chunk"
        } else if len == c + 1 {
            "size_chunk_plus_1"
        } else if len > 2 * c {
            "size_many_chunks"
        } else {
            "size_other"
        };
        self.ctx.probe(p);
        if len == c {
            // a one-byte chunk store has len==1==chunk: count both
            self.ctx.probe("size_exactly_one_chunk_any");
        }
    }

    fn shares_with_live(&self, keys: &BTreeSet<String>, except: Option<u8>) -> bool {
        let h = lock(&self.h);
        h.slots.iter().any(|(s, sl)| {
            Some(*s) != except && sl.life == Life::Live && chunk_keys(&sl.bytes, self.chunk).iter().any(|k| keys.contains(k))
        })
    }

    fn written(&self, s: u8, how: &str, data: Vec<u8>, r: Result<String, BlobError>) {
        match r {
            Ok(id) => {
                self.ev(&format!("{how} slot{s} len={} -> ok", data.len()));
                self.ctx.fp(&format!("{how}:ok"));
                self.size_probe(data.len());
                let over = self.over_limit(data.len());
                if over {
                    // the text says nothing about limits: an accepted over-limit write is an
                    // ordinary acknowledged write for the oracle
                    self.ctx.probe("write_over_size_limit_accepted");
                }
                let mut h = lock(&self.h);
                if over {
                    let o = format!("observation (size limit, outside C19's text): a {how} larger than the configured max_artifact_size was accepted");
                    if !h.observations.contains(&o) {
                        h.observations.push(o);
                    }
                }
                h.writes_ok += 1;
                h.slots.insert(s, Slot { id, bytes: data, life: Life::Live });
            },
            Err(e) => {
                // an operation that returned an error is un-acknowledged: the artifact is not in the model
                self.ev(&format!("{how} slot{s} len={} -> err {}", data.len(), err_kind(&e)));
                self.ctx.fp(&format!("{how}:err"));
                if data.is_empty() && matches!(e, BlobError::EmptyData) {
                    self.ctx.probe("one_call_put_of_zero_bytes_rejected");
                } else if self.over_limit(data.len()) && matches!(e, BlobError::InvalidConfig(_)) {
                    // refused because of the configured limit: un-acknowledged, nothing to report
                    self.ctx.probe("write_over_size_limit_rejected");
                } else {
                    self.ctx.probe("write_returned_error");
                    let mut h = lock(&self.h);
                    let o = format!("observation: a {how} of non-empty data returned an error ({})", err_kind(&e));
                    if !h.observations.contains(&o) {
                        h.observations.push(o);
                    }
                }
            },
        }
    }

    fn over_limit(&self, len: usize) -> bool {
        self.max_size.is_some_and(|m| len > m)
    }

    /// An open streamed write is about to grow from `pos` to `end` bytes: count the moment it
    /// crosses the configured size limit, and whether a chunk it already stored is part of a
    /// live artifact (what a rejected upload must not damage).
    fn crossing_probe(&self, data: &[u8], pos: usize, end: usize) {
        let Some(m) = self.max_size else { return };
        if pos <= m && end > m {
            self.ctx.probe("open_stream_crossed_the_size_limit");
            let stored = (pos / self.chunk) * self.chunk;
            let keys: BTreeSet<String> = chunk_keys(&data[..stored], self.chunk).into_iter().collect();
            if !keys.is_empty() && self.shares_with_live(&keys, None) {
                self.ctx.probe("open_stream_crossed_the_size_limit_holding_a_chunk_of_a_live_artifact");
            }
        }
    }

    fn piece_probe(&self, prev: Option<usize>, n: usize) {
        let p = match (prev, n) {
            (Some(a), b) if a < 64 && b >= 64 => "stream_short_piece_then_long_piece",
            (Some(a), b) if a >= 64 && b < 64 => "stream_long_piece_then_short_piece",
            _ => return,
        };
        self.ctx.probe(p);
    }

    /// chunk keys the store's own metadata lists for an artifact
    fn meta_chunks(&self, id: &str) -> Option<Vec<String>> {
        let t = self.blob.store().get(&format!("_blob:meta:{id}")).ok()?;
        match t.get("_chunks") {
            Some(TensorValue::Pointers(p)) => Some(p.clone()),
            _ => None,
        }
    }

    /// ground truth: the chunk is present and its data hashes to its key
    fn chunk_intact(&self, key: &str) -> bool {
        let Ok(t) = self.blob.store().get(key) else { return false };
        match t.get("_data") {
            Some(TensorValue::Scalar(ScalarValue::Bytes(b))) => key.strip_prefix("_blob:chunk:") == Some(compute_hash(b).as_str()),
            _ => false,
        }
    }

    fn read(&self, id: &str, buf: u8) -> Result<Vec<u8>, BlobError> {
        if buf == 0 {
            return now_or_never(self.blob.get(id));
        }
        let mut r = now_or_never(self.blob.reader(id))?;
        let mut out = Vec::new();
        // buf >= 128: one reader, buffers of changing sizes (a short header read, then
        // buffers of a chunk and more, then odd sizes); below: one size throughout
        let sizes: Vec<usize> = if buf >= 128 {
            let k = usize::from(buf & 7) + 1;
            vec![k, self.chunk + usize::from((buf >> 3) & 3), 3, 2 * self.chunk + 1, self.chunk, 1]
        } else {
            vec![buf as usize]
        };
        let mut i = 0;
        loop {
            let mut b = vec![0u8; sizes[i % sizes.len()]];
            i += 1;
            let n = now_or_never(r.read(&mut b))?;
            if n == 0 {
                break;
            }
            out.extend_from_slice(&b[..n]);
            if out.len() > 1 << 20 {
                break;
            }
        }
        Ok(out)
    }

    /// Judge one artifact that the model says is live. `when` names the moment.
    fn judge_slot(&self, s: u8, sl: &Slot, buf: u8, when: &str) {
        let faulted = lock(&self.h).faulted.clone();
        let chunks = self.meta_chunks(&sl.id);
        let touched = chunks.as_ref().map(|c| c.iter().any(|k| faulted.contains(k))).unwrap_or(false);
        if !touched {
            // "Reading an artifact returns exactly the bytes written for it, whether written in
            //  one call or streamed, for every size and chunk size." / "deleting one artifact never
            //  damages another that shares content with it, and garbage collection removes only
            //  chunks that no existing artifact references"
            match self.read(&sl.id, buf) {
                Ok(b) if b == sl.bytes => {},
                Ok(b) => self.fail(
                    "live-artifact-damaged:wrong-bytes",
                    format!("{when}: slot{s} (written {} bytes, never deleted) reads back {} bytes that differ: expected {:?} got {:?}", sl.bytes.len(), b.len(), sl.bytes, b),
                ),
                Err(e) => self.fail(
                    &format!("live-artifact-damaged:{}", err_kind(&e)),
                    format!("{when}: slot{s} (written {} bytes, never deleted) cannot be read: {}", sl.bytes.len(), canon(&e.to_string(), &sl.id, s)),
                ),
            }
            if self.failed() {
                return;
            }
            // "Integrity verification succeeds on undamaged artifacts"
            match self.blob.verify(&sl.id) {
                Ok(true) => {},
                Ok(false) => self.fail("verify-rejects-undamaged-artifact", format!("{when}: verify(slot{s}) = false although the artifact reads back intact")),
                Err(e) => self.fail("verify-rejects-undamaged-artifact", format!("{when}: verify(slot{s}) = error {} although the artifact reads back intact", canon(&e.to_string(), &sl.id, s))),
            }
        } else {
            // storage fault injected into one of its chunks: reads are not judged.
            let keys = chunks.unwrap_or_default();
            let bad: Vec<&String> = keys.iter().filter(|k| !self.chunk_intact(k)).collect();
            let v = self.blob.verify(&sl.id);
            if !bad.is_empty() {
                // "... and reports any altered or missing chunk."
                match v {
                    Ok(true) => {
                        let missing = bad.iter().any(|k| !self.blob.store().exists(k));
                        self.fail(
                            if missing { "verify-missed-missing-chunk" } else { "verify-missed-altered-chunk" },
                            format!("{when}: verify(slot{s}) = true although {} of its {} chunks are altered or missing (chunk positions {:?})", bad.len(), keys.len(), keys.iter().enumerate().filter(|(_, k)| bad.contains(k)).map(|(i, _)| i).collect::<Vec<_>>()),
                        );
                    },
                    Ok(false) => self.ctx.probe("verify_reported_altered_chunk"),
                    Err(_) => self.ctx.probe("verify_reported_missing_chunk"),
                }
            } else {
                // every chunk is back in place (a later write re-created a removed chunk)
                self.ctx.probe("faulted_chunk_healed_by_rewrite");
                if !matches!(v, Ok(true)) {
                    self.fail("verify-rejects-undamaged-artifact", format!("{when}: verify(slot{s}) does not succeed although every chunk is present and hashes to its key"));
                }
            }
        }
    }

    /// sequential judgement of every live artifact + "stored once"
    fn check_all(&self, when: &str) {
        let slots: Vec<(u8, Slot)> = lock(&self.h).slots.iter().map(|(s, sl)| (*s, sl.clone())).collect();
        for (s, sl) in &slots {
            if sl.life == Life::Live {
                self.judge_slot(*s, sl, 0, when);
                if self.failed() {
                    return;
                }
            }
        }
        // "Identical content is stored once": no two chunk entries hold the same bytes
        if lock(&self.h).faulted.is_empty() {
            let mut seen: BTreeMap<Vec<u8>, String> = BTreeMap::new();
            let mut keys = self.blob.store().scan("_blob:chunk:");
            keys.sort();
            for k in keys {
                if let Ok(t) = self.blob.store().get(&k) {
                    if let Some(TensorValue::Scalar(ScalarValue::Bytes(b))) = t.get("_data") {
                        if let Some(prev) = seen.insert(b.clone(), k.clone()) {
                            self.fail("identical-content-stored-twice", format!("{when}: chunk entries {prev} and {k} hold the same {} bytes", b.len()));
                            return;
                        }
                    }
                }
            }
        }
    }

    fn exec(&self, op: &Op, loc: &mut Local) {
        let ctx = &self.ctx;
        match op {
            Op::Put { s, c } => {
                let data = c.bytes(self.chunk);
                let keys: BTreeSet<String> = chunk_keys(&data, self.chunk).into_iter().collect();
                if self.shares_with_live(&keys, Some(*s)) {
                    ctx.probe("write_shares_a_chunk_with_a_live_artifact");
                }
                let tok = self.begin(Kind::Write, *s, keys);
                let r = now_or_never(self.blob.put("f.bin", &data, PutOptions::new()));
                self.end(tok);
                self.written(*s, "put", data, r);
            },
            Op::Stream { s, c, frags } => {
                let data = c.bytes(self.chunk);
                let keys: BTreeSet<String> = chunk_keys(&data, self.chunk).into_iter().collect();
                if self.shares_with_live(&keys, Some(*s)) {
                    ctx.probe("write_shares_a_chunk_with_a_live_artifact");
                }
                let tok = self.begin(Kind::Write, *s, keys);
                let r = (|| {
                    let mut w = now_or_never(self.blob.writer("f.bin", PutOptions::new()))?;
                    let mut pos = 0;
                    let mut i = 0;
                    let mut prev = None;
                    while pos < data.len() {
                        let n = if frags.is_empty() { data.len() } else { (frags[i % frags.len()] as usize).max(1) };
                        let end = (pos + n).min(data.len());
                        self.crossing_probe(&data, pos, end);
                        self.piece_probe(prev, end - pos);
                        prev = Some(end - pos);
                        now_or_never(w.write(&data[pos..end]))?;
                        pos = end;
                        i += 1;
                        if pos < data.len() {
                            sched::yield_point("c19.between_fragments");
                        }
                    }
                    if i > 8 {
                        self.ctx.probe("stream_of_many_pieces");
                    }
                    sched::yield_point("c19.before_finish");
                    now_or_never(w.finish())
                })();
                self.end(tok);
                self.written(*s, "stream", data, r);
            },
            Op::Open { s, c } => {
                if loc.open.contains_key(s) {
                    return;
                }
                let data = c.bytes(self.chunk);
                let keys: BTreeSet<String> = chunk_keys(&data, self.chunk).into_iter().collect();
                if self.shares_with_live(&keys, Some(*s)) {
                    ctx.probe("write_shares_a_chunk_with_a_live_artifact");
                }
                match now_or_never(self.blob.writer("f.bin", PutOptions::new())) {
                    Ok(w) => {
                        let tok = self.begin(Kind::Write, *s, keys);
                        self.ev(&format!("open slot{s} len={}", data.len()));
                        loc.open.insert(*s, OpenW { w, bytes: data, pos: 0, token: tok, last: None });
                    },
                    Err(_) => ctx.probe("write_returned_error"),
                }
            },
            Op::Write { s, n } => {
                let mut failed = false;
                if let Some(o) = loc.open.get_mut(s) {
                    let end = (o.pos + (*n as usize).max(1)).min(o.bytes.len());
                    if end > o.pos {
                        self.crossing_probe(&o.bytes, o.pos, end);
                        self.piece_probe(o.last, end - o.pos);
                        o.last = Some(end - o.pos);
                        let r = now_or_never(o.w.write(&o.bytes[o.pos..end]));
                        self.ev(&format!("write slot{s} [{}..{end}] -> {}", o.pos, if r.is_ok() { "ok" } else { "err" }));
                        o.pos = end;
                        failed = r.is_err();
                    }
                }
                if failed {
                    // un-acknowledged: give the write up
                    if let Some(o) = loc.open.remove(s) {
                        self.end(o.token);
                        ctx.probe(if self.over_limit(o.pos) { "write_over_size_limit_rejected" } else { "write_returned_error" });
                    }
                }
            },
            Op::Finish { s } => {
                if let Some(o) = loc.open.remove(s) {
                    let OpenW { mut w, bytes, pos, token, last } = o;
                    let r = (|| {
                        if pos < bytes.len() {
                            self.crossing_probe(&bytes, pos, bytes.len());
                            self.piece_probe(last, bytes.len() - pos);
                            now_or_never(w.write(&bytes[pos..]))?;
                        }
                        now_or_never(w.finish())
                    })();
                    self.end(token);
                    ctx.probe("split_stream_finished");
                    self.written(*s, "stream", bytes, r);
                }
            },
            Op::Abandon { s } => {
                if let Some(o) = loc.open.remove(s) {
                    self.end(o.token);
                    self.ev(&format!("abandon slot{s} after {} bytes", o.pos));
                    if o.pos >= self.chunk {
                        ctx.probe("writer_abandoned_after_storing_chunks");
                    }
                }
            },
            Op::Delete { s } => {
                let Some(sl) = self.slot(*s) else { return };
                let keys: BTreeSet<String> = chunk_keys(&sl.bytes, self.chunk).into_iter().collect();
                if sl.life == Life::Live && self.shares_with_live(&keys, Some(*s)) {
                    ctx.probe("delete_of_artifact_sharing_a_chunk_with_a_live_artifact");
                }
                let tok = self.begin(Kind::Delete, *s, keys);
                let mut r = now_or_never(self.blob.delete(&sl.id));
                for _ in 0..self.retry_refused {
                    if matches!(r, Ok(()) | Err(BlobError::NotFound(_))) {
                        break;
                    }
                    ctx.probe("refused_delete_retried");
                    r = now_or_never(self.blob.delete(&sl.id));
                }
                self.end(tok);
                self.ev(&format!("delete slot{s} -> {}", match &r { Ok(()) => "ok", Err(e) => err_kind(e) }));
                ctx.fp(if r.is_ok() { "delete:ok" } else { "delete:err" });
                let mut h = lock(&self.h);
                if let Some(m) = h.slots.get_mut(s) {
                    match r {
                        Ok(()) => m.life = Life::Deleted,
                        Err(BlobError::NotFound(_)) => {
                            if m.life == Life::Live {
                                // a concurrent delete of the same artifact is finishing, or the artifact
                                // vanished: the final judgement decides (it is Live unless some delete returns Ok)
                            }
                        },
                        Err(_) if m.life == Life::Live => m.life = Life::Unsure,
                        Err(_) => {},
                    }
                }
            },
            Op::Get { s, buf } => {
                let Some(sl) = self.slot(*s) else { return };
                if sl.life != Life::Live {
                    return;
                }
                if self.par && !self.never_deleted.contains(s) {
                    // a delete of this artifact may overlap the read: not judged
                    let _ = self.read(&sl.id, *buf);
                    ctx.probe("read_racing_a_possible_delete_not_judged");
                    return;
                }
                ctx.probe(if *buf == 0 { "get_judged" } else { "buffered_read_judged" });
                self.judge_slot(*s, &sl, *buf, if self.par { "read during the concurrent phase" } else { "read" });
            },
            Op::Verify { s } => {
                let Some(sl) = self.slot(*s) else { return };
                if sl.life != Life::Live || (self.par && !self.never_deleted.contains(s)) {
                    return;
                }
                self.judge_slot(*s, &sl, 0, "verify step");
            },
            Op::Gc => {
                let tok = self.begin(Kind::Gc, 255, BTreeSet::new());
                let r = now_or_never(self.blob.gc());
                self.end(tok);
                if let Ok(st) = r {
                    self.ev(&format!("gc -> deleted {}", st.deleted));
                    ctx.fp(if st.deleted > 0 { "gc:some" } else { "gc:none" });
                    if st.deleted > 0 {
                        ctx.probe("gc_cycle_deleted_chunks");
                    }
                }
            },
            Op::FullGc => {
                let tok = self.begin(Kind::Maint, 255, BTreeSet::new());
                let r = now_or_never(self.blob.full_gc());
                self.end(tok);
                if let Ok(st) = r {
                    self.ev(&format!("full_gc -> deleted {}", st.deleted));
                    ctx.fp(if st.deleted > 0 { "fullgc:some" } else { "fullgc:none" });
                    if st.deleted > 0 {
                        ctx.probe("full_gc_deleted_chunks");
                    }
                }
            },
            Op::Repair => {
                let tok = self.begin(Kind::Maint, 255, BTreeSet::new());
                let r = self.blob.repair();
                self.end(tok);
                if let Ok(st) = r {
                    self.ev(&format!("repair -> refs_fixed {} orphans_deleted {}", st.refs_fixed, st.orphans_deleted));
                    ctx.fp("repair");
                    if st.refs_fixed > 0 {
                        ctx.probe("repair_fixed_ref_counts");
                    }
                    if st.orphans_deleted > 0 {
                        ctx.probe("repair_deleted_orphans");
                    }
                }
            },
            Op::Advance { ms } => {
                ctx.advance_ms(u64::from(*ms));
                self.ev(&format!("advance {ms}ms"));
            },
            Op::Tamper { s, idx, kind } => {
                if self.par {
                    return;
                }
                let Some(sl) = self.slot(*s) else { return };
                if sl.life != Life::Live {
                    return;
                }
                let Some(chunks) = self.meta_chunks(&sl.id) else { return };
                if chunks.is_empty() {
                    return;
                }
                let i = if *idx == 255 { chunks.len() - 1 } else { *idx as usize % chunks.len() };
                let key = chunks[i].clone();
                let store = self.blob.store();
                let Ok(mut t) = store.get(&key) else { return };
                let what = match kind % 4 {
                    0 => {
                        if let Some(TensorValue::Scalar(ScalarValue::Bytes(b))) = t.get("_data") {
                            let mut b = b.clone();
                            let p = (*idx as usize) % b.len().max(1);
                            if !b.is_empty() {
                                b[p] ^= 0x5a;
                            }
                            t.set("_data", TensorValue::Scalar(ScalarValue::Bytes(b)));
                        }
                        let _ = store.put(&key, t);
                        "flip"
                    },
                    1 => {
                        let _ = store.delete(&key);
                        "remove"
                    },
                    2 => {
                        if let Some(TensorValue::Scalar(ScalarValue::Bytes(b))) = t.get("_data") {
                            let mut b = b.clone();
                            b.pop();
                            t.set("_data", TensorValue::Scalar(ScalarValue::Bytes(b)));
                        }
                        let _ = store.put(&key, t);
                        "cut"
                    },
                    _ => {
                        t.remove("_data");
                        let _ = store.put(&key, t);
                        "strip"
                    },
                };
                self.ev(&format!("tamper slot{s} chunk#{i}/{} {what}", chunks.len()));
                ctx.fault_fired(match kind % 4 {
                    0 => "chunk_byte_flipped",
                    1 => "chunk_removed",
                    2 => "chunk_cut",
                    _ => "chunk_data_field_stripped",
                });
                if i + 1 == chunks.len() {
                    ctx.probe("fault_on_last_chunk");
                }
                lock(&self.h).faulted.insert(key);
            },
        }
    }

    fn run_seq(&self, ops: &[Op], loc: &mut Local, phase: &str) {
        for (i, op) in ops.iter().enumerate() {
            self.exec(op, loc);
            if self.failed() {
                return;
            }
            // sequential configuration: every step judged
            self.check_all(&format!("after {phase} step {i} ({})", op_name(op)));
            if self.failed() {
                return;
            }
        }
    }

    /// "after all artifacts are deleted a full collection leaves no chunks"
    fn wipe(&self, loc: &mut Local) {
        for (_, o) in std::mem::take(&mut loc.open) {
            self.end(o.token);
        }
        let listed = now_or_never(self.blob.list(None)).unwrap_or_default();
        let mut ids: BTreeSet<String> = listed.into_iter().collect();
        for sl in lock(&self.h).slots.values() {
            if sl.life != Life::Deleted {
                ids.insert(sl.id.clone());
            }
        }
        let mut refused: Vec<String> = Vec::new();
        for id in &ids {
            if let Err(e) = now_or_never(self.blob.delete(id)) {
                if !matches!(e, BlobError::NotFound(_)) {
                    refused.push(err_kind(&e).to_string());
                }
            }
        }
        let left = self.blob.store().scan("_blob:meta:").len();
        if left > 0 && !refused.is_empty() {
            // a refused delete is an un-acknowledged operation: "after all artifacts are
            // deleted" does not hold, the clause is not evaluated for this run
            self.ctx.probe("wipe_skipped_delete_refused");
            let o = format!("observation (wipe clause not evaluated): delete of a listed artifact was refused ({})", refused[0]);
            let mut h = lock(&self.h);
            if !h.observations.contains(&o) {
                h.observations.push(o);
            }
            return;
        }
        if left > 0 {
            lock(&self.h).harness_error = Some(format!("wipe: {left} artifact(s) still listed after deleting every listed artifact"));
            return;
        }
        for sl in lock(&self.h).slots.values_mut() {
            sl.life = Life::Deleted;
        }
        // labelled observation, never a verdict: the text bounds what gc may remove, not what it must
        self.ctx.advance_ms(1000 * 3600);
        let before = self.blob.store().scan("_blob:chunk:").len();
        let mut rounds = 0;
        while rounds < 64 {
            rounds += 1;
            match now_or_never(self.blob.gc()) {
                Ok(st) if st.deleted > 0 => {},
                _ => break,
            }
        }
        let after_gc = self.blob.store().scan("_blob:chunk:").len();
        if after_gc > 0 {
            self.ctx.probe("aged_gc_left_chunks_after_delete_all");
            let clean = {
                let h = lock(&self.h);
                !h.maint_during_write && h.faulted.is_empty()
            };
            // which kind: a chunk whose count is zero yet is never examined (gc_cycle looks at
            // the first `batch_size` keys of the scan only), or counts that never reach zero
            let mut zero = 0;
            let mut nonzero = 0;
            for k in self.blob.store().scan("_blob:chunk:") {
                if let Ok(t) = self.blob.store().get(&k) {
                    match t.get("_refs") {
                        Some(TensorValue::Scalar(ScalarValue::Int(0))) => zero += 1,
                        _ => nonzero += 1,
                    }
                }
            }
            let kind = match (zero > 0, nonzero > 0) {
                (true, true) => "some with a zero count that gc never reached behind chunks with a non-zero count, some with a non-zero count",
                (true, false) => "all with a zero count",
                _ => "all with a non-zero count (references leaked by an unfinished/abandoned write or a faulted chunk)",
            };
            let o = format!(
                "observation (gc progress, outside C19's text): after deleting every artifact, gc cycles one hour later left unreferenced chunks: {kind}{}",
                if clean { "" } else { " (run had faults or maintenance during a write)" }
            );
            let mut h = lock(&self.h);
            if !h.observations.contains(&o) {
                h.observations.push(o);
            }
        }
        let _ = before;
        match now_or_never(self.blob.full_gc()) {
            Ok(_) => {},
            Err(e) => {
                self.fail("full-gc-failed-after-delete-all", format!("full_gc returned an error after every artifact was deleted: {}", err_kind(&e)));
                return;
            },
        }
        let mut rest = self.blob.store().scan("_blob:chunk:");
        rest.sort();
        self.ev(&format!("wipe: {} artifacts deleted, {before} chunks before gc, {after_gc} after gc, {} after full_gc", ids.len(), rest.len()));
        if !rest.is_empty() {
            self.fail(
                "chunks-left-after-delete-all-and-full-gc",
                format!("every artifact was deleted and full_gc ran, yet {} chunk key(s) remain in the underlying store: {:?}", rest.len(), rest),
            );
        } else {
            self.ctx.probe("delete_all_then_full_gc_left_no_chunks");
        }
    }
}

fn canon(msg: &str, id: &str, s: u8) -> String {
    msg.replace(id, &format!("<slot{s}>"))
}

fn op_name(op: &Op) -> &'static str {
    match op {
        Op::Put { .. } => "put",
        Op::Stream { .. } => "stream",
        Op::Open { .. } => "open",
        Op::Write { .. } => "write",
        Op::Finish { .. } => "finish",
        Op::Abandon { .. } => "abandon",
        Op::Delete { .. } => "delete",
        Op::Get { .. } => "get",
        Op::Verify { .. } => "verify",
        Op::Gc => "gc",
        Op::FullGc => "full_gc",
        Op::Repair => "repair",
        Op::Advance { .. } => "advance",
        Op::Tamper { .. } => "tamper",
    }
}

// ---------------------------------------------------------------- generation

fn gen_content(rng: &mut Rng, chunk: usize, nb: u8) -> Content {
    let b = |rng: &mut Rng| rng.below(u64::from(nb)) as u8;
    let c1 = chunk as u8;
    match rng.below(14) {
        0 => Content { blocks: vec![], tail: 0, tail_of: 0 },
        // many chunks (long enough for pieces of 64 bytes and more at the larger chunk sizes)
        12 | 13 => {
            let n = rng.range(5, 9);
            Content { blocks: (0..n).map(|_| b(rng)).collect(), tail: rng.below(chunk as u64) as u8, tail_of: b(rng) }
        },
        1 => {
            if chunk > 1 {
                Content { blocks: vec![], tail: 1, tail_of: b(rng) }
            } else {
                Content { blocks: vec![b(rng)], tail: 0, tail_of: 0 }
            }
        },
        2 => Content { blocks: vec![], tail: c1.saturating_sub(1), tail_of: b(rng) },
        3 | 4 => Content { blocks: vec![b(rng)], tail: 0, tail_of: 0 },
        5 => Content { blocks: vec![b(rng)], tail: 1, tail_of: b(rng) },
        6 | 7 => Content { blocks: vec![b(rng), b(rng)], tail: 0, tail_of: 0 },
        8 => {
            let n = rng.range(3, 5);
            Content { blocks: (0..n).map(|_| b(rng)).collect(), tail: 0, tail_of: 0 }
        },
        _ => {
            let n = rng.range(1, 4);
            Content { blocks: (0..n).map(|_| b(rng)).collect(), tail: rng.below(chunk as u64) as u8, tail_of: b(rng) }
        },
    }
}

/// one piece size of a class: tiny, around the chunk size, long (>= 64 bytes)
fn gen_piece(rng: &mut Rng, chunk: usize) -> u8 {
    match rng.below(4) {
        0 => rng.range(1, 7) as u8,
        1 => rng.range(chunk.saturating_sub(1).max(1) as u64, chunk as u64 + 1) as u8,
        2 => rng.range(1, (2 * chunk as u64 + 1).min(255)) as u8,
        _ => rng.range(64, 255) as u8,
    }
}

/// piece sizes of a streamed write (cycled; empty = the whole content in one piece)
fn gen_frags(rng: &mut Rng, chunk: usize) -> Vec<u8> {
    match rng.below(10) {
        // one huge piece
        0 => vec![],
        // many tiny pieces
        1 => vec![1],
        2 => (0..rng.range(2, 4)).map(|_| rng.range(1, 5) as u8).collect(),
        3 => vec![chunk as u8],
        4 => vec![(chunk as u8).saturating_sub(1).max(1), 2],
        // a short piece, then long ones
        5 => vec![rng.range(1, 63) as u8, 255, 255, 255, 255, 255],
        // a long piece, then short ones
        6 => {
            let short = rng.range(1, 9) as u8;
            vec![rng.range(64, 255) as u8, short, short, short, short, short]
        },
        7 => (0..rng.range(1, 3)).map(|_| rng.range(1, (2 * chunk as u64 + 1).min(255)) as u8).collect(),
        // any mixture of tiny / chunk-sized / long pieces
        _ => (0..rng.range(2, 6)).map(|_| gen_piece(rng, chunk)).collect(),
    }
}

struct Gen<'a> {
    rng: &'a mut Rng,
    chunk: usize,
    nb: u8,
    next_slot: u8,
    min_age_s: u64,
}

impl Gen<'_> {
    fn write_op(&mut self) -> Op {
        let s = self.next_slot;
        self.next_slot += 1;
        let c = gen_content(self.rng, self.chunk, self.nb);
        if self.rng.chance(1, 2) {
            Op::Put { s, c }
        } else {
            Op::Stream { s, c, frags: gen_frags(self.rng, self.chunk) }
        }
    }
    fn any_slot(&mut self) -> u8 {
        self.rng.below(u64::from(self.next_slot.max(1))) as u8
    }
    fn advance(&mut self) -> Op {
        let past = (self.min_age_s * 1000 + 1500) as u32;
        Op::Advance { ms: *self.rng.pick(&[400, 1000, past, past, 2 * past]) }
    }
    fn seq_op(&mut self, split: bool, faults: bool, open: &mut Vec<u8>) -> Op {
        loop {
            let r = self.rng.below(24);
            return match r {
                0..=5 => self.write_op(),
                6..=8 => Op::Delete { s: self.any_slot() },
                9..=10 => Op::Gc,
                11 => Op::FullGc,
                12..=13 => self.advance(),
                14 => Op::Verify { s: self.any_slot() },
                15 => Op::Repair,
                16 => Op::Get { s: self.any_slot(), buf: *self.rng.pick(&[0, 1, 3, 64, 131, 158, 201, 255]) },
                17..=23 if split => {
                    if !open.is_empty() && self.rng.chance(2, 3) {
                        let i = self.rng.usize_below(open.len());
                        let s = open[i];
                        match self.rng.below(5) {
                            0..=1 => Op::Write { s, n: gen_piece(self.rng, self.chunk) },
                            2..=3 => {
                                open.remove(i);
                                Op::Finish { s }
                            },
                            _ => {
                                open.remove(i);
                                Op::Abandon { s }
                            },
                        }
                    } else {
                        let s = self.next_slot;
                        self.next_slot += 1;
                        open.push(s);
                        Op::Open { s, c: gen_content(self.rng, self.chunk, self.nb) }
                    }
                },
                21..=23 if faults => Op::Tamper { s: self.any_slot(), idx: *self.rng.pick(&[0, 1, 2, 255, 255]), kind: self.rng.below(4) as u8 },
                _ => continue,
            };
        }
    }
}

impl Scenario for C19 {
    type Case = Case;
    fn id(&self) -> &'static str {
        "C19"
    }
    fn level(&self) -> &'static str {
        "exploration"
    }
    fn runs(&self, tier: Tier) -> u64 {
        match tier {
            Tier::Quick => 40_000,
            Tier::Thorough => 400_000,
        }
    }

    fn generate(&self, rng: &mut Rng, _tier: Tier, _index: u64) -> Case {
        let chunk = *rng.pick(&[1usize, 2, 3, 4, 4, 5, 8, 16, 16, 32, 64]);
        let min_age_s = *rng.pick(&[0u64, 0, 2, 60]);
        let gc_batch = *rng.pick(&[100usize, 100, 100, 2, 1]);
        let nb = rng.range(1, 4) as u8;
        // the store's size limit: not configured (default), or a few chunks
        let max_size = if rng.chance(1, 3) {
            let c = chunk;
            Some(*rng.pick(&[c, c + 1, 2 * c, 2 * c, 2 * c + 1, 3 * c, 3 * c, 4 * c, 5 * c + c / 2]))
        } else {
            None
        };
        let mode = rng.below(10);
        let mut g = Gen { rng, chunk, nb, next_slot: 0, min_age_s };
        if mode < 4 {
            // sequential programs; sub-configurations: split streams, storage faults
            let split = g.rng.chance(1, 3);
            let faults = !split && g.rng.chance(1, 2);
            let n = g.rng.range(4, 14);
            let mut open = Vec::new();
            let mut setup = Vec::new();
            for _ in 0..n {
                let op = g.seq_op(split, faults, &mut open);
                let tampered = if let Op::Tamper { s, .. } = &op { Some(*s) } else { None };
                setup.push(op);
                // a fault is followed up, half of the time, by what an operator does
                // about a damaged artifact: check it, get rid of it (possibly twice),
                // let the collector run
                if let Some(s) = tampered {
                    if g.rng.chance(1, 2) {
                        if g.rng.chance(1, 2) {
                            setup.push(Op::Verify { s });
                        }
                        for _ in 0..g.rng.range(1, 2) {
                            setup.push(Op::Delete { s });
                        }
                        setup.push(g.advance());
                        setup.push(Op::Gc);
                    }
                }
            }
            let retry_refused = *g.rng.pick(&[0u8, 0, 1, 3]);
            return Case { chunk, min_age_s, gc_batch, setup, threads: vec![], schedule: vec![], tail: vec![], retry_refused, max_size };
        }
        // scheduled threads
        let mut setup = Vec::new();
        for _ in 0..g.rng.range(1, 3) {
            setup.push(g.write_op());
        }
        if g.rng.chance(1, 2) {
            // leave a zero-reference chunk behind for the writers to deduplicate against
            let s = g.any_slot();
            setup.push(Op::Delete { s });
        }
        setup.push(Op::Advance { ms: (min_age_s * 1000 + 1500) as u32 });
        let setup_slots = g.next_slot;
        let nthreads = g.rng.range(2, 4) as usize;
        let allow_fullgc = g.rng.chance(1, 3);
        let mut threads = Vec::new();
        for t in 0..nthreads {
            let role = if t == 0 { 0 } else { g.rng.below(4) };
            let n = g.rng.range(1, 4);
            let mut ops = Vec::new();
            for _ in 0..n {
                let op = match role {
                    // writer
                    0 => {
                        if g.rng.chance(5, 6) {
                            g.write_op()
                        } else {
                            Op::Get { s: g.any_slot(), buf: *g.rng.pick(&[0, 0, 2, 140]) }
                        }
                    },
                    // deleter
                    1 => {
                        if g.rng.chance(4, 5) {
                            Op::Delete { s: g.rng.below(u64::from(setup_slots.max(1))) as u8 }
                        } else {
                            Op::Delete { s: g.any_slot() }
                        }
                    },
                    // collector
                    2 => match g.rng.below(6) {
                        0..=2 => Op::Gc,
                        3 => g.advance(),
                        4 if allow_fullgc => Op::FullGc,
                        _ => Op::Gc,
                    },
                    // mixed
                    _ => match g.rng.below(8) {
                        0..=2 => g.write_op(),
                        3..=4 => Op::Delete { s: g.any_slot() },
                        5 => Op::Gc,
                        6 => Op::Get { s: g.any_slot(), buf: 0 },
                        _ => Op::Verify { s: g.any_slot() },
                    },
                };
                ops.push(op);
            }
            threads.push(ops);
        }
        let len = g.rng.range(40, 240) as usize;
        let stick = *g.rng.pick(&[40u64, 60, 75, 85, 93]);
        let schedule = sched::gen_schedule(g.rng, len, stick);
        let mut tail = Vec::new();
        for _ in 0..g.rng.range(2, 7) {
            let op = match g.rng.below(12) {
                0..=4 => Op::Delete { s: g.any_slot() },
                5..=6 => Op::Advance { ms: (min_age_s * 1000 + 1500) as u32 },
                7..=9 => Op::Gc,
                10 => {
                    if g.rng.chance(1, 2) {
                        Op::FullGc
                    } else {
                        Op::Repair
                    }
                },
                _ => g.write_op(),
            };
            tail.push(op);
        }
        tail.push(Op::Advance { ms: (min_age_s * 1000 + 1500) as u32 });
        tail.push(Op::Gc);
        let retry_refused = *g.rng.pick(&[0u8, 0, 1, 3]);
        Case { chunk, min_age_s, gc_batch, setup, threads, schedule, tail, retry_refused, max_size }
    }

    fn run(&self, case: &Case, ctx: &Arc<RunCtx>) -> RunOut {
        // switch threads only at this scenario's own layer's sites (see sched::Baton::allow)
        crate::sched::set_allowed_sites(&["c19.", "blob."]);
        let mut out = RunOut::default();
        let chunk = case.chunk.max(1);
        let cfg = BlobConfig::new()
            .with_chunk_size(chunk)
            .with_gc_min_age(Duration::from_secs(case.min_age_s))
            .with_gc_batch_size(case.gc_batch.max(1));
        let cfg = match case.max_size {
            Some(m) => {
                ctx.probe("size_limit_configured");
                cfg.with_max_artifact_size(m)
            },
            None => cfg,
        };
        let blob = match now_or_never(BlobStore::new(TensorStore::new(), cfg)) {
            Ok(b) => Arc::new(b),
            Err(e) => {
                out.harness_error = Some(format!("BlobStore::new: {e}"));
                return out;
            },
        };
        let h = Arc::new(Mutex::new(H::default()));
        let mut never_deleted: BTreeSet<u8> = (0..=255u8).collect();
        for t in &case.threads {
            for op in t {
                if let Op::Delete { s } = op {
                    never_deleted.remove(s);
                }
            }
        }
        let mk_env = |par: bool, tag: String, tid: Option<usize>| Env { blob: blob.clone(), h: h.clone(), ctx: ctx.clone(), chunk, par, tag, tid, never_deleted: never_deleted.clone(), retry_refused: case.retry_refused, max_size: case.max_size };
        let env = mk_env(false, String::new(), None);
        let mut loc = Local::default();
        ctx.fp(&format!("chunk{}:t{}", chunk, case.threads.len()));
        ctx.probe(if case.threads.is_empty() { "sequential_program" } else { "scheduled_threads_program" });

        env.run_seq(&case.setup, &mut loc, "setup");

        if !env.failed() && !case.threads.is_empty() {
            let bodies: Vec<sched::Body> = case
                .threads
                .iter()
                .enumerate()
                .map(|(ti, ops)| {
                    let ops = ops.clone();
                    let env = mk_env(true, format!("t{ti} "), Some(ti));
                    Box::new(move || {
                        let env = Arc::new(env);
                        let obs = env.clone();
                        sched::set_site_observer(Some(Box::new(move |site| obs.observe(site))));
                        let mut loc = Local::default();
                        for op in &ops {
                            sched::yield_point("c19.between_operations");
                            if env.failed() {
                                break;
                            }
                            env.exec(op, &mut loc);
                        }
                        for (_, o) in std::mem::take(&mut loc.open) {
                            env.end(o.token);
                        }
                        sched::set_site_observer(None);
                        if let Some(t) = env.tid {
                            lock(&env.h).parked.remove(&t);
                        }
                    }) as sched::Body
                })
                .collect();
            let res = sched::run_threads(ctx, &case.schedule, 200_000, bodies);
            ctx.event(&format!("threads done: steps={} switches={} preempted_at={:?}", res.steps, res.switches, res.preempted_at));
            if res.exhausted {
                out.harness_error = Some("scheduler step bound reached (threads ran free): run is not deterministic".into());
                return out;
            }
            for p in &res.panics {
                if p.contains("HARNESS") {
                    out.harness_error = Some(format!("panic in scheduled thread: {p}"));
                    return out;
                }
            }
            if let Some(p) = res.panics.first() {
                env.fail("operation-panicked", format!("a blob store operation panicked: {p}"));
            }
            let mut inside = false;
            for (site, n) in &res.preempted_at {
                if site.starts_with("blob.") {
                    inside = true;
                }
                for _ in 0..*n {
                    ctx.probe(*site);
                }
            }
            if inside {
                ctx.probe("preempted_inside_a_blob_operation");
            }
            if res.switches > 0 {
                ctx.probe("thread_switches");
            }
            ctx.fp(&format!("sw{}", res.switches.min(12)));
            lock(&h).active.clear();
            if !env.failed() {
                // judged at quiescence
                env.check_all("at quiescence after the concurrent phase");
            }
        }
        if !env.failed() {
            env.run_seq(&case.tail, &mut loc, "tail");
        }
        if !env.failed() {
            env.wipe(&mut loc);
        }
        let mut hh = lock(&h);
        out.nontrivial = hh.writes_ok >= 1;
        out.observations = std::mem::take(&mut hh.observations);
        out.harness_error = hh.harness_error.take();
        out.violation = hh.violation.take();
        out
    }

    fn shrink(&self, case: &Case) -> Vec<Case> {
        let mut v = Vec::new();
        // whole threads away
        if !case.threads.is_empty() {
            for i in 0..case.threads.len() {
                let mut c = case.clone();
                c.threads.remove(i);
                if c.threads.is_empty() {
                    c.schedule.clear();
                }
                v.push(c);
            }
        }
        for ops in drop_chunks(&case.tail) {
            let mut c = case.clone();
            c.tail = ops;
            v.push(c);
        }
        for ops in drop_chunks(&case.setup) {
            let mut c = case.clone();
            c.setup = ops;
            v.push(c);
        }
        for (i, t) in case.threads.iter().enumerate() {
            for ops in drop_chunks(t) {
                let mut c = case.clone();
                c.threads[i] = ops;
                v.push(c);
            }
        }
        // schedule: cut the end (the rest defaults to STAY), then drop pieces, then calm entries
        if !case.schedule.is_empty() {
            let len = case.schedule.len();
            let mut cuts = vec![0usize, len / 2, len - len / 4, len - len / 8, len - 1];
            cuts.dedup();
            for n in cuts {
                if n < len {
                    let mut c = case.clone();
                    c.schedule.truncate(n);
                    v.push(c);
                }
            }
            if case.schedule.len() <= 64 {
                for s in drop_chunks(&case.schedule) {
                    let mut c = case.clone();
                    c.schedule = s;
                    v.push(c);
                }
                for (i, p) in case.schedule.iter().enumerate() {
                    if *p != sched::STAY {
                        let mut c = case.clone();
                        c.schedule[i] = sched::STAY;
                        v.push(c);
                    }
                }
            }
        }
        // simpler steps
        let simplify = |op: &Op| -> Vec<Op> {
            let mut o = Vec::new();
            let simpler_content = |c: &Content| -> Vec<Content> {
                let mut r = Vec::new();
                if c.tail != 0 {
                    r.push(Content { blocks: c.blocks.clone(), tail: 0, tail_of: 0 });
                }
                if c.blocks.len() > 1 {
                    for i in 0..c.blocks.len() {
                        let mut b = c.blocks.clone();
                        b.remove(i);
                        r.push(Content { blocks: b, tail: c.tail, tail_of: c.tail_of });
                    }
                }
                r
            };
            match op {
                Op::Put { s, c } => {
                    for c2 in simpler_content(c) {
                        o.push(Op::Put { s: *s, c: c2 });
                    }
                },
                Op::Stream { s, c, frags } => {
                    o.push(Op::Put { s: *s, c: c.clone() });
                    if !frags.is_empty() {
                        o.push(Op::Stream { s: *s, c: c.clone(), frags: vec![] });
                    }
                    for c2 in simpler_content(c) {
                        o.push(Op::Stream { s: *s, c: c2, frags: frags.clone() });
                    }
                },
                Op::Open { s, c } => {
                    for c2 in simpler_content(c) {
                        o.push(Op::Open { s: *s, c: c2 });
                    }
                },
                Op::Get { s, buf } if *buf != 0 => o.push(Op::Get { s: *s, buf: 0 }),
                _ => {},
            }
            o
        };
        for (i, op) in case.setup.iter().enumerate() {
            for s in simplify(op) {
                let mut c = case.clone();
                c.setup[i] = s;
                v.push(c);
            }
        }
        for (ti, t) in case.threads.iter().enumerate() {
            for (i, op) in t.iter().enumerate() {
                for s in simplify(op) {
                    let mut c = case.clone();
                    c.threads[ti][i] = s;
                    v.push(c);
                }
            }
        }
        for (i, op) in case.tail.iter().enumerate() {
            for s in simplify(op) {
                let mut c = case.clone();
                c.tail[i] = s;
                v.push(c);
            }
        }
        if case.gc_batch != 100 {
            let mut c = case.clone();
            c.gc_batch = 100;
            v.push(c);
        }
        if case.min_age_s != 0 {
            let mut c = case.clone();
            c.min_age_s = 0;
            v.push(c);
        }
        if case.max_size.is_some() {
            let mut c = case.clone();
            c.max_size = None;
            v.push(c);
        }
        v
    }

    fn required_probes(&self) -> Vec<&'static str> {
        vec![
            "sequential_program",
            "scheduled_threads_program",
            "size_0",
            "size_1",
            "size_chunk_minus_1",
            "size_exactly_one_chunk_any",
            "size_chunk_plus_1",
            "size_many_chunks",
            "write_shares_a_chunk_with_a_live_artifact",
            "delete_of_artifact_sharing_a_chunk_with_a_live_artifact",
            "gc_cycle_deleted_chunks",
            "full_gc_deleted_chunks",
            "delete_all_then_full_gc_left_no_chunks",
            "verify_reported_altered_chunk",
            "verify_reported_missing_chunk",
            "fault_on_last_chunk",
            "split_stream_finished",
            "buffered_read_judged",
            "preempted_inside_a_blob_operation",
            "writer_and_deleter_of_same_chunk_overlapped",
            "writers_of_same_chunk_overlapped",
            "gc_overlapped_a_write",
            "size_limit_configured",
            "write_over_size_limit_rejected",
            "open_stream_crossed_the_size_limit",
            "open_stream_crossed_the_size_limit_holding_a_chunk_of_a_live_artifact",
            "stream_short_piece_then_long_piece",
            "stream_long_piece_then_short_piece",
            "stream_of_many_pieces",
        ]
    }

    fn rule(&self) -> String {
        "A case is: chunk size (1..64 bytes), gc min_age and batch size, the store's max_artifact_size (not configured, or 1-5 chunks), a sequential setup program, 0 or 2-4 thread programs of <=4 operations with an explicit schedule, a sequential tail program, then an implicit 'delete every artifact, full_gc'. Operations: one-call put, streamed write in generated piece sizes (one piece, many tiny pieces, chunk-sized, short-then-long, long-then-short, mixtures of 1..255 bytes; also split across steps, also abandoned), delete, get / buffered read, gc, full_gc, repair, verify, clock advance, chunk tampering/removal (sequential programs only). Artifact contents are sequences of <=4 distinct chunk-sized blocks plus a partial tail, so artifacts share chunks; sizes 0, 1, chunk-1, chunk, chunk+1 and several (up to 9) chunks are drawn explicitly. Sequential steps are each followed by a judgement of every live artifact; the threads phase is judged at quiescence (plus reads of artifacts no thread deletes). Non-trivial: at least one write was acknowledged. Distinct: hash of (chunk size, thread count, per-operation outcome kinds, number of thread switches).".into()
    }

    fn components(&self) -> Value {
        json!({
            "real": ["tensor_blob::BlobStore (put, writer/write/finish, get, reader/read, delete, gc, full_gc, verify, repair, list)", "tensor_blob chunker / streaming / gc / integrity", "tensor_store::TensorStore (in-memory)"],
            "simulated": ["clock (chunk age for gc min_age)", "thread interleaving: baton scheduler over real threads, switches at operation boundaries, between stream fragments and at blob.* hook sites", "storage faults: chunk entry altered / removed directly in the underlying store"],
            "stub": ["background GC task is not started (gc cycles are explicit steps)"]
        })
    }

    fn assumptions(&self) -> Vec<String> {
        vec![
            "single TensorStore calls (get/put/delete/exists/scan) are atomic; thread switches happen only between them (hook sites) and at operation boundaries".into(),
            "an operation that returned an error is un-acknowledged (one-call put of zero bytes is rejected with EmptyData; zero-byte artifacts are written through the streaming API)".into(),
            "the text says nothing about size limits: a write refused because of max_artifact_size is un-acknowledged, an over-limit streamed write that is accepted is an ordinary artifact (reported as an observation); artifacts of OTHER writers are judged as always".into(),
            "during the concurrent phase only reads of artifacts that no thread deletes are judged; everything else is judged at quiescence".into(),
            "after a storage fault, artifacts containing a faulted chunk are judged by verify only (reads of them are not judged)".into(),
            "gc progress (that unreferenced chunks are eventually collected by plain gc cycles) is not part of the text: reported as an observation only".into(),
        ]
    }
}
