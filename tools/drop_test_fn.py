#!/usr/bin/env python3
"""drop_test_fn.py <file> <fn_name>...: remove `#[test] fn <name>() {...}` blocks (tests added by a patch)."""
import sys
p=sys.argv[1]; s=open(p).read()
for name in sys.argv[2:]:
    key=f"    fn {name}("
    i=s.index(key)
    start=s.rfind("    #[test]",0,i)
    # walk braces from first '{' after i
    j=s.index('{',i); depth=0; k=j
    while True:
        if s[k]=='{': depth+=1
        elif s[k]=='}':
            depth-=1
            if depth==0: break
        k+=1
    end=k+1
    # swallow following blank line
    while s[end:end+1]=='\n': end+=1
    s=s[:start]+s[end:]
    # restore indentation of next item
    if not s[start:start+4].startswith('    ') and s[start:start+1] not in '}':
        pass
open(p,'w').write(s)
