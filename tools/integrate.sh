#!/bin/sh
# integrate.sh <cNN>: take the scenario an agent delivered in /tmp/ag-<cNN>/out into /verif/sim and register it.
set -e
n="$1"; N=$(echo "$n" | tr a-z A-Z)
cp /tmp/ag-$n/out/$n.rs /verif/sim/src/scenarios/$n.rs
python3 - "$n" "$N" <<'PY'
import sys
n,N=sys.argv[1],sys.argv[2]
p='/verif/sim/src/scenarios/mod.rs'
s=open(p).read()
if f'pub mod {n};' not in s:
    mods=sorted(set([l for l in s.split('\n') if l.strip()]+[f'pub mod {n};']))
    open(p,'w').write('\n'.join(mods)+'\n')
p='/verif/sim/src/main.rs'
s=open(p).read()
if f'"{N}" =>' not in s:
    s=s.replace('            other => {',f'            "{N}" => driver::$f(scenarios::{n}::{N}, $($arg),*),\n            other => {{',1)
    open(p,'w').write(s)
PY
mkdir -p /verif/regress
for d in findings replays-finding replays-unfixed; do
  [ -d /tmp/ag-$n/out/$d ] && for f in /tmp/ag-$n/out/$d/*.json; do [ -f "$f" ] && cp "$f" /verif/regress/$N-$(basename "$f" | sed "s/^$N-//"); done
done
[ -f /tmp/ag-$n/out/REPORT.md ] && mkdir -p /verif/reports && cp /tmp/ag-$n/out/REPORT.md /verif/reports/$N.md
echo integrated $N
