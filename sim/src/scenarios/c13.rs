//! C13 — 2PC coordinator restart preserves every logged decision.
//!
//! Real `DistributedTxCoordinator::new(..).with_wal(TxWal::open(..))` on the
//! simulated disk. Participants are scripted: votes come from the step list
//! (a first YES vote takes its lock through the real `handle_prepare`).
//! A program of begin / vote (yes, no, resend, flipped duplicate, late) /
//! commit / abort / clock advance / timeout sweep / abort broadcast /
//! pending-decision completion / clean restart is run; in Enumerate mode every
//! mutating syscall boundary of the whole program and (sampled) byte offsets
//! of every log write are each taken as a power-loss crash point. A restart is:
//! drop the coordinator, cut the log (power-loss model), reopen `TxWal`, build
//! a new coordinator, real `recover_from_wal` (optionally `recover`). Every
//! program is followed by an epilogue: restart, drive every recovered
//! transaction to completion, restart, sweep after every timeout, a new
//! transaction on the same keys, restart.
//!
//! Strengthened (round 2) by three more general kinds, none of which changes the
//! ledger oracle:
//!  * unusual-size inputs: `BeginWide` begins a transaction with 8 300 - 262 000
//!    participants, so that single log records (TxBegin, AbortIntent) reach
//!    64 KiB - 1 MiB; such programs sample their crash points (`Mode::Sample`);
//!  * scheduled threads: `Par` runs 2-4 threads under the baton scheduler
//!    (`sched::run_threads`, switches at the `tensor_chain.` lock sites) that issue
//!    record_vote / commit / abort for the same transactions concurrently; the
//!    results are applied to the ledger in the order in which the calls returned;
//!  * participant-numbered lock handles (`handle_numbering = 1`): YES votes carry
//!    handle values numbered from 1 in every incarnation (a new process restarts
//!    its handle counter), so handle values repeat across transactions; the clause
//!    "locks of completed transactions are released" is also decided after every
//!    restart through what recovery reports as orphaned locks.
//!
//! Strengthened (round 3) by the log configuration as part of the case, again without a
//! new oracle clause:
//!  * `log_limit`: the log is opened with `WalConfig { max_size_bytes, auto_rotate: false }`
//!    (in the first `lives` incarnations), so that appends are refused at varying points of
//!    begin / record_vote / commit / abort / the abort broadcast. `Mode::Limits` enumerates
//!    the limit from a reference execution: every record of program and epilogue in turn is
//!    the first one refused (no room left; one byte short, so that shorter records still
//!    fit), kept for ever or lifted at one of the next two restarts, followed by the epilogue
//!    at once or by timeouts / aborts on the live coordinator first. Every fourth of these
//!    cases instead has a drawn limit together with 1-3 crashes;
//!  * coordinator calls may return `Err`: un-acknowledged, nothing is assumed about what they
//!    did. What they logged is read back from the log at once (a completion counts as logged
//!    when its TxComplete record is in the log); a vote that `record_vote` answered with
//!    Ok(None) without taking it (its append was refused) does not enter the ledger;
//!  * a reversal (abort / timeout after a logged commit, commit after a logged abort) by the
//!    very incarnation that logged the completion is judged at the next restart: the text
//!    speaks of a restarted coordinator; from that restart on the completion "was logged
//!    before the crash" and the reversal lies "afterwards" in the transaction's history.
//!
//! Strengthened (round 4) by the coordinator's configuration as part of the case, without a new
//! oracle clause:
//!  * `configs`: every field of `DistributedTxConfig` (max_concurrent, prepare_timeout_ms,
//!    commit_timeout_ms, orthogonal_threshold, optimistic_locking, tx_queue_soft_limit_pct), small
//!    values included; incarnation i is built with `configs[min(i, len-1)]` (mostly one
//!    configuration for every incarnation; now and then the operator changes it at the first
//!    restart). Empty = the default configuration, as in older replay files;
//!  * a `begin` refused because of the limit is un-acknowledged (no transaction, no ledger entry);
//!  * a new program shape (`gen_rounds`): rounds of "as many transactions as the limit admits,
//!    now and then one more", their votes, some decisions, and between the rounds what the
//!    quantifier calls the following sequence of timeouts (advance past the configured prepare
//!    timeout, `cleanup_timeouts`, abort broadcast), recovery calls, restarts and further
//!    transactions — so that the log comes to hold more open transactions than `max_concurrent`
//!    (the timeout sweep frees `begin` slots without logging anything);
//!  * the epilogue and the live tails of `Mode::Limits` advance past the longest configured timeout.
//!
//! Strengthened (round 5) by recovery calls at arbitrary points of a LIVE incarnation, without a
//! new oracle clause (the quantifier's "every following sequence of recovery calls, timeouts and
//! further transactions"):
//!  * `RecoverWal`: `recover_from_wal()` on the running coordinator (not only right after a
//!    restart): it re-installs every open transaction of the log over whatever the coordinator
//!    holds in memory (transactions the timeout sweep dropped, phases `recover()` changed);
//!  * `Resolve { policy }`: `get_pending_decisions()`, then for every transaction it returned the
//!    call the policy names: `complete_abort` or the logging `abort` for Aborting ones,
//!    `complete_commit`, or `commit` first, for Committing ones;
//!  * a new program shape (`gen_live`): transactions are begun and voted on, then 2-5 blocks of
//!    "clock advance (short of / past the configured timeout) - recovery call (`recover`,
//!    `recover_from_wal`, `get_pending_decisions`, `cleanup_timeouts`) - commit / abort /
//!    complete_* of what it returned or of drawn transactions", with clean restarts and further
//!    transactions between the blocks; crash points as before (Enumerate / Sample / Chain),
//!    judged by the same ledger. `recover()` logs nothing, so after it the phase in memory and
//!    the phase in the log differ when `commit` / `abort` write their records.
//!
//! Strengthened (round 6) by two more general kinds, without a new oracle clause:
//!  * `log_cfgs`: the remaining switches of the log's `WalConfig` (enable_checksums,
//!    verify_on_replay, pre_check_space, min_free_space_bytes, max_rotated_files) are part of
//!    the case, per incarnation like `configs` (an operator may restart with other switches, the
//!    log then holds records with and without checksum); a third of the cases of every shape
//!    draw them. Empty = `WalConfig::default()`, as in older replay files;
//!  * `Fill { n, seed }`: `n` further small transactions outside the ledger (begun, voted on,
//!    committed or aborted at once; a few left open), and a program shape (`gen_long`) that
//!    inserts 150 - 1 200 of them into a round-1 program: the log grows through tens to hundreds
//!    of KiB with records at every alignment (the logs of the other shapes are either a few
//!    hundred bytes long or hold one huge record), while the ledger's transactions are prepared
//!    and decided before, between and behind the filler. Crash points are sampled / drawn.
//!
//! Oracle = ledger of completions that were logged before a restart
//! (`commit`/`abort` returned `Ok` while the node was alive, or — for the call
//! cut by the crash — the `TxComplete` record lies wholly in the surviving
//! log), checked against the property text (see `check_after_restart`).

use crate::ctx::{RunCtx, SysEvent};
use crate::driver::{drop_chunks, RunOut, Scenario, Tier, Violation};
use crate::net::{new_net, now_or_never, Net, SimTransport};
use crate::rng::Rng;
use serde::{Deserialize, Serialize};
use serde_json::{json, Value};
use std::collections::{BTreeMap, BTreeSet};
use std::sync::atomic::{AtomicU64, Ordering};
use std::sync::{Arc, Mutex, Once, RwLock};
use tensor_chain::network::Message;
use tensor_chain::raft_wal::WalConfig;
use tensor_chain::{
    lock_handle_current, ConsensusConfig, ConsensusManager, DeltaVector, DistributedTxConfig, DistributedTxCoordinator,
    LockManager, PrepareRequest, PrepareVote, Transaction, TxOutcome, TxPhase, TxRecoveryState, TxWal, TxWalEntry, VoteRecordError,
};
use tensor_store::SparseVector;

#[derive(Serialize, Deserialize, Clone, Copy, Debug, PartialEq)]
pub enum V {
    /// YES (the first vote of a shard on a transaction that is collecting
    /// votes takes the shard's key lock through `handle_prepare`, which may
    /// answer Conflict instead)
    Yes,
    No,
    /// the same vote message again (network duplicate); first vote if none yet
    Resend,
    /// a second, different answer of a shard that already voted; NO if none yet
    Flip,
}

#[derive(Serialize, Deserialize, Clone, Debug, PartialEq)]
pub enum Step {
    /// begin a transaction in slot `t` with `n` participants; shard s works on key (kb+s)%6
    Begin { t: u8, n: u8, kb: u8 },
    Vote { t: u8, s: u8, v: V },
    Commit { t: u8 },
    Abort { t: u8 },
    Advance { ms: u32 },
    /// `cleanup_timeouts`
    Sweep,
    /// `process_pending_aborts` over the simulated transport
    Aborts,
    /// `get_pending_decisions`, then `complete_commit` / `complete_abort` for each
    Decide,
    /// drive every pending transaction to completion: Prepared -> `commit` (even
    /// slot) or `abort` (odd slot), Committing -> `complete_commit`, Aborting -> `complete_abort`
    DriveAll,
    /// `recover` (the in-memory recovery pass)
    Recover,
    /// clean restart: drop, reopen, `recover_from_wal`
    Restart,
    /// begin a transaction in slot `t` with `n` participants whose shard ids are
    /// `base`, `base+1`, ... (an unusual-size input: its TxBegin record, and the
    /// AbortIntent record of its timeout, are 64 KiB - 1 MiB long); participant
    /// number j works on key (kb+j)%6
    BeginWide { t: u8, n: u32, base: u64, kb: u8 },
    /// 2-4 scheduled threads issue their operations concurrently on the one
    /// coordinator; `schedule` picks the thread to run at every schedule point
    Par {
        threads: Vec<Vec<POp>>,
        schedule: Vec<u8>,
        /// the participants prepare (take their key locks through `handle_prepare`)
        /// one after the other before the threads start, so that only their votes,
        /// and the decisions, meet concurrently at the coordinator
        #[serde(default)]
        ahead: bool,
    },
    /// `recover_from_wal` on the running coordinator (a recovery call at an arbitrary point of
    /// a live incarnation, not only right after a restart)
    RecoverWal,
    /// `get_pending_decisions`, then for each transaction it returned the call `policy` names:
    /// bit 0: Aborting -> `abort` (writes the log) instead of `complete_abort`;
    /// bit 1: Committing -> `commit` first (refused outside Prepared), then `complete_commit`;
    /// bit 2: only the first transaction returned, the others stay pending
    Resolve { policy: u8 },
    /// `n` further small transactions, one after the other, drawn from `seed`: each is begun
    /// with 1-5 participants (shard ids from 0, from 250 or from 70 000, so that the records
    /// differ in length), gets its votes (scripted YES / NO messages that take no key lock) and
    /// is committed or aborted at once; now and then one is aborted while it collects votes, a
    /// few are left open. They are ballast ("further transactions" of the quantifier): they
    /// make the log long (tens to hundreds of KiB, records at every alignment) and are not in
    /// the ledger; no clause is decided on them
    Fill { n: u16, seed: u64 },
}

/// One operation of a thread of a `Par` step.
#[derive(Serialize, Deserialize, Clone, Debug, PartialEq)]
pub enum POp {
    /// the vote of participant number `s` (YES takes the key lock through
    /// `handle_prepare` when the participant has not voted yet)
    Vote { t: u8, s: u8, yes: bool },
    Commit { t: u8 },
    Abort { t: u8 },
}

#[derive(Serialize, Deserialize, Clone, Debug, PartialEq)]
pub struct CrashSpec {
    /// crash at the nth mutating syscall counted from the (re)start of the incarnation
    pub nth: u64,
    /// bytes of that syscall kept if it is a write (None: none)
    pub bytes: Option<usize>,
    /// power-loss cut of non-durable log bytes: 0 = keep all written,
    /// 1 = keep only what was fsynced, n>=2 = pseudo-random choice from n
    pub cut: u64,
}

/// Configuration of the transaction log: a hard size limit without rotation
/// (`WalConfig { max_size_bytes, auto_rotate: false, .. }`). An append that would
/// take the log past the limit is refused; the coordinator call that needed it may
/// return `Err` (un-acknowledged) or go on without the record.
#[derive(Serialize, Deserialize, Clone, Debug, PartialEq)]
pub struct LogLimit {
    pub max_bytes: u64,
    /// the first `lives` incarnations open the log with the limit, later ones with the
    /// default configuration (the operator lifted it); 255 = every incarnation
    pub lives: u8,
}

/// The remaining switches of the log's `WalConfig` (size limit and rotation: see `LogLimit`).
#[derive(Serialize, Deserialize, Clone, Debug, PartialEq)]
pub struct LogCfg {
    /// false: records are written with 0 in their CRC field ("no checksum")
    pub enable_checksums: bool,
    pub verify_on_replay: bool,
    /// statvfs before every append
    pub pre_check_space: bool,
    /// free space `pre_check_space` asks for on top of the record (0 or the default 100 MiB:
    /// the answer must not depend on the machine)
    pub min_free_space_bytes: u64,
    pub max_rotated_files: u8,
}

impl LogCfg {
    fn default_values() -> Self {
        let d = WalConfig::default();
        LogCfg {
            enable_checksums: d.enable_checksums,
            verify_on_replay: d.verify_on_replay,
            pre_check_space: d.pre_check_space,
            min_free_space_bytes: d.min_free_space_bytes,
            max_rotated_files: d.max_rotated_files.min(255) as u8,
        }
    }

    fn show(&self) -> String {
        format!(
            "enable_checksums={} verify_on_replay={} pre_check_space={} min_free_space_bytes={} max_rotated_files={}",
            self.enable_checksums, self.verify_on_replay, self.pre_check_space, self.min_free_space_bytes, self.max_rotated_files
        )
    }
}

/// The coordinator's configuration: every field of `DistributedTxConfig`.
#[derive(Serialize, Deserialize, Clone, Debug, PartialEq)]
pub struct CoordCfg {
    /// timeout of a transaction begun by this incarnation (restored ones get 5000 ms)
    pub prepare_timeout_ms: u64,
    pub commit_timeout_ms: u64,
    /// `begin` is refused while this many transactions are pending
    pub max_concurrent: u32,
    pub orthogonal_threshold: f32,
    pub optimistic_locking: bool,
    pub tx_queue_soft_limit_pct: u8,
}

impl CoordCfg {
    /// `DistributedTxConfig::default()`
    fn default_values() -> Self {
        let d = DistributedTxConfig::default();
        CoordCfg {
            prepare_timeout_ms: d.prepare_timeout_ms,
            commit_timeout_ms: d.commit_timeout_ms,
            max_concurrent: d.max_concurrent.min(u32::MAX as usize) as u32,
            orthogonal_threshold: d.orthogonal_threshold,
            optimistic_locking: d.optimistic_locking,
            tx_queue_soft_limit_pct: d.tx_queue_soft_limit_pct,
        }
    }

    fn real(&self) -> DistributedTxConfig {
        DistributedTxConfig {
            prepare_timeout_ms: self.prepare_timeout_ms,
            commit_timeout_ms: self.commit_timeout_ms,
            max_concurrent: self.max_concurrent as usize,
            orthogonal_threshold: self.orthogonal_threshold,
            optimistic_locking: self.optimistic_locking,
            tx_queue_soft_limit_pct: self.tx_queue_soft_limit_pct,
        }
    }

    fn show(&self) -> String {
        format!(
            "max_concurrent={} prepare_timeout_ms={} commit_timeout_ms={} orthogonal_threshold={} optimistic_locking={} tx_queue_soft_limit_pct={}",
            self.max_concurrent, self.prepare_timeout_ms, self.commit_timeout_ms, self.orthogonal_threshold, self.optimistic_locking, self.tx_queue_soft_limit_pct
        )
    }
}

#[derive(Serialize, Deserialize, Clone, Debug, PartialEq)]
pub enum Mode {
    Enumerate,
    Chain(Vec<CrashSpec>),
    /// the size limit of the log is enumerated: a reference execution without limit gives
    /// the log size before and after every record; every record of program and epilogue
    /// in turn is the first one the limit refuses (with no room left, and with one byte
    /// less than the record needs, so that shorter records still fit), the limit is kept
    /// for ever or lifted at one of the next restarts, and the program is followed by the
    /// epilogue at once (restart first) or by timeouts / aborts on the live coordinator
    /// and then the epilogue. `points` > 0: a seeded subset of that many executions.
    Limits { seed: u64, points: u32 },
    /// like Enumerate, but only `points` of the crash points, drawn with `seed`
    /// (programs with very long records or thread blocks, where one execution is dear)
    Sample { seed: u64, points: u32 },
}

#[derive(Serialize, Deserialize, Clone, Debug)]
pub struct Case {
    pub steps: Vec<Step>,
    /// call `recover()` right after every `recover_from_wal()`
    pub recover_after_restart: bool,
    pub mode: Mode,
    /// who numbers the lock handles that YES votes carry. 0: the coordinator's
    /// process-wide counter (the handle `handle_prepare` returned). 1: the
    /// participants' own numbering, which starts again from 1 in every incarnation
    /// (a new process), so that handle values repeat across transactions
    #[serde(default)]
    pub handle_numbering: u8,
    /// size limit of the transaction log (None: default configuration, 1 GiB with rotation)
    #[serde(default)]
    pub log_limit: Option<LogLimit>,
    /// the coordinator's configuration: incarnation i is built with `configs[min(i, len-1)]`
    /// (one entry: the same configuration in every incarnation; several: the operator changed
    /// it between restarts). Empty: `DistributedTxConfig::default()` throughout
    #[serde(default)]
    pub configs: Vec<CoordCfg>,
    /// the switches of the log's `WalConfig`: incarnation i opens the log with
    /// `log_cfgs[min(i, len-1)]` (several entries: the operator changed them between restarts,
    /// the log then holds records with and without checksum). Empty: `WalConfig::default()`
    #[serde(default)]
    pub log_cfgs: Vec<LogCfg>,
    /// shard ids of the participants of `Begin` transactions: 0 = 0, 1, 2; 1 = 1, 65, 129 (equal
    /// modulo 64); 2 = 0, 250, 70 000; 3 = 7, 4 294 967 303, 2^40 (equal modulo 2^32). An id is
    /// a name: nothing may depend on its value
    #[serde(default)]
    pub shard_pal: u8,
}

/// The log switches incarnation `inc` opens the log with.
fn log_cfg_of(case: &Case, inc: usize) -> LogCfg {
    match case.log_cfgs.len() {
        0 => LogCfg::default_values(),
        n => case.log_cfgs[inc.min(n - 1)].clone(),
    }
}

/// The configuration incarnation `inc` of the coordinator is built with.
fn cfg_of(case: &Case, inc: usize) -> CoordCfg {
    match case.configs.len() {
        0 => CoordCfg::default_values(),
        n => case.configs[inc.min(n - 1)].clone(),
    }
}

/// A clock advance after which every transaction has timed out, whichever incarnation began
/// it (6000 ms with the default configuration: restored transactions carry 5000 ms).
fn timeout_span(case: &Case) -> u32 {
    let longest = case.configs.iter().map(|c| c.prepare_timeout_ms).max().unwrap_or(0);
    longest.saturating_add(1000).clamp(6000, 3_600_000) as u32
}

pub struct C13;

const NODE: &str = "n0";
/// slot used by the epilogue's new transaction
const EPILOGUE_SLOT: u8 = 200;

// ---- process-wide determinism helpers -------------------------------------------------
//
// Two process-global counters inside /repo leak into a run:
//  * `LOCK_COUNTER` (lock handles). Handles are logged and bitcode packs integers by
//    magnitude, so the record length would depend on how many locks other runs of this
//    process took before. The counter is advanced once past 2^16: from then on (and below
//    2^32) every handle encodes in 4 bytes.
//  * `generate_tx_id` (LAST_TIMESTAMP / OVERFLOW_COUNTER): two runs on different worker
//    threads that create an id in the same simulated millisecond influence each other's
//    "overflow" bits. `begin` (whose id is kept) excludes every other call that creates
//    an id (write lock); `recover_from_wal` (whose generated ids are overwritten by the
//    logged ones) only excludes `begin` (read lock, and only when the log holds
//    transactions to restore). `begin` is preceded by an id drawn 7 ms in the future,
//    which makes the overflow bits of the following id 0 whatever other runs did before.
static ID_LOCK: RwLock<()> = RwLock::new(());
static INIT: Once = Once::new();

fn init_process() {
    INIT.call_once(|| {
        // on a thread without simulation context: real clock, no effect on the run
        let _ = std::thread::spawn(|| {
            let lm = LockManager::new();
            while lock_handle_current() < 70_000 {
                let _ = lm.try_lock(0, &[]);
            }
        })
        .join();
    });
}

fn id_exclusive() -> std::sync::RwLockWriteGuard<'static, ()> {
    match ID_LOCK.write() {
        Ok(g) => g,
        Err(p) => p.into_inner(),
    }
}

fn id_shared() -> std::sync::RwLockReadGuard<'static, ()> {
    match ID_LOCK.read() {
        Ok(g) => g,
        Err(p) => p.into_inner(),
    }
}

// ---- ledger ---------------------------------------------------------------------------

#[derive(Clone, Debug)]
struct TxRec {
    id: u64,
    /// shard ids of the participants (participant number j = index j)
    parts: Arc<Vec<usize>>,
    kb: u8,
    /// votes the live coordinator accepted: shard -> (yes, lock handle)
    votes: BTreeMap<usize, (bool, u64)>,
    /// last accepted vote message per shard (for Resend / Flip)
    last_vote: BTreeMap<usize, PrepareVote>,
    /// the PhaseChange -> Prepared record is known to be in the log
    prepared_logged: bool,
    /// (committed?, incarnation in which the TxComplete record was logged)
    outcome: Option<(bool, usize)>,
    /// the completion is known from the log only: the call that logged it returned `Err`
    /// (un-acknowledged: no statement about what else it did, e.g. releasing locks)
    err_logged: bool,
    /// completed or swept in memory without a log record (complete_commit,
    /// complete_abort, cleanup_timeouts): coming back after a restart and not
    /// coming back are both accepted from then on
    volatile: bool,
    /// an abort of a transaction that was still collecting votes was cut by a
    /// crash after its PhaseChange -> Aborting record: no expectation
    loose: bool,
    /// listed by `cleanup_timeouts` (probe bookkeeping only)
    swept: bool,
    /// was collecting votes at a restart: must stay absent
    forgotten: bool,
    abort_sent: bool,
    /// `abort` completed it (Ok, logged) while its phase in memory was Aborting although the
    /// log held no PhaseChange -> Aborting record for it (`recover` had moved it; probe bookkeeping only)
    aborted_after_unlogged_aborting: bool,
}

fn phase_name(p: TxPhase) -> &'static str {
    match p {
        TxPhase::Preparing => "Preparing",
        TxPhase::Prepared => "Prepared",
        TxPhase::Committing => "Committing",
        TxPhase::Committed => "Committed",
        TxPhase::Aborting => "Aborting",
        TxPhase::Aborted => "Aborted",
        _ => "?",
    }
}

fn vote_yes_handle(v: &PrepareVote) -> (bool, u64) {
    match v {
        PrepareVote::Yes { lock_handle, .. } => (true, *lock_handle),
        _ => (false, 0),
    }
}

/// number of complete `[len u32][crc u32][payload]` frames at the start of
/// `raw` and the offset where they end
fn frames(raw: &[u8]) -> (usize, usize, usize) {
    let mut pos = 0usize;
    let mut n = 0usize;
    let mut longest = 0usize;
    while pos + 8 <= raw.len() {
        let l = u32::from_le_bytes([raw[pos], raw[pos + 1], raw[pos + 2], raw[pos + 3]]) as usize;
        if l > (1 << 24) || pos + 8 + l > raw.len() {
            break;
        }
        pos += 8 + l;
        n += 1;
        longest = longest.max(l);
    }
    (n, pos, longest)
}

/// Shape of the log a restart works on: (some complete record's 8-byte header straddles a
/// multiple of 32 KiB, the last complete record is a TxComplete, its CRC field is 0).
fn log_shape(raw: &[u8]) -> (bool, bool, bool) {
    let mut pos = 0usize;
    let mut straddles = false;
    let mut last: Option<(usize, usize)> = None;
    while pos + 8 <= raw.len() {
        let l = u32::from_le_bytes([raw[pos], raw[pos + 1], raw[pos + 2], raw[pos + 3]]) as usize;
        if l > (1 << 24) || pos + 8 + l > raw.len() {
            break;
        }
        if pos % 32_768 > 32_760 {
            straddles = true;
        }
        last = Some((pos, l));
        pos += 8 + l;
    }
    match last {
        Some((at, l)) => {
            let is_complete = matches!(bitcode::deserialize::<TxWalEntry>(&raw[at + 8..at + 8 + l]), Ok(TxWalEntry::TxComplete { .. }));
            (straddles, is_complete, raw[at + 4..at + 8] == [0, 0, 0, 0])
        },
        None => (straddles, false, false),
    }
}

fn cut_choice(cut: u64, lo: u64, hi: u64) -> u64 {
    match cut {
        0 => hi,
        1 => lo,
        n => lo + (n.wrapping_mul(0x9E37_79B9_7F4A_7C15) >> 33) % (hi - lo + 1),
    }
}

fn viol(class: &str, detail: String) -> Violation {
    Violation { class: class.to_string(), detail }
}

struct Trial<'a> {
    ctx: &'a Arc<RunCtx>,
    case: &'a Case,
    dir: String,
    wal: String,
    recs: BTreeMap<u8, TxRec>,
    by_id: BTreeMap<u64, u8>,
    /// incarnation number (0 = first start)
    inc: usize,
    /// slots whose log-writing call was cut by the crash, not yet resolved
    inflight: Vec<u8>,
    /// slots touched by the step being executed
    touched: Vec<u8>,
    net: Net,
    transport: Arc<SimTransport>,
    observations: Vec<String>,
    /// log length right after the last open that found a torn tail (0 = none pending)
    torn_open_len: Option<u64>,
    crashes_fired: usize,
    /// next participant-numbered lock handle (`handle_numbering = 1`); back to 1 at every restart
    next_handle: Arc<AtomicU64>,
    harness_error: Option<String>,
    /// (step index, schedule) that replaces the schedule of that `Par` step in this execution
    par_override: Option<(usize, Vec<u8>)>,
    /// (step index, threads, scheduler steps) of every `Par` step executed
    par_steps: Vec<(usize, usize, usize)>,
    /// size limit of the log in this execution (the case's, or the enumerated one)
    limit: Option<LogLimit>,
    /// steps run between the program and the epilogue (enumerated live tails)
    extra: Vec<Step>,
    /// reversals, by the incarnation that logged it, of a completion (class, detail):
    /// judged when the coordinator has been restarted from the log that holds the completion
    deferred: Vec<(&'static str, String)>,
}

/// What a thread of a `Par` step knows about a transaction (taken when the step starts).
#[derive(Clone)]
struct ParTx {
    id: u64,
    parts: Arc<Vec<usize>>,
    kb: u8,
    /// participants (by number) whose vote the coordinator had accepted before the step
    voted: BTreeSet<usize>,
}

/// Outcome of one operation of a `Par` thread, in the order in which the calls returned.
struct ParResult {
    thread: usize,
    op: POp,
    /// (participant number, shard id, vote sent, handle of the real lock taken for it)
    vote: Option<(usize, usize, PrepareVote, Option<u64>)>,
    vote_res: Option<std::result::Result<Option<TxPhase>, VoteRecordError>>,
    ok: bool,
    alive: bool,
    /// `record_vote` answered Ok(None) but did not take the vote (append refused by the size limit)
    dropped: bool,
    /// error text of a failed commit / abort of a transaction the coordinator knew, and
    /// what the log said about the transaction when the call returned
    err: Option<(String, (bool, bool, bool, Option<bool>, bool))>,
}

impl<'a> Trial<'a> {
    fn new(ctx: &'a Arc<RunCtx>, case: &'a Case, tag: u64) -> Self {
        let dir = format!("{}/t{tag}", ctx.node_dir(NODE));
        let _ = std::fs::create_dir_all(&dir);
        let net = new_net();
        let all: Vec<String> = std::iter::once("coord".to_string()).chain((0..4).map(|i| format!("shard-{i}"))).collect();
        let transport = SimTransport::new("coord", &all, &net);
        Trial {
            ctx,
            case,
            wal: format!("{dir}/tx.wal"),
            dir,
            recs: BTreeMap::new(),
            by_id: BTreeMap::new(),
            inc: 0,
            inflight: Vec::new(),
            touched: Vec::new(),
            net,
            transport,
            observations: Vec::new(),
            torn_open_len: None,
            crashes_fired: 0,
            next_handle: Arc::new(AtomicU64::new(1)),
            harness_error: None,
            par_override: None,
            par_steps: Vec::new(),
            limit: case.log_limit.clone(),
            extra: Vec::new(),
            deferred: Vec::new(),
        }
    }

    /// the size limit the running incarnation's log was opened with
    fn limit_in_force(&self) -> Option<u64> {
        self.limit.as_ref().filter(|l| l.lives == 255 || self.inc < l.lives as usize).map(|l| l.max_bytes)
    }

    fn open_wal(&self) -> std::io::Result<TxWal> {
        let limit = self.limit_in_force();
        if limit.is_none() && self.case.log_cfgs.is_empty() {
            return TxWal::open(&self.wal);
        }
        let lc = log_cfg_of(self.case, self.inc);
        let mut cfg = WalConfig {
            enable_checksums: lc.enable_checksums,
            verify_on_replay: lc.verify_on_replay,
            pre_check_space: lc.pre_check_space,
            min_free_space_bytes: lc.min_free_space_bytes,
            max_rotated_files: lc.max_rotated_files as usize,
            ..WalConfig::default()
        };
        if !self.case.log_cfgs.is_empty() {
            self.ctx.probe("non_default_log_switches");
            if !lc.enable_checksums {
                self.ctx.probe("log_opened_without_checksums");
            }
            if !lc.verify_on_replay {
                self.ctx.probe("log_opened_without_verify_on_replay");
            }
        }
        if let Some(max) = limit {
            self.ctx.probe("log_opened_with_size_limit");
            cfg.max_size_bytes = max;
            cfg.auto_rotate = false;
        }
        TxWal::open_with_config(&self.wal, cfg)
    }

    /// The records of the log of the live coordinator (every append is flushed before
    /// the call returns), decoded independently of `TxWal::replay`.
    fn read_log(path: &str) -> Vec<TxWalEntry> {
        let raw = std::fs::read(path).unwrap_or_default();
        let mut pos = 0usize;
        let mut out = Vec::new();
        while pos + 8 <= raw.len() {
            let l = u32::from_le_bytes([raw[pos], raw[pos + 1], raw[pos + 2], raw[pos + 3]]) as usize;
            if l > (1 << 24) || pos + 8 + l > raw.len() {
                break;
            }
            match bitcode::deserialize::<TxWalEntry>(&raw[pos + 8..pos + 8 + l]) {
                Ok(e) => out.push(e),
                Err(_) => break,
            }
            pos += 8 + l;
        }
        out
    }

    /// What the log says about transaction `t`: (Prepared logged, Aborting logged,
    /// Committing logged, first TxComplete, AllLocksReleased logged).
    fn logged_about(entries: &[TxWalEntry], id: u64) -> (bool, bool, bool, Option<bool>, bool) {
        let (mut prepared, mut aborting, mut committing, mut complete, mut released) = (false, false, false, None, false);
        for e in entries {
            match e {
                TxWalEntry::PhaseChange { tx_id, to, .. } if *tx_id == id => match to {
                    TxPhase::Prepared => prepared = true,
                    TxPhase::Aborting => aborting = true,
                    TxPhase::Committing => committing = true,
                    _ => {},
                },
                TxWalEntry::TxComplete { tx_id, outcome } if *tx_id == id => {
                    // the first completion is the completion; a later one would be a reversal
                    if complete.is_none() {
                        complete = Some(matches!(outcome, TxOutcome::Committed));
                    }
                },
                TxWalEntry::AllLocksReleased { tx_id } if *tx_id == id => released = true,
                _ => {},
            }
        }
        (prepared, aborting, committing, complete, released)
    }

    /// `commit` / `abort` returned `Err` on the live coordinator for a transaction it knew:
    /// the call is un-acknowledged, nothing is assumed about what it did; what it logged is
    /// read back ("an outcome whose completion was logged": a completion counts as logged
    /// when its TxComplete record is in the log).
    fn on_failed_decision(&mut self, t: u8, how: &str, err: &str) {
        let Some(id) = self.recs.get(&t).map(|r| r.id) else { return };
        let logged = Self::logged_about(&Self::read_log(&self.wal), id);
        self.on_failed_decision_with(t, how, err, logged);
    }

    /// `logged` = what the log said about the transaction when the call returned
    fn on_failed_decision_with(&mut self, t: u8, how: &str, err: &str, logged: (bool, bool, bool, Option<bool>, bool)) {
        let refused = err.contains("WAL write failed");
        if refused {
            self.ctx.probe("decision_call_failed_on_refused_append");
        }
        let Some(rec) = self.recs.get(&t) else { return };
        if rec.outcome.is_some() {
            return;
        }
        let (prepared, aborting, committing, complete, _released) = logged;
        let inc = self.inc;
        let rec = self.recs.get_mut(&t).unwrap();
        if prepared {
            rec.prepared_logged = true;
        }
        if let Some(cm) = complete {
            rec.outcome = Some((cm, inc));
            rec.err_logged = true;
            self.ctx.probe("completion_logged_by_call_that_returned_err");
            self.ctx.event(&format!("  {how} t{t} returned Err, its TxComplete({}) record is in the log", if cm { "Committed" } else { "Aborted" }));
        } else if committing {
            if refused {
                self.ctx.probe("commit_failed_between_committing_and_txcomplete");
            }
        } else if aborting {
            if refused {
                self.ctx.probe("abort_failed_between_aborting_and_txcomplete");
            }
            if !rec.prepared_logged {
                // as for an abort cut by a crash after its PhaseChange -> Aborting record:
                // "still collecting votes" no longer describes it, no completion was logged
                rec.loose = true;
            }
        } else if refused {
            self.ctx.probe("decision_refused_before_any_record");
        }
    }

    /// A lock handle under which the coordinator's lock manager holds nothing
    /// (late / duplicate messages take no lock; participant-numbered handles).
    fn free_handle(numbering: u8, counter: &AtomicU64, id: u64) -> u64 {
        if numbering == 1 {
            counter.fetch_add(1, Ordering::Relaxed)
        } else {
            LockManager::new().try_lock(id, &[]).unwrap_or(0)
        }
    }

    fn cleanup(&self) {
        let _ = std::fs::remove_dir_all(&self.dir);
        self.ctx.forget_prefix(&self.dir);
    }

    fn observe(&mut self, s: &str) {
        if !self.observations.iter().any(|o| o == s) {
            self.observations.push(s.to_string());
        }
    }

    fn alive(&self) -> bool {
        !self.ctx.is_dead(NODE)
    }

    fn slot_of(&self, id: u64) -> Option<u8> {
        self.by_id.get(&id).copied()
    }

    fn key(kb: u8, pnum: usize) -> String {
        format!("k{}", (kb as usize + pnum) % 6)
    }

    fn prepare_request(id: u64, kb: u8, pnum: usize) -> PrepareRequest {
        let mut dense = [0.0f32; 4];
        dense[pnum % 4] = 1.0;
        PrepareRequest {
            tx_id: id,
            coordinator: "coord".to_string(),
            operations: vec![Transaction::Put { key: Self::key(kb, pnum), data: vec![1] }],
            delta_embedding: SparseVector::from_dense(&dense),
            timeout_ms: 5000,
        }
    }

    /// "locks of completed transactions are released": after a completion the
    /// lock manager holds nothing for the transaction.
    fn check_no_locks(&self, c: &DistributedTxCoordinator, t: u8, class: &str, what: &str) -> Result<(), Violation> {
        let rec = &self.recs[&t];
        let lm = c.lock_manager();
        let held = lm.keys_for_transaction(rec.id);
        let mut holder_of = Vec::new();
        for s in 0..6 {
            let k = format!("k{s}");
            if lm.lock_holder(&k) == Some(rec.id) {
                holder_of.push(k);
            }
        }
        // `keys_for_transaction` alone is not decisive: when an expired lock is taken over by
        // another transaction the per-transaction index keeps a stale entry although the key
        // is held by the new owner; a lock is "held" when the key's holder is this transaction.
        if !holder_of.is_empty() {
            return Err(viol(
                class,
                format!("{what}: transaction t{t} still holds locks: keys_for_transaction={held:?}, lock_holder matches on {holder_of:?}"),
            ));
        }
        Ok(())
    }

    /// A completion (`commit`/`abort`/`complete_*` returned Ok while the node was
    /// alive). `logged` = the call writes a TxComplete record.
    fn on_completed(
        &mut self,
        c: &DistributedTxCoordinator,
        t: u8,
        committed: bool,
        logged: bool,
        how: &str,
    ) -> Result<(), Violation> {
        let inc = self.inc;
        let rec = self.recs.get_mut(&t).unwrap();
        if let Some((was_committed, inc0)) = rec.outcome {
            // "a transaction completed as committed is never afterwards aborted ..., and
            //  one completed as aborted is never committed" — for completions logged
            //  before the (latest) restart
            if was_committed != committed {
                let class = if was_committed { "committed-then-aborted" } else { "aborted-then-committed" };
                let detail = format!(
                    "t{t}: completion as {} was logged in incarnation {inc0}; in incarnation {inc} {how} returned Ok and completed it as {}",
                    if was_committed { "committed" } else { "aborted" },
                    if committed { "committed" } else { "aborted" }
                );
                if inc0 < inc {
                    return Err(viol(class, detail));
                }
                // reversed by the incarnation that logged the completion: the text speaks of a
                // restarted coordinator, so this is judged at the next restart from this log
                // (from then on the completion "was logged before the crash", and the reversal
                // lies "afterwards" in the history of the transaction)
                self.ctx.probe("logged_completion_reversed_before_restart");
                self.deferred.push((class, detail));
            }
            if rec.outcome.map(|o| o.0) == Some(committed) {
                rec.err_logged = false;
            }
        } else if logged {
            rec.outcome = Some((committed, inc));
        }
        if !logged {
            rec.volatile = true;
        }
        let abort_sent = rec.abort_sent;
        let reversed = rec.outcome.map(|o| o.0 != committed).unwrap_or(false);
        if reversed {
            // the locks are judged against the logged completion after the restart
            return Ok(());
        }
        if committed && abort_sent {
            self.observe("observation(unlogged timeout/no-vote abort, outside C13's clauses): an abort broadcast was sent for a transaction that was later completed as committed");
        }
        self.ctx.probe(if committed { "tx_completed_committed" } else { "tx_completed_aborted" });
        if how == "commit" && self.limit_in_force().is_some() {
            let (_, _, _, complete, released) = Self::logged_about(&Self::read_log(&self.wal), self.recs[&t].id);
            if complete == Some(true) && !released {
                // the window in which the bookkeeping records behind the decision are refused
                self.ctx.probe("commit_ok_with_lock_release_records_refused");
            }
        }
        self.check_no_locks(c, t, "completed-tx-holds-lock", &format!("after {how}"))
    }

    fn begin(&mut self, c: &DistributedTxCoordinator, t: u8, parts: Vec<usize>, kb: u8, i: usize) {
        let ctx = self.ctx;
        if self.recs.contains_key(&t) {
            return;
        }
        let r = {
            let _g = id_exclusive();
            ctx.step_wall_ms(7);
            let _ = tensor_chain::generate_tx_id();
            ctx.step_wall_ms(-7);
            c.begin(&"coord".to_string(), &parts)
        };
        self.touched.push(t);
        match r {
            Ok(tx) => {
                if parts.len() > 3 {
                    ctx.probe("wide_tx_begun");
                }
                // transactions the timeout sweep dropped from memory without a log record: the
                // log still shows them as open while their `begin` slots are free again
                let swept_open = self.recs.values().filter(|r| r.swept && r.prepared_logged && r.outcome.is_none()).count();
                if swept_open > 0 && c.pending_count() + swept_open > cfg_of(self.case, self.inc).max_concurrent as usize {
                    ctx.probe("begin_admitted_into_slot_freed_by_timeout_sweep");
                }
                ctx.event(&format!("s{i} begin t{t} n{} first_shard{} kb{kb}", parts.len(), parts[0]));
                self.by_id.insert(tx.tx_id, t);
                self.recs.insert(
                    t,
                    TxRec {
                        id: tx.tx_id,
                        parts: Arc::new(parts),
                        kb,
                        votes: BTreeMap::new(),
                        last_vote: BTreeMap::new(),
                        prepared_logged: false,
                        outcome: None,
                        err_logged: false,
                        volatile: false,
                        loose: false,
                        swept: false,
                        forgotten: false,
                        abort_sent: false,
                        aborted_after_unlogged_aborting: false,
                    },
                );
            },
            Err(e) => {
                // a call refused because of a limit is un-acknowledged: no transaction, no ledger entry
                let msg = e.to_string();
                if msg.contains("too many concurrent") {
                    ctx.probe("begin_refused_at_max_concurrent");
                    if self.inc > 0 {
                        ctx.probe("begin_refused_at_max_concurrent_after_restart");
                    }
                }
                ctx.event(&format!("s{i} begin t{t} failed: {msg}"));
            },
        }
    }

    /// phase in memory of every transaction of the ledger the coordinator holds
    fn live_phases(&self, c: &DistributedTxCoordinator) -> BTreeMap<u8, TxPhase> {
        self.recs.iter().filter_map(|(t, r)| c.get(r.id).map(|x| (*t, x.phase))).collect()
    }

    /// `commit(t)` on the live coordinator and what it means for the ledger
    fn commit_step(&mut self, c: &DistributedTxCoordinator, t: u8, what: &str) -> Result<(), Violation> {
        let ctx = self.ctx;
        let Some(id) = self.recs.get(&t).map(|r| r.id) else { return Ok(()) };
        let known = c.get(id).is_some();
        let r = c.commit(id);
        let alive = self.alive();
        self.touched.push(t);
        ctx.event(&format!("{what} commit t{t} -> {}{}", if r.is_ok() { "ok" } else { "err" }, if alive { "" } else { " (node dead)" }));
        if r.is_ok() && alive {
            self.on_completed(c, t, true, true, "commit")?;
        } else if let (Err(e), true, true) = (&r, alive, known) {
            self.on_failed_decision(t, "commit", &e.to_string());
        }
        Ok(())
    }

    /// `abort(t)` on the live coordinator and what it means for the ledger
    fn abort_step(&mut self, c: &DistributedTxCoordinator, t: u8, reason: &str, what: &str) -> Result<(), Violation> {
        let ctx = self.ctx;
        let Some(id) = self.recs.get(&t).map(|r| r.id) else { return Ok(()) };
        let before = c.get(id).map(|x| x.phase);
        // the phase in memory is Aborting although the log holds no such record (`recover` moved it)
        let unlogged_aborting = before == Some(TxPhase::Aborting) && !Self::logged_about(&Self::read_log(&self.wal), id).1;
        let r = c.abort(id, reason);
        let alive = self.alive();
        self.touched.push(t);
        ctx.event(&format!("{what} abort t{t} -> {}{}", if r.is_ok() { "ok" } else { "err" }, if alive { "" } else { " (node dead)" }));
        if r.is_ok() && alive {
            if before == Some(TxPhase::Committing) && self.recs[&t].outcome.is_none() {
                ctx.probe("abort_accepted_on_committing_tx");
                self.observe("observation(decision logged, completion not logged: outside C13's clauses): abort() succeeded on a recovered transaction in phase Committing and logged it as aborted");
            }
            if unlogged_aborting && self.recs[&t].outcome.is_none() {
                ctx.probe("abort_of_tx_in_unlogged_aborting_phase");
                if self.recs[&t].prepared_logged {
                    ctx.probe("abort_of_prepared_tx_moved_to_aborting_by_recover");
                    self.recs.get_mut(&t).unwrap().aborted_after_unlogged_aborting = true;
                }
            }
            self.on_completed(c, t, false, true, "abort")?;
        } else if let (Err(e), true, true) = (&r, alive, before.is_some()) {
            self.on_failed_decision(t, "abort", &e.to_string());
        }
        Ok(())
    }

    fn exec(&mut self, c: &Arc<DistributedTxCoordinator>, step: &Step, i: usize) -> Result<(), Violation> {
        let ctx = self.ctx;
        match step {
            Step::Begin { t, n, kb } => {
                let pal: [usize; 3] = match self.case.shard_pal % 4 {
                    0 => [0, 1, 2],
                    1 => [1, 65, 129],
                    2 => [0, 250, 70_000],
                    _ => [7, 4_294_967_303, 1 << 40],
                };
                let parts: Vec<usize> = pal[..(*n).clamp(1, 3) as usize].to_vec();
                self.begin(c, *t, parts, *kb, i);
            },
            Step::BeginWide { t, n, base, kb } => {
                let n = (*n).clamp(1, 300_000) as usize;
                let base = *base as usize;
                let parts: Vec<usize> = (0..n).map(|j| base.wrapping_add(j)).collect();
                self.begin(c, *t, parts, *kb, i);
            },
            Step::Par { threads, schedule, ahead } => self.par(c, threads, schedule, *ahead, i)?,
            Step::Vote { t, s, v } => {
                let Some(rec) = self.recs.get(t).cloned() else { return Ok(()) };
                // participant number (selects the key) and its shard id
                let pnum = *s as usize % rec.parts.len();
                let shard = rec.parts[pnum];
                let live_phase = c.get(rec.id).map(|x| x.phase);
                let prev = rec.last_vote.get(&shard).cloned();
                let numbering = self.case.handle_numbering;
                let counter = self.next_handle.clone();
                let fabricated_yes = |id: u64| PrepareVote::Yes {
                    // a handle nobody holds a lock under (late / duplicate messages take no lock)
                    lock_handle: Self::free_handle(numbering, &counter, id),
                    delta: DeltaVector::zero(0),
                };
                let mut real_lock: Option<u64> = None;
                let first_yes = |me: &mut Self, real_lock: &mut Option<u64>| -> Result<PrepareVote, Violation> {
                    if live_phase == Some(TxPhase::Preparing) && prev.is_none() {
                        let mut vote = c.handle_prepare(&Self::prepare_request(rec.id, rec.kb, pnum));
                        match &mut vote {
                            PrepareVote::Yes { lock_handle, .. } => {
                                *real_lock = Some(*lock_handle);
                                if numbering == 1 {
                                    // the participant names its lock by its own number
                                    *lock_handle = counter.fetch_add(1, Ordering::Relaxed);
                                }
                            },
                            PrepareVote::Conflict { conflicting_tx, .. } => {
                                me.ctx.probe("lock_conflict_vote");
                                // "locks of completed transactions are released" / "forgotten
                                //  without leaving locks behind": a prepare must never conflict
                                //  with a completed or forgotten transaction
                                if let Some(ot) = me.slot_of(*conflicting_tx) {
                                    let o = &me.recs[&ot];
                                    // (a completion logged by a call that returned Err in this very
                                    //  incarnation is un-acknowledged: nothing is said about its locks
                                    //  before the restart)
                                    let unacked = o.err_logged && o.outcome.map(|x| x.1) == Some(me.inc);
                                    if (o.outcome.is_some() && !unacked) || o.forgotten {
                                        return Err(viol(
                                            "lock-left-behind",
                                            format!(
                                                "prepare of t{t} participant {pnum} on key {} conflicts with t{ot}, which is {}",
                                                Self::key(rec.kb, pnum),
                                                if o.forgotten { "forgotten" } else { "completed" }
                                            ),
                                        ));
                                    }
                                }
                            },
                            _ => {},
                        }
                        Ok(vote)
                    } else {
                        Ok(fabricated_yes(rec.id))
                    }
                };
                let vote = match v {
                    V::Yes => first_yes(self, &mut real_lock)?,
                    V::No => PrepareVote::No { reason: "scripted".to_string() },
                    V::Resend => match &prev {
                        Some(p) => p.clone(),
                        None => first_yes(self, &mut real_lock)?,
                    },
                    V::Flip => match &prev {
                        Some(PrepareVote::Yes { .. }) => PrepareVote::No { reason: "scripted flip".to_string() },
                        Some(_) => fabricated_yes(rec.id),
                        None => PrepareVote::No { reason: "scripted".to_string() },
                    },
                };
                let (is_yes, handle) = vote_yes_handle(&vote);
                let r = c.record_vote(rec.id, shard, vote.clone());
                let alive = self.alive();
                self.touched.push(*t);
                // under a size limit `record_vote` answers Ok(None) as well when the append of the
                // vote was refused and the vote dropped: un-acknowledged, the ledger does not count it
                let dropped = alive
                    && matches!(r, Ok(None))
                    && self.limit_in_force().is_some()
                    && !c.get(rec.id).map(|x| x.votes.contains_key(&shard)).unwrap_or(false);
                let res = match &r {
                    Ok(None) if dropped => "dropped (append refused)".to_string(),
                    Ok(None) => "accepted".to_string(),
                    Ok(Some(p)) => format!("accepted->{}", phase_name(*p)),
                    Err(VoteRecordError::TxNotFound(_)) => "notfound".to_string(),
                    Err(VoteRecordError::WrongPhase { actual, .. }) => format!("wrongphase:{}", phase_name(*actual)),
                    Err(VoteRecordError::DuplicateVote { .. }) => "duplicate".to_string(),
                };
                ctx.event(&format!("s{i} vote t{t} p{pnum} {v:?} yes={is_yes} -> {res}{}", if alive { "" } else { " (node dead)" }));
                match r {
                    Ok(_) if dropped => {
                        ctx.probe("vote_dropped_on_refused_append");
                        // the scripted participant gives up the lock of a vote that was not taken
                        if let Some(h) = real_lock {
                            c.lock_manager().release_by_handle(h);
                        }
                    },
                    Ok(p) => {
                        let rec = self.recs.get_mut(t).unwrap();
                        rec.votes.entry(shard).or_insert((is_yes, handle));
                        rec.last_vote.insert(shard, vote);
                        if alive && p == Some(TxPhase::Prepared) {
                            rec.prepared_logged = true;
                            ctx.probe("prepared_acked");
                        }
                    },
                    Err(e) => {
                        match e {
                            VoteRecordError::TxNotFound(_) => ctx.probe("vote_logged_for_unknown_tx"),
                            VoteRecordError::WrongPhase { .. } => ctx.probe("late_vote"),
                            VoteRecordError::DuplicateVote { .. } => ctx.probe("duplicate_vote"),
                        }
                        if prev.is_some() && vote_yes_handle(prev.as_ref().unwrap()).0 != is_yes {
                            ctx.probe("flipped_vote_rejected");
                        }
                        // the scripted participant gives up the lock of a vote the coordinator refused
                        if let Some(h) = real_lock {
                            c.lock_manager().release_by_handle(h);
                        }
                    },
                }
            },
            Step::Commit { t } => self.commit_step(c, *t, &format!("s{i}"))?,
            Step::Abort { t } => self.abort_step(c, *t, "scripted abort", &format!("s{i}"))?,
            Step::Advance { ms } => {
                ctx.advance_ms(u64::from(*ms));
                ctx.event(&format!("s{i} advance {ms}ms"));
            },
            Step::Sweep => self.sweep(c, &format!("s{i}"))?,
            Step::Aborts => {
                let before = self.net.lock().unwrap().inflight.len();
                now_or_never(c.process_pending_aborts(&*self.transport));
                let mut g = self.net.lock().unwrap();
                let ids: Vec<u64> = g.inflight[before..]
                    .iter()
                    .filter_map(|m| if let Message::TxAbort(a) = &m.msg { Some(a.tx_id) } else { None })
                    .collect();
                g.inflight.clear();
                drop(g);
                let mut slots: Vec<u8> = ids.iter().filter_map(|id| self.slot_of(*id)).collect();
                slots.sort_unstable();
                slots.dedup();
                for t in &slots {
                    self.recs.get_mut(t).unwrap().abort_sent = true;
                    self.touched.push(*t);
                }
                if !slots.is_empty() {
                    ctx.probe("abort_broadcast_sent");
                }
                ctx.event(&format!("s{i} process_pending_aborts -> abort messages for {slots:?}"));
            },
            Step::Decide => {
                let mut ds: Vec<(u8, TxPhase)> =
                    c.get_pending_decisions().into_iter().filter_map(|(id, p)| self.slot_of(id).map(|t| (t, p))).collect();
                ds.sort_by_key(|d| d.0);
                ctx.event(&format!("s{i} decide {:?}", ds.iter().map(|(t, p)| format!("t{t}:{}", phase_name(*p))).collect::<Vec<_>>()));
                for (t, p) in ds {
                    self.drive(c, t, p, &format!("s{i} decide"))?;
                }
            },
            Step::DriveAll => {
                let slots: Vec<u8> = self.recs.keys().copied().collect();
                for t in slots {
                    let id = self.recs[&t].id;
                    if let Some(tx) = c.get(id) {
                        self.drive(c, t, tx.phase, &format!("s{i} drive"))?;
                    }
                }
            },
            Step::Recover => {
                let before = self.live_phases(c);
                let st = c.recover();
                ctx.event(&format!(
                    "s{i} recover() prepare={} commit={} abort={} timed_out={} completed={}",
                    st.pending_prepare, st.pending_commit, st.pending_abort, st.timed_out, st.completed
                ));
                // `recover` logs nothing: from here on the phase in memory and the phase in the
                // log differ for the transactions it moved (probe bookkeeping only)
                ctx.probe("live_recover_call");
                for (t, p0) in &before {
                    let p1 = c.get(self.recs[t].id).map(|x| x.phase);
                    match (p0, p1) {
                        (TxPhase::Prepared, Some(TxPhase::Aborting)) => {
                            ctx.probe("live_recover_moved_prepared_to_aborting_after_timeout");
                            if self.inc > 0 {
                                ctx.probe("live_recover_moved_restored_prepared_to_aborting_after_timeout");
                            }
                        },
                        (TxPhase::Prepared, Some(TxPhase::Committing)) => ctx.probe("live_recover_moved_prepared_to_committing"),
                        (TxPhase::Preparing, Some(TxPhase::Aborting)) => ctx.probe("live_recover_moved_collecting_to_aborting_after_timeout"),
                        _ => {},
                    }
                }
            },
            Step::RecoverWal => {
                let before = self.live_phases(c);
                let r = {
                    // restored transactions are built with a generated id (overwritten by the logged one)
                    let _g = id_shared();
                    c.recover_from_wal()
                };
                if !self.alive() {
                    ctx.event(&format!("s{i} live recover_from_wal (node dead)"));
                    return Ok(());
                }
                // "recover_from_wal succeeds on every log the coordinator wrote itself"
                let st = r.map_err(|e| viol("recover-failed", format!("s{i}: recover_from_wal on the running coordinator (its own log) failed: {e}")))?;
                ctx.probe("live_recover_from_wal");
                if self.inc > 0 {
                    ctx.probe("live_recover_from_wal_in_later_incarnation");
                }
                let mut pend: Vec<String> = Vec::new();
                let slots: Vec<u8> = self.recs.keys().copied().collect();
                for t in slots {
                    let (id, volatile) = (self.recs[&t].id, self.recs[&t].volatile);
                    let p1 = c.get(id).map(|x| x.phase);
                    if let Some(p) = p1 {
                        pend.push(format!("t{t}:{}", phase_name(p)));
                    }
                    match (before.get(&t), p1) {
                        (None, Some(_)) => {
                            // dropped from memory without a log record (timeout sweep, complete_*): back from the log
                            ctx.probe("live_recover_from_wal_brought_back_dropped_tx");
                            if volatile {
                                self.observe("observation(completion not logged, outside C13's clauses): recover_from_wal on the running coordinator brought back a transaction that complete_commit/complete_abort/cleanup_timeouts had finished in memory");
                            }
                        },
                        (Some(p0), Some(p)) if *p0 != p => ctx.probe("live_recover_from_wal_reset_phase_changed_in_memory"),
                        (Some(p0), None) => {
                            // the recovery call made the running coordinator forget a transaction
                            // it was tracking: "forgotten without leaving locks behind"
                            ctx.probe("live_recover_from_wal_forgot_tracked_tx");
                            self.check_no_locks(
                                c,
                                t,
                                "forgotten-tx-left-locks",
                                &format!("s{i}: recover_from_wal on the running coordinator dropped t{t} (it was {} in memory)", phase_name(*p0)),
                            )?;
                        },
                        (Some(_), Some(_)) if c.get(id).is_some_and(|x| x.phase == TxPhase::Preparing) => ctx.probe("live_recover_from_wal_beside_tx_collecting_votes"),
                        _ => {},
                    }
                }
                ctx.event(&format!(
                    "s{i} live recover_from_wal prepare={} commit={} abort={} orphan_locks={}; pending={pend:?}",
                    st.pending_prepare, st.pending_commit, st.pending_abort, st.lock_releases_recovered
                ));
            },
            Step::Resolve { policy } => {
                let mut ds: Vec<(u8, TxPhase)> =
                    c.get_pending_decisions().into_iter().filter_map(|(id, p)| self.slot_of(id).map(|t| (t, p))).collect();
                ds.sort_by_key(|d| d.0);
                ctx.event(&format!(
                    "s{i} resolve(policy {policy}) {:?}",
                    ds.iter().map(|(t, p)| format!("t{t}:{}", phase_name(*p))).collect::<Vec<_>>()
                ));
                if policy & 4 != 0 {
                    ds.truncate(1);
                }
                for (t, p) in ds {
                    if !self.alive() {
                        break;
                    }
                    match p {
                        TxPhase::Aborting if policy & 1 != 0 => {
                            ctx.probe("pending_abort_decision_resolved_by_abort");
                            self.abort_step(c, t, "pending decision", &format!("s{i} resolve"))?;
                        },
                        TxPhase::Committing if policy & 2 != 0 => {
                            self.commit_step(c, t, &format!("s{i} resolve"))?;
                            if self.alive() && c.get(self.recs[&t].id).map(|x| x.phase) == Some(TxPhase::Committing) {
                                self.drive(c, t, TxPhase::Committing, &format!("s{i} resolve"))?;
                            }
                        },
                        _ => self.drive(c, t, p, &format!("s{i} resolve"))?,
                    }
                }
            },
            Step::Fill { n, seed } => self.fill(c, *n, *seed, i),
            Step::Restart => {},
        }
        Ok(())
    }

    /// A `Fill` step: `n` further small transactions outside the ledger (see `Step::Fill`).
    fn fill(&mut self, c: &DistributedTxCoordinator, n: u16, seed: u64, i: usize) {
        let ctx = self.ctx;
        let mut r = Rng::new(seed);
        let numbering = self.case.handle_numbering;
        let (mut begun, mut committed, mut aborted, mut left_open) = (0u32, 0u32, 0u32, 0u32);
        for _ in 0..n {
            if !self.alive() {
                break;
            }
            let np = r.range(1, 5) as usize;
            let base = *r.pick(&[0usize, 0, 250, 70_000]);
            let parts: Vec<usize> = (0..np).map(|j| base + j).collect();
            let shape = r.below(24);
            let all_yes = r.chance(3, 4);
            let tx = {
                let _g = id_exclusive();
                ctx.step_wall_ms(7);
                let _ = tensor_chain::generate_tx_id();
                ctx.step_wall_ms(-7);
                c.begin(&"coord".to_string(), &parts)
            };
            let Ok(tx) = tx else { continue };
            let id = tx.tx_id;
            begun += 1;
            if shape == 0 && left_open < 6 {
                // left collecting votes
                left_open += 1;
                continue;
            }
            let nvotes = if shape == 1 { r.usize_below(np) } else { np };
            for (j, shard) in parts.iter().enumerate() {
                if j >= nvotes || !self.alive() {
                    break;
                }
                let vote = if all_yes || j + 1 < np {
                    PrepareVote::Yes { lock_handle: Self::free_handle(numbering, &self.next_handle, id), delta: DeltaVector::zero(0) }
                } else {
                    PrepareVote::No { reason: "scripted".to_string() }
                };
                let _ = c.record_vote(id, *shard, vote);
            }
            if !self.alive() {
                break;
            }
            let phase = c.get(id).map(|x| x.phase);
            if shape == 2 && left_open < 6 && phase == Some(TxPhase::Prepared) {
                // left with all its votes and no decision
                left_open += 1;
                continue;
            }
            if phase == Some(TxPhase::Prepared) && r.chance(2, 3) {
                if c.commit(id).is_ok() {
                    committed += 1;
                }
            } else if c.abort(id, "filler").is_ok() {
                aborted += 1;
            }
        }
        if self.alive() {
            let len = std::fs::metadata(&self.wal).map(|m| m.len()).unwrap_or(0);
            if len > 32 * 1024 {
                ctx.probe("log_filled_past_32KiB");
            }
            ctx.event(&format!("s{i} fill n{n}: begun {begun}, committed {committed}, aborted {aborted}, left open {left_open}; log {len} bytes"));
        } else {
            ctx.event(&format!("s{i} fill n{n}: node died after {begun} transactions"));
        }
    }

    /// A `Par` step: the threads' operations run concurrently on the coordinator
    /// under the baton scheduler (switches at the harness's `c13.op` points and at
    /// every `tensor_chain.` lock acquisition). The threads only call the
    /// coordinator and note what it answered; the ledger is brought up to date
    /// afterwards, in the order in which the calls returned — the same rules as
    /// for the sequential steps.
    fn par(&mut self, c: &Arc<DistributedTxCoordinator>, threads: &[Vec<POp>], schedule: &[u8], ahead: bool, i: usize) -> Result<(), Violation> {
        let ctx = self.ctx;
        let nthreads = threads.len().min(4);
        if nthreads == 0 {
            return Ok(());
        }
        let snapshot: Arc<BTreeMap<u8, ParTx>> = Arc::new(
            self.recs
                .iter()
                .map(|(t, r)| {
                    let voted = r.last_vote.keys().filter_map(|sh| r.parts.iter().position(|p| p == sh)).collect();
                    (*t, ParTx { id: r.id, parts: r.parts.clone(), kb: r.kb, voted })
                })
                .collect(),
        );
        // transactions that were completed or forgotten before the step started
        let inc_now = self.inc;
        let done_before: BTreeSet<u8> = self
            .recs
            .iter()
            .filter(|(_, r)| (r.outcome.is_some() && !(r.err_logged && r.outcome.map(|x| x.1) == Some(inc_now))) || r.forgotten)
            .map(|(t, _)| *t)
            .collect();
        let results: Arc<Mutex<Vec<ParResult>>> = Arc::new(Mutex::new(Vec::new()));
        let numbering = self.case.handle_numbering;
        // (slot, participant number) -> (vote, handle of the real lock) prepared ahead of the threads
        let mut prepared: BTreeMap<(u8, usize), (PrepareVote, Option<u64>)> = BTreeMap::new();
        if ahead {
            for op in threads.iter().take(nthreads).flatten() {
                let POp::Vote { t, s, yes: true } = op else { continue };
                let Some(tx) = snapshot.get(t) else { continue };
                let pnum = *s as usize % tx.parts.len();
                if tx.voted.contains(&pnum) || prepared.contains_key(&(*t, pnum)) || c.get(tx.id).map(|x| x.phase) != Some(TxPhase::Preparing) {
                    continue;
                }
                let mut v = c.handle_prepare(&Self::prepare_request(tx.id, tx.kb, pnum));
                let mut real_lock = None;
                if let PrepareVote::Yes { lock_handle, .. } = &mut v {
                    real_lock = Some(*lock_handle);
                    if numbering == 1 {
                        *lock_handle = self.next_handle.fetch_add(1, Ordering::Relaxed);
                    }
                }
                prepared.insert((*t, pnum), (v, real_lock));
            }
            ctx.probe("par_votes_prepared_ahead");
        }
        let prepared = Arc::new(prepared);
        // the case's schedule; past its end every pick is STAY (the running thread goes on
        // until it is done or has to wait for a lock, then the lowest runnable one: the
        // scheduler never re-picks a thread that spins on a held lock before another ran)
        let schedule: &[u8] = match &self.par_override {
            Some((at, sc)) if *at == i => sc,
            _ => schedule,
        };
        let sched_full = schedule.to_vec();
        let bodies: Vec<crate::sched::Body> = threads
            .iter()
            .take(nthreads)
            .enumerate()
            .map(|(k, prog)| {
                let prog = prog.clone();
                let c = c.clone();
                let snapshot = snapshot.clone();
                let results = results.clone();
                let counter = self.next_handle.clone();
                let ctx = ctx.clone();
                let prepared = prepared.clone();
                let limited = self.limit_in_force().is_some();
                let wal_path = self.wal.clone();
                Box::new(move || {
                    let mut sent: BTreeSet<(u8, usize)> = BTreeSet::new();
                    for op in &prog {
                        let slot = match op {
                            POp::Vote { t, .. } | POp::Commit { t } | POp::Abort { t } => *t,
                        };
                        let Some(tx) = snapshot.get(&slot) else { continue };
                        let mut res = ParResult { thread: k, op: op.clone(), vote: None, vote_res: None, ok: false, alive: true, dropped: false, err: None };
                        match op {
                            POp::Vote { s, yes, .. } => {
                                let pnum = *s as usize % tx.parts.len();
                                let shard = tx.parts[pnum];
                                let mut real_lock = None;
                                let vote = if !*yes {
                                    PrepareVote::No { reason: "scripted".to_string() }
                                } else if let (Some((v, real)), true) = (prepared.get(&(slot, pnum)), sent.insert((slot, pnum))) {
                                    real_lock = *real;
                                    v.clone()
                                } else if !ahead && !tx.voted.contains(&pnum) && c.get(tx.id).map(|x| x.phase) == Some(TxPhase::Preparing) {
                                    let mut v = c.handle_prepare(&Self::prepare_request(tx.id, tx.kb, pnum));
                                    if let PrepareVote::Yes { lock_handle, .. } = &mut v {
                                        real_lock = Some(*lock_handle);
                                        if numbering == 1 {
                                            *lock_handle = counter.fetch_add(1, Ordering::Relaxed);
                                        }
                                    }
                                    v
                                } else {
                                    PrepareVote::Yes { lock_handle: Self::free_handle(numbering, &counter, tx.id), delta: DeltaVector::zero(0) }
                                };
                                let r = c.record_vote(tx.id, shard, vote.clone());
                                res.alive = !ctx.is_dead(NODE);
                                res.dropped = limited
                                    && res.alive
                                    && matches!(r, Ok(None))
                                    && !c.get(tx.id).map(|x| x.votes.contains_key(&shard)).unwrap_or(false);
                                if r.is_err() || res.dropped {
                                    // the scripted participant gives up the lock of a vote the coordinator refused
                                    if let Some(h) = real_lock {
                                        c.lock_manager().release_by_handle(h);
                                    }
                                }
                                res.ok = r.is_ok();
                                res.vote = Some((pnum, shard, vote, real_lock));
                                res.vote_res = Some(r);
                            },
                            POp::Commit { .. } => {
                                let known = c.get(tx.id).is_some();
                                let r = c.commit(tx.id);
                                res.ok = r.is_ok();
                                res.alive = !ctx.is_dead(NODE);
                                res.err = r.err().filter(|_| known && res.alive).map(|e| (e.to_string(), Self::logged_about(&Self::read_log(&wal_path), tx.id)));
                            },
                            POp::Abort { .. } => {
                                let known = c.get(tx.id).is_some();
                                let r = c.abort(tx.id, "scripted abort");
                                res.ok = r.is_ok();
                                res.alive = !ctx.is_dead(NODE);
                                res.err = r.err().filter(|_| known && res.alive).map(|e| (e.to_string(), Self::logged_about(&Self::read_log(&wal_path), tx.id)));
                            },
                        }
                        results.lock().unwrap().push(res);
                        crate::sched::yield_point("c13.op");
                    }
                }) as crate::sched::Body
            })
            .collect();
        let sr = crate::sched::run_threads(ctx, &sched_full, 200_000, bodies);
        if sr.exhausted || !sr.panics.is_empty() {
            self.harness_error = Some(format!("scheduler: exhausted={} steps={} panics={:?}", sr.exhausted, sr.steps, sr.panics));
            return Ok(());
        }
        self.par_steps.push((i, nthreads, sr.steps));
        ctx.probe("par_block_run");
        if sr.switches > 0 {
            ctx.probe("par_threads_interleaved");
        }
        for (site, n) in &sr.preempted_at {
            if *n > 0 {
                match *site {
                    "tensor_chain.lock" => ctx.probe("par_preempted_at_lock_acquisition"),
                    "tensor_chain.lock.wait" => ctx.probe("par_preempted_while_waiting_for_held_lock"),
                    _ => {},
                }
            }
        }
        ctx.event(&format!("s{i} par: {nthreads} threads, {} scheduler steps, {} switches", sr.steps, sr.switches));
        let results = std::mem::take(&mut *results.lock().unwrap());
        let mut voters_of: BTreeMap<u8, BTreeSet<usize>> = BTreeMap::new();
        for r in results {
            let k = r.thread;
            let dead = if r.alive { "" } else { " (node dead)" };
            match &r.op {
                POp::Vote { t, .. } => {
                    let (pnum, shard, vote, _real) = r.vote.clone().unwrap();
                    let (is_yes, handle) = vote_yes_handle(&vote);
                    self.touched.push(*t);
                    let vr = r.vote_res.unwrap();
                    let txt = match &vr {
                        Ok(None) if r.dropped => "dropped (append refused)".to_string(),
                        Ok(None) => "accepted".to_string(),
                        Ok(Some(p)) => format!("accepted->{}", phase_name(*p)),
                        Err(VoteRecordError::TxNotFound(_)) => "notfound".to_string(),
                        Err(VoteRecordError::WrongPhase { actual, .. }) => format!("wrongphase:{}", phase_name(*actual)),
                        Err(VoteRecordError::DuplicateVote { .. }) => "duplicate".to_string(),
                    };
                    ctx.event(&format!("s{i} th{k} vote t{t} p{pnum} yes={is_yes} -> {txt}{dead}"));
                    if let PrepareVote::Conflict { conflicting_tx, .. } = &vote {
                        ctx.probe("lock_conflict_vote");
                        // "locks of completed transactions are released" / "forgotten without
                        //  leaving locks behind" — only against transactions that were completed
                        //  or forgotten before the threads started (one completed by another
                        //  thread of this step may still have held its lock when this prepare ran)
                        if let Some(ot) = self.slot_of(*conflicting_tx) {
                            if done_before.contains(&ot) {
                                return Err(viol(
                                    "lock-left-behind",
                                    format!(
                                        "prepare of t{t} participant {pnum} (thread {k}) conflicts with t{ot}, which was {} before the threads started",
                                        if self.recs[&ot].forgotten { "forgotten" } else { "completed" }
                                    ),
                                ));
                            }
                        }
                    }
                    match vr {
                        Ok(_) if r.dropped => ctx.probe("vote_dropped_on_refused_append"),
                        Ok(p) => {
                            let rec = self.recs.get_mut(t).unwrap();
                            rec.votes.entry(shard).or_insert((is_yes, handle));
                            rec.last_vote.insert(shard, vote);
                            voters_of.entry(*t).or_default().insert(k);
                            if r.alive && p == Some(TxPhase::Prepared) {
                                rec.prepared_logged = true;
                                ctx.probe("prepared_acked");
                                if voters_of[t].len() >= 2 {
                                    ctx.probe("par_prepared_by_votes_of_two_threads");
                                }
                            }
                        },
                        Err(e) => match e {
                            VoteRecordError::TxNotFound(_) => ctx.probe("vote_logged_for_unknown_tx"),
                            VoteRecordError::WrongPhase { .. } => ctx.probe("late_vote"),
                            VoteRecordError::DuplicateVote { .. } => ctx.probe("duplicate_vote"),
                        },
                    }
                },
                POp::Commit { t } | POp::Abort { t } => {
                    let committed = matches!(r.op, POp::Commit { .. });
                    let how = if committed { "commit" } else { "abort" };
                    self.touched.push(*t);
                    ctx.event(&format!("s{i} th{k} {how} t{t} -> {}{dead}", if r.ok { "ok" } else { "err" }));
                    if r.ok && r.alive {
                        ctx.probe("par_completion");
                        self.on_completed(c, *t, committed, true, how)?;
                    } else if let (Some((e, logged)), true) = (&r.err, r.alive) {
                        self.on_failed_decision_with(*t, how, e, *logged);
                    }
                },
            }
        }
        Ok(())
    }

    /// One step towards completion of a pending transaction.
    fn drive(&mut self, c: &DistributedTxCoordinator, t: u8, phase: TxPhase, what: &str) -> Result<(), Violation> {
        let id = self.recs[&t].id;
        let prepared_logged = self.recs[&t].prepared_logged;
        let (r, committed, logged, how) = match phase {
            TxPhase::Prepared => {
                if t % 2 == 0 {
                    (c.commit(id), true, true, "commit")
                } else {
                    (c.abort(id, "driven"), false, true, "abort")
                }
            },
            TxPhase::Committing => (c.complete_commit(id), true, false, "complete_commit"),
            TxPhase::Aborting => (c.complete_abort(id), false, false, "complete_abort"),
            _ => return Ok(()),
        };
        let alive = self.alive();
        self.touched.push(t);
        self.ctx.event(&format!(
            "{what} t{t} {} via {how} -> {}{}",
            phase_name(phase),
            if r.is_ok() { "ok" } else { "err" },
            if alive { "" } else { " (node dead)" }
        ));
        if !alive {
            return Ok(());
        }
        match r {
            Ok(()) => {
                if self.inc > 0 {
                    self.ctx.probe("recovered_tx_driven_to_completion");
                }
                self.on_completed(c, t, committed, logged, how)
            },
            Err(e) => {
                let msg = e.to_string();
                if logged {
                    self.on_failed_decision(t, how, &msg);
                }
                // relaxation: under a size limit the log may refuse the records of the decision;
                // the call is un-acknowledged and the transaction stays pending ("can be driven to
                // completion" does not promise a completion the log has no room for)
                if self.limit_in_force().is_some() && msg.contains("WAL write failed") {
                    self.ctx.probe("drive_failed_on_refused_append");
                    return Ok(());
                }
                // "Transactions that had collected all votes but no outcome come back with
                //  those votes and can be driven to completion"
                if prepared_logged && self.recs[&t].outcome.is_none() {
                    return Err(viol(
                        "prepared-tx-cannot-complete",
                        format!("{what}: t{t} is pending in phase {} but {how} failed: {e}", phase_name(phase)),
                    ));
                }
                Ok(())
            },
        }
    }

    fn sweep(&mut self, c: &DistributedTxCoordinator, what: &str) -> Result<(), Violation> {
        let phases: BTreeMap<u8, TxPhase> =
            self.recs.iter().filter_map(|(t, r)| c.get(r.id).map(|x| (*t, x.phase))).collect();
        let ids = c.cleanup_timeouts();
        let mut slots: Vec<u8> = ids.iter().filter_map(|id| self.slot_of(*id)).collect();
        slots.sort_unstable();
        self.ctx.event(&format!("{what} cleanup_timeouts -> {slots:?}"));
        for t in slots {
            let inc = self.inc;
            let rec = self.recs.get_mut(&t).unwrap();
            // "a transaction completed as committed is never afterwards aborted or timed out"
            if let Some((true, inc0)) = rec.outcome {
                let detail = format!("{what}: t{t} was completed as committed (logged in incarnation {inc0}); cleanup_timeouts in incarnation {inc} lists it as timed out");
                if inc0 < inc {
                    return Err(viol("committed-then-timed-out", detail));
                }
                // timed out by the incarnation that logged the completion: judged at the next
                // restart from this log (see `on_completed`)
                self.ctx.probe("logged_completion_reversed_before_restart");
                self.deferred.push(("committed-then-timed-out", detail));
            }
            rec.volatile = true;
            rec.swept = true;
            self.ctx.probe("tx_timed_out");
            if !self.case.configs.is_empty() && cfg_of(self.case, inc).prepare_timeout_ms != 5000 {
                self.ctx.probe("tx_timed_out_under_configured_timeout");
            }
            if inc > 0 && phases.get(&t) == Some(&TxPhase::Committing) {
                self.ctx.probe("sweep_over_recovered_committing");
                self.observe("observation(decision logged, completion not logged: outside C13's clauses): a recovered transaction in phase Committing was timed out by cleanup_timeouts and an abort broadcast queued");
            }
            if phases.get(&t) == Some(&TxPhase::Prepared) {
                self.ctx.probe("sweep_over_prepared");
            }
        }
        Ok(())
    }

    /// Restart the coordinator. `crash` = Some(cut) after a crash (power-loss model).
    fn restart(
        &mut self,
        old: Arc<DistributedTxCoordinator>,
        crash: Option<u64>,
        next: Option<&CrashSpec>,
        what: &str,
    ) -> Result<Arc<DistributedTxCoordinator>, Violation> {
        let ctx = self.ctx;
        drop(old);
        if let Some(cut) = crash {
            self.crashes_fired += 1;
            ctx.fault_fired("crash");
            if let Some(ev) = ctx.crash_fired() {
                ctx.fp(&format!("crash:{}", ev.kind));
                match ev.kind {
                    "write" => {
                        ctx.probe("crash_inside_log_write");
                        if ev.len >= 64 * 1024 {
                            ctx.probe("crash_inside_log_record_of_64KiB_or_more");
                        }
                    },
                    "fsync" => ctx.probe("crash_before_fsync"),
                    "ftruncate" => ctx.probe("crash_inside_tail_repair"),
                    _ => {},
                }
                ctx.event(&format!("crash fired at {} len={} ({what})", ev.kind, ev.len));
            } else {
                ctx.event(&format!("node killed ({what})"));
            }
            let cuts = ctx.crash_image(NODE, true, |_p, lo, hi| cut_choice(cut, lo, hi));
            for (_p, old_len, new_len) in &cuts {
                if new_len < old_len {
                    ctx.fault_fired("power_loss_cut");
                }
            }
            self.inflight.append(&mut self.touched.clone());
            self.touched.clear();
        }
        self.inc += 1;
        // a new process: the participants' handle numbering starts again
        self.next_handle.store(1, Ordering::Relaxed);
        if self.inc >= 2 {
            ctx.probe("second_restart");
        }
        if self.inc >= 3 {
            ctx.probe("third_restart");
        }
        if let Some(n) = next {
            ctx.arm_crash(NODE, n.nth, n.bytes);
        }
        let raw = std::fs::read(&self.wal).unwrap_or_default();
        let (nframes, frames_end, longest) = frames(&raw);
        if longest >= 64 * 1024 {
            ctx.probe("restart_over_log_record_of_64KiB_or_more");
        }
        if longest >= 512 * 1024 {
            ctx.probe("restart_over_log_record_of_512KiB_or_more");
        }
        let torn = frames_end < raw.len();
        let (straddles, last_is_complete, last_crc_zero) = log_shape(&raw);
        if raw.len() > 32 * 1024 {
            ctx.probe("restart_over_log_longer_than_32KiB");
        }
        if raw.len() > 128 * 1024 && longest < 1024 {
            ctx.probe("restart_over_log_of_small_records_longer_than_128KiB");
        }
        if straddles {
            ctx.probe("restart_over_record_header_straddling_32KiB_boundary");
        }
        if torn && last_is_complete {
            ctx.probe("torn_record_follows_txcomplete");
            if last_crc_zero {
                ctx.probe("torn_record_follows_txcomplete_written_without_checksum");
            }
        }
        if torn && last_crc_zero {
            ctx.probe("reopen_with_torn_tail_behind_record_without_checksum");
        }
        if let Some(l) = self.torn_open_len.take() {
            if raw.len() as u64 > l {
                ctx.probe("torn_tail_then_append_then_restart");
            }
        }
        if torn {
            ctx.probe("reopen_with_torn_tail");
        }
        if self.limit.is_some() {
            ctx.probe(if self.limit_in_force().is_some() { "restart_under_size_limit" } else { "size_limit_lifted_at_restart" });
        }
        let wal = match self.open_wal() {
            Ok(w) => w,
            // the (next) crash fired inside this very open: what the dead process sees does not count
            Err(_) if !self.alive() => return Ok(Arc::new(self.placeholder())),
            Err(e) => {
                return Err(viol("wal-open-failed", format!("{what}: TxWal::open on a log the coordinator wrote itself failed: {e}")))
            },
        };
        if torn {
            self.torn_open_len = Some(std::fs::metadata(&self.wal).map(|m| m.len()).unwrap_or(0));
        }
        // the log as recovery will see it (used to decide what the call cut by the crash had logged)
        let entries = wal.replay();
        let c = Arc::new(self.placeholder().with_wal(wal));
        let open_in_log = entries
            .as_ref()
            .map(|e| {
                let st = TxRecoveryState::from_entries(e);
                st.prepared_txs.len() + st.committing_txs.len() + st.aborting_txs.len()
            })
            .unwrap_or(0);
        let restores = entries.as_ref().map(|_| open_in_log > 0);
        if !self.case.log_cfgs.is_empty() {
            let lc = log_cfg_of(self.case, self.inc);
            ctx.event(&format!("restart #{} log switches: {}", self.inc, lc.show()));
            if lc != log_cfg_of(self.case, self.inc - 1) {
                ctx.probe("log_switches_changed_at_restart");
            }
        }
        if !self.case.configs.is_empty() {
            let cfg = cfg_of(self.case, self.inc);
            ctx.event(&format!("restart #{} configuration: {}", self.inc, cfg.show()));
            if cfg != cfg_of(self.case, self.inc - 1) {
                ctx.probe("configuration_changed_at_restart");
            }
            if open_in_log > cfg.max_concurrent as usize {
                ctx.probe("restart_with_more_open_txs_in_log_than_max_concurrent");
            }
        }
        let stats = {
            let _g = if restores.unwrap_or(false) { Some(id_shared()) } else { None };
            c.recover_from_wal()
        };
        if !self.alive() {
            // the (next) crash fired during the restart itself: nothing this incarnation did counts
            ctx.event(&format!("restart #{} died during open/recovery", self.inc));
            return Ok(c);
        }
        // "recover_from_wal succeeds on every log the coordinator wrote itself" (a coordinator
        //  that cannot be restarted from its log preserves nothing)
        let stats = stats.map_err(|e| {
            viol("recover-failed", format!("{what}: recover_from_wal on a log the coordinator wrote itself failed: {e} (log {} bytes, {} complete frames, torn tail: {torn})", raw.len(), nframes))
        })?;
        let entries = entries.map_err(|e| viol("recover-failed", format!("{what}: TxWal::replay failed: {e}")))?;
        if entries.len() < nframes {
            return Err(viol(
                "complete-record-dropped",
                format!("{what}: the log holds {nframes} complete records before the restart but replay after open returns {}", entries.len()),
            ));
        }
        // decide what the calls cut by the crash had logged
        let inflight = std::mem::take(&mut self.inflight);
        for t in inflight {
            let Some(rec) = self.recs.get_mut(&t) else { continue };
            let id = rec.id;
            let mut prepared = false;
            let mut aborting = false;
            let mut committing = false;
            let mut complete: Option<bool> = None;
            let mut released = false;
            for e in &entries {
                match e {
                    TxWalEntry::PhaseChange { tx_id, to, .. } if *tx_id == id => match to {
                        TxPhase::Prepared => prepared = true,
                        TxPhase::Aborting => aborting = true,
                        TxPhase::Committing => committing = true,
                        _ => {},
                    },
                    TxWalEntry::TxComplete { tx_id, outcome } if *tx_id == id => {
                        complete = Some(matches!(outcome, TxOutcome::Committed));
                    },
                    TxWalEntry::AllLocksReleased { tx_id } if *tx_id == id => released = true,
                    _ => {},
                }
            }
            if !rec.prepared_logged && prepared {
                rec.prepared_logged = true;
            }
            if rec.outcome.is_none() {
                if let Some(cm) = complete {
                    // the TxComplete record lies wholly inside the surviving log
                    rec.outcome = Some((cm, self.inc - 1));
                    ctx.probe("inflight_completion_found_in_log");
                    if cm && !released {
                        ctx.probe("crash_between_txcomplete_and_all_locks_released");
                    }
                } else if committing {
                    ctx.probe("crash_between_committing_and_txcomplete");
                } else if aborting && !rec.prepared_logged {
                    rec.loose = true;
                }
            }
        }
        // "a transaction completed as committed is never afterwards aborted or timed out, and
        //  one completed as aborted is never committed": reversals by the incarnation that had
        //  logged the completion itself. The coordinator has now been restarted from the log that
        //  holds the completion, which makes it "an outcome whose completion was logged before
        //  the crash"; the reversal lies afterwards in the transaction's history.
        if let Some((class, detail)) = self.deferred.first() {
            return Err(viol(class, format!("{detail}; {what}: the coordinator has now been restarted (restart #{}) from the log that holds that completion", self.inc)));
        }
        self.check_orphaned_locks(&entries, what)?;
        let mut pend: Vec<String> = Vec::new();
        for (t, r) in &self.recs {
            if let Some(tx) = c.get(r.id) {
                pend.push(format!("t{t}:{}", phase_name(tx.phase)));
            }
        }
        ctx.event(&format!(
            "restart #{} ({what}): log {} bytes, {} records, torn={torn}; recovered prepare={} commit={} abort={} orphan_locks={}; pending={pend:?}",
            self.inc,
            raw.len(),
            entries.len(),
            stats.pending_prepare,
            stats.pending_commit,
            stats.pending_abort,
            stats.lock_releases_recovered
        ));
        if self.case.recover_after_restart {
            let _ = c.recover();
            ctx.probe("recover_called_after_restart");
        }
        self.check_after_restart(&c, what)?;
        Ok(c)
    }

    /// "locks of completed transactions are released", decided on what recovery
    /// reports: the lock manager of a restarted coordinator is new, so the only
    /// trace of a lock that a completed transaction took and never gave back is the
    /// log, and the only thing recovery does about it is to name it as orphaned
    /// (`TxRecoveryState::orphaned_locks`, which `recover_from_wal` force-releases).
    /// For every transaction whose completion is logged, every lock its accepted YES
    /// votes named is either logged as released by that transaction (`LockRelease`
    /// with its id, or `AllLocksReleased`) or reported as orphaned for it. Handle
    /// values alone do not identify a lock: other transactions carry the same
    /// values under participant numbering (`handle_numbering = 1`).
    fn check_orphaned_locks(&mut self, entries: &[TxWalEntry], what: &str) -> Result<(), Violation> {
        let st = TxRecoveryState::from_entries(entries);
        let orphans: BTreeSet<(u64, u64)> = st.orphaned_locks.iter().map(|o| (o.tx_id, o.lock_handle)).collect();
        let mut released: BTreeSet<(u64, u64)> = BTreeSet::new();
        let mut fully: BTreeSet<u64> = BTreeSet::new();
        let mut seen_handles: BTreeMap<u64, u64> = BTreeMap::new();
        for e in entries {
            match e {
                TxWalEntry::LockRelease { tx_id, lock_handle } => {
                    released.insert((*tx_id, *lock_handle));
                },
                TxWalEntry::AllLocksReleased { tx_id } => {
                    fully.insert(*tx_id);
                },
                TxWalEntry::PrepareVote { tx_id, vote: tensor_chain::PrepareVoteKind::Yes { lock_handle }, .. } => {
                    if let Some(other) = seen_handles.insert(*lock_handle, *tx_id) {
                        if other != *tx_id {
                            self.ctx.probe("lock_handle_value_reused_by_another_tx");
                        }
                    }
                },
                _ => {},
            }
        }
        for (t, rec) in &self.recs {
            if rec.outcome.is_none() || fully.contains(&rec.id) {
                continue;
            }
            for (shard, (yes, h)) in &rec.votes {
                if !*yes || released.contains(&(rec.id, *h)) {
                    continue;
                }
                self.ctx.probe("unreleased_lock_of_completed_tx_at_restart");
                if released.iter().any(|(id, h2)| h2 == h && *id != rec.id) {
                    self.ctx.probe("unreleased_lock_shares_handle_value_with_released_lock");
                }
                if !orphans.contains(&(rec.id, *h)) {
                    return Err(viol(
                        "completed-tx-lock-not-released",
                        format!(
                            "{what}: t{t} is completed in the log; the lock of its YES vote from shard {shard} has neither a LockRelease record of t{t} nor is t{t} marked AllLocksReleased, and recovery does not report it as orphaned ({} orphaned locks reported), so nothing releases it",
                            orphans.len()
                        ),
                    ));
                }
            }
        }
        Ok(())
    }

    /// The property, clause by clause, on a freshly restarted coordinator.
    fn check_after_restart(&mut self, c: &DistributedTxCoordinator, what: &str) -> Result<(), Violation> {
        let inc = self.inc;
        let slots: Vec<u8> = self.recs.keys().copied().collect();
        for t in slots {
            let rec = self.recs[&t].clone();
            let live = c.get(rec.id);
            let live_phase = live.as_ref().map(|x| x.phase);
            if let Some((committed, inc0)) = rec.outcome {
                self.ctx.probe("completed_tx_checked_after_restart");
                if rec.aborted_after_unlogged_aborting && inc0 < inc {
                    self.ctx.probe("abort_logged_after_live_recover_checked_after_restart");
                }
                if committed {
                    // "a transaction completed as committed is never afterwards aborted or timed out"
                    if matches!(live_phase, Some(TxPhase::Aborting | TxPhase::Aborted)) {
                        return Err(viol(
                            "committed-tx-reported-aborting",
                            format!("{what}: t{t} was completed as committed (logged in incarnation {inc0}); after restart #{inc} it is pending in phase {}", phase_name(live_phase.unwrap())),
                        ));
                    }
                    if c.complete_abort(rec.id).is_ok() || c.abort(rec.id, "probe").is_ok() {
                        return Err(viol(
                            "committed-then-aborted",
                            format!(
                                "{what}: t{t} was completed as committed (logged in incarnation {inc0}); after restart #{inc} it came back as {} and abort succeeded",
                                live_phase.map(phase_name).unwrap_or("absent")
                            ),
                        ));
                    }
                } else {
                    // "one completed as aborted is never committed"
                    if matches!(live_phase, Some(TxPhase::Committing | TxPhase::Committed)) {
                        return Err(viol(
                            "aborted-tx-reported-committing",
                            format!("{what}: t{t} was completed as aborted (logged in incarnation {inc0}); after restart #{inc} it is pending in phase {}", phase_name(live_phase.unwrap())),
                        ));
                    }
                    if c.complete_commit(rec.id).is_ok() || c.commit(rec.id).is_ok() {
                        return Err(viol(
                            "aborted-then-committed",
                            format!(
                                "{what}: t{t} was completed as aborted (logged in incarnation {inc0}); after restart #{inc} it came back as {} and commit succeeded",
                                live_phase.map(phase_name).unwrap_or("absent")
                            ),
                        ));
                    }
                }
                // "locks of completed transactions are released"
                self.check_no_locks(c, t, "completed-tx-holds-lock", what)?;
            } else if rec.prepared_logged {
                // "Transactions that had collected all votes but no outcome come back with
                //  those votes and can be driven to completion" (completion is exercised by
                //  DriveAll / Decide / Commit / Abort steps and the epilogue)
                match live {
                    None => {
                        // relaxation: a transaction that was completed or timed out in memory
                        // without a log record may legitimately be known as finished by an
                        // implementation that logs those events
                        if !rec.volatile {
                            return Err(viol(
                                "prepared-tx-lost",
                                format!("{what}: t{t} had collected all votes (Prepared logged) and has no logged outcome, but is absent after restart #{inc}"),
                            ));
                        }
                    },
                    Some(tx) => {
                        self.ctx.probe("prepared_tx_recovered");
                        if rec.volatile {
                            self.ctx.probe("unlogged_completion_came_back");
                            self.observe("observation(completion not logged, outside C13's clauses): a transaction finished by complete_commit/complete_abort/cleanup_timeouts came back as pending after the next restart");
                        }
                        if !matches!(tx.phase, TxPhase::Prepared | TxPhase::Committing | TxPhase::Aborting) {
                            return Err(viol(
                                "prepared-tx-wrong-phase",
                                format!("{what}: t{t} (Prepared logged, no outcome) came back in phase {}", phase_name(tx.phase)),
                            ));
                        }
                        let mut got: BTreeMap<usize, (bool, u64)> = BTreeMap::new();
                        for (s, v) in &tx.votes {
                            got.insert(*s, vote_yes_handle(v));
                        }
                        let same_handles = got == rec.votes;
                        let same_answers = got.len() == rec.votes.len()
                            && got.iter().all(|(s, (y, _))| rec.votes.get(s).map(|(y0, _)| y0 == y).unwrap_or(false));
                        if !same_answers {
                            let show = |m: &BTreeMap<usize, (bool, u64)>| {
                                m.iter().map(|(s, (y, _))| format!("{s}:{}", if *y { "yes" } else { "no" })).collect::<Vec<_>>().join(",")
                            };
                            return Err(viol(
                                "prepared-tx-votes-differ",
                                format!("{what}: t{t} collected votes [{}] but came back with [{}]", show(&rec.votes), show(&got)),
                            ));
                        }
                        if !same_handles {
                            return Err(viol(
                                "prepared-tx-vote-handles-differ",
                                format!("{what}: t{t} came back with the right yes/no answers but different lock handles than the votes it had collected"),
                            ));
                        }
                        if tx.participants != *rec.parts {
                            let show = |p: &[usize]| format!("{} participants starting {:?}", p.len(), &p[..p.len().min(4)]);
                            return Err(viol(
                                "prepared-tx-participants-differ",
                                format!("{what}: t{t} came back with {}, begun with {}", show(&tx.participants), show(&rec.parts)),
                            ));
                        }
                    },
                }
            } else if rec.loose {
                // an abort of a still-collecting transaction was cut after its
                // PhaseChange->Aborting record: "still collecting votes" no longer
                // describes it and no completion was logged — no clause applies
                self.ctx.probe("inflight_abort_of_collecting_tx");
            } else {
                // "transactions still collecting votes are forgotten without leaving locks behind"
                if let Some(tx) = live {
                    return Err(viol(
                        "collecting-tx-restored",
                        format!("{what}: t{t} was still collecting votes (Prepared never logged) but is pending in phase {} after restart #{inc}", phase_name(tx.phase)),
                    ));
                }
                self.check_no_locks(c, t, "forgotten-tx-holds-lock", what)?;
                if !rec.forgotten {
                    self.ctx.probe("collecting_tx_forgotten");
                }
                self.recs.get_mut(&t).unwrap().forgotten = true;
            }
        }
        Ok(())
    }

    /// a coordinator (without log) with the configuration of the current incarnation
    fn placeholder(&self) -> DistributedTxCoordinator {
        DistributedTxCoordinator::new(ConsensusManager::new(ConsensusConfig::default()), cfg_of(self.case, self.inc).real())
    }

    fn start(&mut self) -> Result<Arc<DistributedTxCoordinator>, Violation> {
        let wal = match self.open_wal() {
            Ok(w) => w,
            // the crash fired inside this very open: what the dead process sees does not count
            Err(_) if !self.alive() => return Ok(Arc::new(self.placeholder())),
            Err(e) => return Err(viol("wal-open-failed", format!("first open: {e}"))),
        };
        if !self.case.configs.is_empty() {
            self.ctx.event(&format!("start configuration: {}", cfg_of(self.case, 0).show()));
            self.ctx.probe("non_default_coordinator_configuration");
        }
        if !self.case.log_cfgs.is_empty() {
            self.ctx.event(&format!("start log switches: {}", log_cfg_of(self.case, 0).show()));
        }
        let c = Arc::new(self.placeholder().with_wal(wal));
        // empty log: no transaction is restored, no id is generated
        let r = c.recover_from_wal();
        if self.alive() {
            r.map_err(|e| viol("recover-failed", format!("recover_from_wal on an empty log failed: {e}")))?;
        }
        Ok(c)
    }

    /// Run program + epilogue with the given chain of crashes. Returns the
    /// per-step syscall log when `record` is set.
    fn run(&mut self, crashes: &[CrashSpec], record: bool) -> (Result<(), Violation>, Vec<(usize, SysEvent)>) {
        let ctx = self.ctx;
        let mut syslog: Vec<(usize, SysEvent)> = Vec::new();
        let steps = full_steps_with(self.case, &self.extra);
        let mut crash_iter = crashes.iter();
        let mut cur_crash = crash_iter.next();
        if let Some(c) = cur_crash {
            ctx.arm_crash(NODE, c.nth, c.bytes);
        }
        if record {
            ctx.start_sys_recording();
        }
        let mut c = match self.start() {
            Ok(c) => c,
            Err(v) => return (Err(v), syslog),
        };
        let mut i = 0usize;
        loop {
            // a node that died (inside step i-1, or inside a restart) is restarted
            while !self.alive() {
                let cut = cur_crash.map(|c| c.cut).unwrap_or(0);
                cur_crash = crash_iter.next();
                let what = format!("after crash #{} at step {}", self.crashes_fired + 1, i.saturating_sub(1));
                c = match self.restart(c, Some(cut), cur_crash, &what) {
                    Ok(c) => c,
                    Err(v) => return (Err(v), syslog),
                };
                if record {
                    for e in ctx.take_sys_log() {
                        syslog.push((i, e));
                    }
                }
            }
            if i >= steps.len() {
                break;
            }
            self.touched.clear();
            ctx.fp(step_kind(&steps[i]));
            if let Err(v) = self.exec(&c, &steps[i], i) {
                return (Err(v), syslog);
            }
            if self.harness_error.is_some() {
                return (Ok(()), syslog);
            }
            if !self.alive() && matches!(steps[i], Step::Par { .. }) {
                ctx.probe("crash_inside_par_block");
            }
            if self.alive() && steps[i] == Step::Restart {
                c = match self.restart(c, None, None, &format!("clean restart at step {i}")) {
                    Ok(c) => c,
                    Err(v) => return (Err(v), syslog),
                };
            }
            if record {
                for e in ctx.take_sys_log() {
                    syslog.push((i, e));
                }
            }
            i += 1;
        }
        (Ok(()), syslog)
    }
}

fn mode_name(m: &Mode) -> &'static str {
    match m {
        Mode::Enumerate => "enumerate",
        Mode::Chain(_) => "chain",
        Mode::Sample { .. } => "sample",
        Mode::Limits { .. } => "limits",
    }
}

fn step_kind(s: &Step) -> &'static str {
    match s {
        Step::Begin { .. } => "begin",
        Step::Vote { v: V::Yes, .. } => "vote-yes",
        Step::Vote { v: V::No, .. } => "vote-no",
        Step::Vote { v: V::Resend, .. } => "vote-resend",
        Step::Vote { v: V::Flip, .. } => "vote-flip",
        Step::Commit { .. } => "commit",
        Step::Abort { .. } => "abort",
        Step::Advance { .. } => "advance",
        Step::Sweep => "sweep",
        Step::Aborts => "aborts",
        Step::Decide => "decide",
        Step::DriveAll => "driveall",
        Step::Recover => "recover",
        Step::Restart => "restart",
        Step::BeginWide { .. } => "begin-wide",
        Step::Par { .. } => "par",
        Step::RecoverWal => "recover-wal",
        Step::Fill { .. } => "fill",
        Step::Resolve { policy } => {
            if policy & 1 != 0 {
                "resolve-abort"
            } else {
                "resolve"
            }
        },
    }
}

/// The program followed by the fixed epilogue: restart; drive every recovered
/// transaction to completion; restart; advance past every transaction timeout
/// and sweep; a new transaction on the keys of the first one, committed;
/// restart.
fn full_steps(case: &Case) -> Vec<Step> {
    full_steps_with(case, &[])
}

/// `extra`: steps between the program and the epilogue (the live tails of `Mode::Limits`)
fn full_steps_with(case: &Case, extra: &[Step]) -> Vec<Step> {
    let mut v = case.steps.clone();
    v.extend_from_slice(extra);
    let (n, kb) = case
        .steps
        .iter()
        .find_map(|s| if let Step::Begin { n, kb, .. } = s { Some((*n, *kb)) } else { None })
        .unwrap_or((2, 0));
    v.push(Step::Restart);
    v.push(Step::DriveAll);
    v.push(Step::Restart);
    v.push(Step::Advance { ms: timeout_span(case) });
    v.push(Step::Sweep);
    v.push(Step::Begin { t: EPILOGUE_SLOT, n, kb });
    for s in 0..n.clamp(1, 3) {
        v.push(Step::Vote { t: EPILOGUE_SLOT, s, v: V::Yes });
    }
    v.push(Step::Commit { t: EPILOGUE_SLOT });
    v.push(Step::Restart);
    v
}

/// The round-1 shape: per-transaction scripts, randomly interleaved, then sprinkled with the other step kinds.
fn gen_classic(rng: &mut Rng) -> Case {
    // per-transaction scripts, randomly interleaved, then sprinkled with the other step kinds
    let ntx = rng.range(1, 4) as u8;
    let mut scripts: Vec<Vec<Step>> = Vec::new();
    for t in 0..ntx {
        let n = rng.range(1, 3) as u8;
        let kb = rng.below(6) as u8;
        let mut s = vec![Step::Begin { t, n, kb }];
        let mut order: Vec<u8> = (0..n).collect();
        for i in (1..order.len()).rev() {
            order.swap(i, rng.usize_below(i + 1));
        }
        let all_yes = rng.chance(3, 4);
        let nvotes = if rng.chance(5, 6) { n } else { rng.below(u64::from(n)) as u8 };
        for (j, sh) in order.iter().enumerate() {
            if j as u8 >= nvotes {
                break;
            }
            let v = if all_yes || rng.chance(1, 2) { V::Yes } else { V::No };
            s.push(Step::Vote { t, s: *sh, v });
            if rng.chance(1, 6) {
                s.push(Step::Vote { t, s: *sh, v: if rng.chance(2, 3) { V::Resend } else { V::Flip } });
            }
        }
        match rng.below(10) {
            0..=5 => s.push(Step::Commit { t }),
            6..=7 => s.push(Step::Abort { t }),
            _ => {},
        }
        // late messages and second decisions
        if rng.chance(1, 4) {
            s.push(Step::Vote { t, s: rng.below(u64::from(n)) as u8, v: *rng.pick(&[V::Yes, V::No, V::Resend, V::Flip]) });
        }
        if rng.chance(1, 4) {
            s.push(if rng.chance(1, 2) { Step::Abort { t } } else { Step::Commit { t } });
        }
        scripts.push(s);
    }
    let mut steps: Vec<Step> = Vec::new();
    let mut idx = vec![0usize; scripts.len()];
    loop {
        let live: Vec<usize> = (0..scripts.len()).filter(|k| idx[*k] < scripts[*k].len()).collect();
        if live.is_empty() {
            break;
        }
        // mostly keep working on the lowest unfinished transaction, sometimes another one
        let k = if rng.chance(2, 3) { live[0] } else { *rng.pick(&live) };
        steps.push(scripts[k][idx[k]].clone());
        idx[k] += 1;
        match rng.below(40) {
            0 => steps.push(Step::Advance { ms: *rng.pick(&[1u32, 200, 3000, 6000, 31_000]) }),
            1 => steps.push(Step::Sweep),
            2 => {
                steps.push(Step::Advance { ms: 6000 });
                steps.push(Step::Sweep);
            },
            3 => steps.push(Step::Aborts),
            4 => steps.push(Step::Decide),
            5 => steps.push(Step::Recover),
            6 | 7 => steps.push(Step::Restart),
            8 => steps.push(Step::DriveAll),
            9 => {
                steps.push(Step::Sweep);
                steps.push(Step::Aborts);
            },
            _ => {},
        }
    }
    let recover_after_restart = rng.chance(1, 4);
    let mode = if rng.chance(3, 4) {
        Mode::Enumerate
    } else {
        let n = rng.range(1, 3);
        let span = 2 * steps.len() as u64 + 8;
        Mode::Chain(
            (0..n)
                .map(|k| CrashSpec {
                    nth: if k == 0 { rng.below(span) } else { rng.below(12) },
                    bytes: if rng.chance(2, 3) { Some(rng.range(1, 30) as usize) } else { None },
                    cut: rng.below(6),
                })
                .collect(),
        )
    };
    let handle_numbering = u8::from(rng.chance(1, 2));
    Case { steps, recover_after_restart, mode, handle_numbering, log_limit: None, configs: Vec::new(), log_cfgs: Vec::new(), shard_pal: 0 }
}

/// The log configuration as part of the case: a round-1 program whose log has a hard size
/// limit without rotation. Mostly the limit is enumerated (`Mode::Limits`); every fourth case
/// has a drawn limit near the size the program's records reach together with 1-3 crashes.
fn gen_limited(rng: &mut Rng, with_crashes: bool) -> Case {
    let mut case = gen_classic(rng);
    if with_crashes {
        // rough size of the records of the program (a record is 17-25 bytes)
        let est: u64 = case
            .steps
            .iter()
            .map(|s| match s {
                Step::Begin { .. } => 24,
                Step::Vote { .. } => 30,
                Step::Commit { .. } => 90,
                Step::Abort { .. } => 40,
                _ => 0,
            })
            .sum();
        case.mode = gen_chain(rng, case.steps.len());
        case.log_limit = Some(LogLimit { max_bytes: rng.range(20, est.max(40) + 60), lives: *rng.pick(&[1u8, 1, 2, 255]) });
    } else {
        case.mode = Mode::Limits { seed: rng.next_u64(), points: 0 };
    }
    case
}

/// The switches of the log's `WalConfig` for a case: one set for every incarnation, or
/// (3 of 8) another one from the first restart on (default -> drawn, drawn -> drawn, drawn -> default).
fn gen_log_cfgs(rng: &mut Rng) -> Vec<LogCfg> {
    let one = |rng: &mut Rng| LogCfg {
        enable_checksums: rng.chance(1, 2),
        verify_on_replay: rng.chance(2, 3),
        pre_check_space: rng.chance(2, 3),
        min_free_space_bytes: if rng.chance(1, 3) { 0 } else { LogCfg::default_values().min_free_space_bytes },
        max_rotated_files: *rng.pick(&[0u8, 1, 3, 3]),
    };
    match rng.below(8) {
        0 => vec![LogCfg::default_values(), one(rng)],
        1 => vec![one(rng), one(rng)],
        2 => vec![one(rng), LogCfg::default_values()],
        _ => vec![one(rng)],
    }
}

/// Long logs of small records: a round-1 program into which 1-3 `Fill` steps (150 - 1 200 further
/// small transactions in all) are inserted, so that the log grows through tens to hundreds of
/// KiB with records at every alignment while the program's transactions are begun, voted on
/// and decided before, between and behind them. One execution is dear: crash points are
/// sampled, or 1-3 drawn crashes (anywhere in the program, the filler included).
fn gen_long(rng: &mut Rng) -> Case {
    let mut case = gen_classic(rng);
    let total = match rng.below(4) {
        0 => rng.range(150, 300),
        1 | 2 => rng.range(300, 700),
        _ => rng.range(700, 1200),
    };
    let nfill = rng.range(1, 3);
    let mut left = total;
    for k in 0..nfill {
        let n = if k + 1 == nfill || left < 3 { left } else { rng.range(1, left - 1) };
        left -= n;
        // mostly behind the first steps of the program (transactions are open across the filler)
        let lo = if case.steps.len() >= 3 && rng.chance(3, 4) { 2 } else { 0 };
        let at = rng.range(lo as u64, case.steps.len() as u64) as usize;
        case.steps.insert(at, Step::Fill { n: n as u16, seed: rng.next_u64() });
        if left == 0 {
            break;
        }
    }
    let syscalls_estimate = total * 16;
    case.mode = if rng.chance(3, 4) {
        Mode::Sample { seed: rng.next_u64(), points: rng.range(6, 14) as u32 }
    } else {
        let n = rng.range(1, 3);
        Mode::Chain(
            (0..n)
                .map(|k| CrashSpec {
                    nth: if k == 0 { rng.below(syscalls_estimate) } else { rng.below(12) },
                    bytes: if rng.chance(2, 3) { Some(rng.range(1, 30) as usize) } else { None },
                    cut: rng.below(6),
                })
                .collect(),
        )
    };
    case
}

fn gen_chain(rng: &mut Rng, nsteps: usize) -> Mode {
    let n = rng.range(1, 3);
    let span = 2 * nsteps as u64 + 8;
    Mode::Chain(
        (0..n)
            .map(|k| CrashSpec {
                nth: if k == 0 { rng.below(span) } else { rng.below(12) },
                bytes: if rng.chance(2, 3) { Some(rng.range(1, 30) as usize) } else { None },
                cut: rng.below(6),
            })
            .collect(),
    )
}

/// Unusual-size input: a round-1 program into which one transaction with a very
/// wide participant list is begun (a TxBegin record of 64 KiB - 1 MiB in the
/// middle of the log; its timeout gives an AbortIntent record of the same size).
/// Crash points are sampled: one execution rewrites and rereads the long record.
fn gen_wide(rng: &mut Rng, largest: bool) -> Case {
    let mut case = gen_classic(rng);
    // bitcode packs a participant list by the magnitude of its largest id:
    // 2 bytes per id below 2^16, 4 below 2^32, 8 above
    let (n, base): (u32, u64) = match if largest { 19 } else { rng.below(20) } {
        0..=6 => (rng.range(32_800, 34_000) as u32, 0),
        7..=10 => (rng.range(8_300, 9_500) as u32, 1 << 33),
        11..=13 => (rng.range(17_000, 20_000) as u32, 70_000),
        14..=16 => (rng.range(60_000, 65_000) as u32, 100_000),
        17..=18 => (rng.range(30_000, 40_000) as u32, 1 << 40),
        _ => (rng.range(250_000, 262_000) as u32, 1 << 33),
    };
    const WIDE_SLOT: u8 = 9;
    let at = rng.usize_below(case.steps.len() + 1);
    case.steps.insert(at, Step::BeginWide { t: WIDE_SLOT, n, base, kb: rng.below(6) as u8 });
    // a few of its participants vote; now and then it is aborted by hand
    let mut pos = at + 1;
    for _ in 0..rng.below(3) {
        pos = rng.range(pos as u64, case.steps.len() as u64) as usize;
        case.steps.insert(pos, Step::Vote { t: WIDE_SLOT, s: rng.below(4) as u8, v: if rng.chance(3, 4) { V::Yes } else { V::No } });
        pos += 1;
    }
    if rng.chance(1, 5) {
        pos = rng.range(pos as u64, case.steps.len() as u64) as usize;
        case.steps.insert(pos, Step::Abort { t: WIDE_SLOT });
    }
    case.mode = if rng.chance(3, 4) {
        Mode::Sample { seed: rng.next_u64(), points: rng.range(10, 22) as u32 }
    } else {
        gen_chain(rng, case.steps.len())
    };
    case
}

/// A schedule for a `Par` step: either sticky random picks, or "run to completion
/// with 1-3 preemptions" (every entry STAY except a few, within the first `span`
/// schedule points) — most atomicity bugs need one or two switches at the right point.
fn gen_par_schedule(rng: &mut Rng, span: usize) -> Vec<u8> {
    if rng.chance(1, 2) {
        let sticky = *rng.pick(&[60u64, 80, 90, 95]);
        let len = rng.range(span as u64, 3 * span as u64) as usize;
        crate::sched::gen_schedule(rng, len, sticky)
    } else {
        let mut v = vec![crate::sched::STAY; span];
        // which thread starts
        v[0] = rng.below(16) as u8;
        for _ in 0..rng.range(1, 3) {
            let at = rng.usize_below(span);
            v[at] = rng.below(16) as u8;
        }
        v
    }
}

/// Scheduled threads: 1-3 transactions whose participants' votes, and now and
/// then the decision, are issued by 2-4 threads concurrently; restarts (clean,
/// and at sampled crash points) follow.
fn gen_par(rng: &mut Rng) -> Case {
    let ntx = rng.range(1, 3) as u8;
    let per_tx_block = rng.chance(1, 2);
    let mut steps: Vec<Step> = Vec::new();
    let mut pending: Vec<(u8, u8)> = Vec::new();
    let mut open: Vec<u8> = Vec::new();
    let block = |rng: &mut Rng, votes: &mut Vec<(u8, u8)>, txs: &[u8]| -> Step {
        let k = *rng.pick(&[2usize, 2, 2, 2, 2, 3, 3, 3, 4, 4]);
        let mut threads: Vec<Vec<POp>> = vec![Vec::new(); k];
        // every participant's messages come from one thread (a participant is sequential);
        // mostly the participants of a transaction are spread over the threads
        let off = rng.usize_below(k);
        for (t, s) in votes.drain(..) {
            let th = if rng.chance(3, 4) { (off + s as usize) % k } else { rng.usize_below(k) };
            threads[th].push(POp::Vote { t, s, yes: rng.chance(11, 12) });
            if rng.chance(1, 10) {
                threads[th].push(POp::Vote { t, s, yes: rng.chance(3, 4) });
            }
        }
        for t in txs {
            match rng.below(10) {
                0 | 1 => threads[rng.usize_below(k)].push(POp::Commit { t: *t }),
                2 => threads[rng.usize_below(k)].push(POp::Abort { t: *t }),
                3 => {
                    // both decisions race
                    let a = rng.usize_below(k);
                    threads[a].push(POp::Commit { t: *t });
                    threads[(a + 1) % k].push(POp::Abort { t: *t });
                },
                _ => {},
            }
        }
        let ahead = rng.chance(2, 3);
        Step::Par { threads, schedule: gen_par_schedule(rng, if ahead { 24 } else { 60 }), ahead }
    };
    for t in 0..ntx {
        let n = rng.range(2, 3) as u8;
        steps.push(Step::Begin { t, n, kb: rng.below(6) as u8 });
        for s in 0..n {
            if rng.chance(1, 5) {
                steps.push(Step::Vote { t, s, v: V::Yes });
            } else {
                pending.push((t, s));
            }
        }
        open.push(t);
        if per_tx_block {
            steps.push(block(rng, &mut pending, &[t]));
        }
    }
    if !per_tx_block {
        steps.push(block(rng, &mut pending, &open));
    }
    // what follows the threads: nothing (the epilogue restarts), a clean restart, decisions
    for t in &open {
        match rng.below(12) {
            0 | 1 => steps.push(Step::Commit { t: *t }),
            2 => steps.push(Step::Abort { t: *t }),
            3 | 4 => steps.push(Step::Restart),
            5 => {
                steps.push(Step::Restart);
                // the decisions race after the restart
                steps.push(Step::Par {
                    threads: vec![vec![POp::Commit { t: *t }], vec![POp::Abort { t: *t }]],
                    schedule: gen_par_schedule(rng, 16),
                    ahead: false,
                });
            },
            6 => steps.push(Step::DriveAll),
            _ => {},
        }
    }
    let recover_after_restart = rng.chance(1, 4);
    let mode = match rng.below(8) {
        0..=4 => Mode::Sample { seed: rng.next_u64(), points: rng.range(16, 40) as u32 },
        5 => Mode::Sample { seed: 0, points: 0 },
        _ => gen_chain(rng, 4 * steps.len()),
    };
    Case { steps, recover_after_restart, mode, handle_numbering: u8::from(rng.chance(1, 2)), log_limit: None, configs: Vec::new(), log_cfgs: Vec::new(), shard_pal: 0 }
}

/// A coordinator configuration: every field of `DistributedTxConfig`, small values included.
fn gen_cfg(rng: &mut Rng) -> CoordCfg {
    CoordCfg {
        max_concurrent: *rng.pick(&[0u32, 1, 1, 1, 2, 2, 2, 2, 3, 3, 4, 5, 100]),
        prepare_timeout_ms: *rng.pick(&[0u64, 1, 50, 500, 500, 2000, 5000, 5000, 20_000, 60_000]),
        commit_timeout_ms: *rng.pick(&[0u64, 100, 10_000, 60_000]),
        orthogonal_threshold: *rng.pick(&[-1.0f32, 0.0, 0.1, 0.1, 0.9, 2.0]),
        optimistic_locking: rng.chance(2, 3),
        tx_queue_soft_limit_pct: *rng.pick(&[0u8, 50, 80, 100, 255]),
    }
}

/// One configuration for every incarnation (mostly), or a change at the first restart:
/// default -> drawn (the operator tightens it), drawn -> another drawn one, drawn -> default.
fn gen_configs(rng: &mut Rng) -> Vec<CoordCfg> {
    let cfg = gen_cfg(rng);
    match rng.below(8) {
        0 => vec![CoordCfg::default_values(), cfg],
        1 => {
            let other = gen_cfg(rng);
            vec![cfg, other]
        },
        2 => vec![cfg, CoordCfg::default_values()],
        _ => vec![cfg],
    }
}

/// The configuration as part of the case: rounds of transactions up to (and now and then one
/// past) the coordinator's limit, and between the rounds the quantifier's "following sequence
/// of recovery calls, timeouts and further transactions": every timeout passes and the sweep
/// runs (which frees `begin` slots without a log record), abort broadcasts, pending decisions,
/// `recover`, clean restarts. Up to 6 transactions of 1-2 participants in 2-3 rounds.
fn gen_rounds(rng: &mut Rng) -> Case {
    let configs = gen_configs(rng);
    let first = configs[0].clone();
    let cap = (first.max_concurrent as usize).clamp(1, 3);
    let rounds = rng.range(2, 3);
    let mut steps: Vec<Step> = Vec::new();
    let mut slot = 0u8;
    for round in 0..rounds {
        let k = (cap + usize::from(rng.chance(1, 3))).min(3).min(6 - slot as usize);
        let mut mine: Vec<u8> = Vec::new();
        // begin them all first, or one after the other with its votes
        let together = rng.chance(1, 2);
        let mut votes: Vec<Step> = Vec::new();
        for _ in 0..k {
            let t = slot;
            slot += 1;
            mine.push(t);
            let n = rng.range(1, 2) as u8;
            // mostly disjoint keys for the transactions that are open together
            let kb = if rng.chance(5, 6) { (2 * t) % 6 } else { rng.below(6) as u8 };
            steps.push(Step::Begin { t, n, kb });
            let shape = rng.below(12);
            for sh in 0..n {
                let v = match shape {
                    0 if sh == n - 1 => V::No,
                    1 if sh == n - 1 => continue,
                    _ => V::Yes,
                };
                let st = Step::Vote { t, s: sh, v };
                if together {
                    votes.push(st);
                } else {
                    steps.push(st);
                }
            }
        }
        steps.append(&mut votes);
        for t in &mine {
            match rng.below(10) {
                0..=1 => steps.push(Step::Commit { t: *t }),
                2 => steps.push(Step::Abort { t: *t }),
                _ => {},
            }
        }
        if round + 1 == rounds && rng.chance(2, 3) {
            // the epilogue (which starts with a restart) follows at once
            break;
        }
        let pt = first.prepare_timeout_ms;
        let past = *rng.pick(&[pt + 1, pt + 1000, pt.max(5000) + 1000]) as u32;
        match rng.below(12) {
            0..=4 => {
                steps.push(Step::Advance { ms: past });
                steps.push(Step::Sweep);
                if rng.chance(1, 2) {
                    steps.push(Step::Aborts);
                }
            },
            5 => steps.push(Step::Restart),
            6 => {
                steps.push(Step::Advance { ms: past });
                steps.push(Step::Sweep);
                steps.push(Step::Restart);
            },
            7 => {
                steps.push(Step::Restart);
                steps.push(Step::Advance { ms: past });
                steps.push(Step::Sweep);
            },
            8 => steps.push(if rng.chance(1, 2) { Step::DriveAll } else { Step::Decide }),
            9 => {
                // exactly at the timeout (not yet timed out), then the sweep
                steps.push(Step::Advance { ms: pt.min(100_000) as u32 });
                steps.push(Step::Sweep);
            },
            10 => {
                steps.push(Step::Advance { ms: past });
                steps.push(Step::Recover);
                steps.push(Step::Decide);
            },
            _ => {},
        }
    }
    let recover_after_restart = rng.chance(1, 4);
    let mode = match rng.below(8) {
        0..=3 => Mode::Sample { seed: rng.next_u64(), points: rng.range(40, 120) as u32 },
        4..=5 => Mode::Enumerate,
        _ => gen_chain(rng, steps.len()),
    };
    Case { steps, recover_after_restart, mode, handle_numbering: u8::from(rng.chance(1, 2)), log_limit: None, configs, log_cfgs: Vec::new(), shard_pal: 0 }
}

/// Recovery calls at arbitrary points of a live incarnation (the quantifier's "every following
/// sequence of recovery calls, timeouts and further transactions"): 1-3 transactions are begun
/// and voted on (mostly all YES, so that Prepared is logged), now and then one is decided; then
/// 2-5 blocks of: a clock advance (short of, exactly at, or past the configured / the restored
/// transactions' timeout) or none; one recovery call (`recover`, `recover_from_wal`,
/// `get_pending_decisions` + the calls a policy names, `cleanup_timeouts`); then commit / abort
/// of what it returned (`Resolve`, `Decide`, `DriveAll`) or of drawn transactions, or nothing.
/// Between the blocks: clean restarts, a further transaction, late votes.
fn gen_live(rng: &mut Rng) -> Case {
    let configs: Vec<CoordCfg> = if rng.chance(1, 2) {
        Vec::new()
    } else {
        let mut v = gen_configs(rng);
        for c in &mut v {
            // the limit is the business of the configuration shape
            c.max_concurrent = c.max_concurrent.max(4);
        }
        v
    };
    let pt = configs.first().map(|c| c.prepare_timeout_ms).unwrap_or(5000);
    let ntx = rng.range(1, 3) as u8;
    let mut steps: Vec<Step> = Vec::new();
    let begin = |rng: &mut Rng, steps: &mut Vec<Step>, t: u8| {
        let n = rng.range(1, 3) as u8;
        let kb = if rng.chance(3, 4) { (2 * t) % 6 } else { rng.below(6) as u8 };
        steps.push(Step::Begin { t, n, kb });
        let shape = rng.below(8);
        for sh in 0..n {
            let v = match shape {
                0 if sh == n - 1 => V::No,
                1 if sh == n - 1 => continue,
                _ => V::Yes,
            };
            steps.push(Step::Vote { t, s: sh, v });
        }
    };
    for t in 0..ntx {
        begin(rng, &mut steps, t);
        match rng.below(12) {
            0 => steps.push(Step::Commit { t }),
            1 => steps.push(Step::Abort { t }),
            _ => {},
        }
    }
    let mut next_slot = ntx;
    let blocks = rng.range(2, 5);
    for b in 0..blocks {
        // the clock
        let past = *rng.pick(&[pt + 1, pt + 1000, pt.max(5000) + 1, pt.max(5000) + 1000]);
        match rng.below(8) {
            0..=3 => steps.push(Step::Advance { ms: past.min(3_600_000) as u32 }),
            4 => steps.push(Step::Advance { ms: pt.min(3_600_000) as u32 }),
            5 => steps.push(Step::Advance { ms: (pt / 2).min(3_600_000) as u32 }),
            _ => {},
        }
        // the recovery call
        match rng.below(10) {
            0..=3 => steps.push(Step::Recover),
            4..=5 => steps.push(Step::RecoverWal),
            6 => {
                steps.push(Step::RecoverWal);
                steps.push(Step::Recover);
            },
            7 => {
                steps.push(Step::Recover);
                steps.push(Step::RecoverWal);
            },
            8 => steps.push(Step::Sweep),
            _ => {},
        }
        // commit / abort of what it returned, or of drawn transactions
        match rng.below(10) {
            0..=3 => steps.push(Step::Resolve { policy: *rng.pick(&[1u8, 1, 1, 3, 3, 5, 2, 0]) }),
            4 => steps.push(Step::Decide),
            5 => steps.push(Step::DriveAll),
            6..=7 => {
                for _ in 0..rng.range(1, 2) {
                    let t = rng.below(u64::from(next_slot)) as u8;
                    steps.push(if rng.chance(1, 2) { Step::Abort { t } } else { Step::Commit { t } });
                }
            },
            8 => {
                let t = rng.below(u64::from(next_slot)) as u8;
                steps.push(Step::Vote { t, s: rng.below(3) as u8, v: *rng.pick(&[V::Yes, V::No, V::Resend, V::Flip]) });
                steps.push(Step::Resolve { policy: rng.below(8) as u8 });
            },
            _ => {},
        }
        if b + 1 == blocks {
            break;
        }
        // between the blocks
        match rng.below(10) {
            0..=2 => steps.push(Step::Restart),
            3 => {
                if next_slot < 5 {
                    begin(rng, &mut steps, next_slot);
                    next_slot += 1;
                }
            },
            4 => steps.push(Step::Aborts),
            5 => {
                // a second decision on a drawn transaction
                let t = rng.below(u64::from(next_slot)) as u8;
                steps.push(if rng.chance(1, 2) { Step::Commit { t } } else { Step::Abort { t } });
            },
            _ => {},
        }
    }
    let recover_after_restart = rng.chance(1, 4);
    let mode = match rng.below(8) {
        0..=3 => Mode::Enumerate,
        4..=5 => Mode::Sample { seed: rng.next_u64(), points: rng.range(40, 120) as u32 },
        _ => gen_chain(rng, steps.len()),
    };
    Case { steps, recover_after_restart, mode, handle_numbering: u8::from(rng.chance(1, 2)), log_limit: None, configs, log_cfgs: Vec::new(), shard_pal: 0 }
}

/// `Mode::Limits`: see there.
fn run_limits(case: &Case, ctx: &Arc<RunCtx>, seed: u64, points: u32, out: &mut RunOut) {
    // reference execution without a limit: the size of the log before and after every record
    let mut t = Trial::new(ctx, case, 0);
    t.limit = None;
    let (v, syslog) = t.run(&[], true);
    out.observations.append(&mut t.observations);
    out.harness_error = t.harness_error.take();
    t.cleanup();
    out.inner_evals = 1;
    ctx.lock().record_sys = false;
    if let Err(v) = v {
        out.violation = Some(v);
        out.nontrivial = true;
        let mut reduced = case.clone();
        reduced.log_limit = None;
        reduced.mode = Mode::Chain(Vec::new());
        out.reduced = serde_json::to_value(&reduced).ok();
        return;
    }
    if out.harness_error.is_some() {
        return;
    }
    ctx.probe("log_limits_enumerated");
    let steps = full_steps(case);
    // incarnation that runs each step in an execution without a crash
    let mut inc_at: Vec<usize> = Vec::with_capacity(steps.len());
    let mut inc = 0usize;
    for s in &steps {
        inc_at.push(inc);
        if *s == Step::Restart {
            inc += 1;
        }
    }
    let mut slots: Vec<u8> = Vec::new();
    for s in &case.steps {
        if let Step::Begin { t, .. } | Step::BeginWide { t, .. } = s {
            if !slots.contains(t) {
                slots.push(*t);
            }
        }
    }
    // what follows the program: 0 = the epilogue at once (it starts with a restart);
    // 1 = every timeout passes on the live coordinator, then the epilogue;
    // 2 = every transaction is aborted on the live coordinator, then the epilogue
    let tails: [Vec<Step>; 3] =
        [Vec::new(), vec![Step::Advance { ms: timeout_span(case) }, Step::Sweep, Step::Aborts], slots.iter().map(|t| Step::Abort { t: *t }).collect()];
    let mut variants: Vec<(LogLimit, usize)> = Vec::new();
    let mut cum = 0u64;
    let mut k = 0usize;
    for (at, ev) in &syslog {
        if ev.kind != "write" || ev.len == 0 || !ev.path.ends_with("tx.wal") {
            continue;
        }
        let len = ev.len as u64;
        let inc_k = inc_at.get(*at).copied().unwrap_or(inc);
        let mut j = 0usize;
        // this record is the first one refused: no room left at all / one byte short
        for max_bytes in [cum, cum + len - 1] {
            for tail in 0..tails.len() {
                // kept for ever, lifted at the next restart, or at the one after it
                let lives = match (k + j) % 3 {
                    0 => (inc_k + 1).min(254) as u8,
                    1 => 255,
                    _ => (inc_k + 2).min(254) as u8,
                };
                j += 1;
                variants.push((LogLimit { max_bytes, lives }, tail));
            }
        }
        cum += len;
        k += 1;
    }
    let want = points as usize;
    if want > 0 && variants.len() > want {
        let mut r = Rng::new(seed);
        let mut idx: Vec<usize> = (0..variants.len()).collect();
        for j in 0..want {
            let k = j + r.usize_below(idx.len() - j);
            idx.swap(j, k);
        }
        let mut keep: Vec<usize> = idx[..want].to_vec();
        keep.sort_unstable();
        variants = keep.into_iter().map(|j| variants[j].clone()).collect();
    }
    let mut tag = 1;
    for (limit, tail) in variants {
        let mut t = Trial::new(ctx, case, tag);
        tag += 1;
        ctx.event(&format!("--- log limit {} bytes in the first {} incarnations, tail {tail}", limit.max_bytes, limit.lives));
        if tail != 0 {
            ctx.probe("limit_followed_by_live_tail");
        }
        t.limit = Some(limit.clone());
        t.extra = tails[tail].clone();
        let (v, _) = t.run(&[], false);
        for o in t.observations.drain(..) {
            if !out.observations.contains(&o) {
                out.observations.push(o);
            }
        }
        let he = t.harness_error.take();
        t.cleanup();
        out.inner_evals += 1;
        if let Err(mut v) = v {
            v.detail = format!(
                "{} [log opened with max_size_bytes={} auto_rotate=false in the first {} incarnations; after the program: {}]",
                v.detail,
                limit.max_bytes,
                limit.lives,
                ["the epilogue", "advance past every timeout, cleanup_timeouts, process_pending_aborts, then the epilogue", "abort of every transaction, then the epilogue"][tail]
            );
            out.violation = Some(v);
            out.nontrivial = true;
            let mut reduced = case.clone();
            reduced.steps.extend_from_slice(&tails[tail]);
            reduced.log_limit = Some(limit);
            reduced.mode = Mode::Chain(Vec::new());
            out.reduced = serde_json::to_value(&reduced).ok();
            return;
        }
        if he.is_some() {
            out.harness_error = he;
            return;
        }
    }
    out.nontrivial = syslog.len() >= 2;
}

fn sample_offsets(len: usize) -> Vec<usize> {
    if len <= 48 {
        return (1..len).collect();
    }
    let mut v: Vec<usize> = (1..14).collect();
    let step = ((len - 14) / 10).max(1);
    let mut x = 14;
    while x < len {
        v.push(x);
        x += step;
    }
    v.push(len - 2);
    v.push(len - 1);
    v.sort_unstable();
    v.dedup();
    v
}

/// One case in its mode (see `Mode`).
fn run_mode(case: &Case, ctx: &Arc<RunCtx>, out: &mut RunOut) {
    {
        match &case.mode {
            Mode::Limits { seed, points } => run_limits(case, ctx, *seed, *points, out),
            Mode::Chain(specs) => {
                let mut t = Trial::new(ctx, case, 0);
                let (v, _) = t.run(specs, false);
                out.observations.append(&mut t.observations);
                out.harness_error = t.harness_error.take();
                out.inner_evals = 1;
                out.nontrivial = t.crashes_fired > 0;
                ctx.probe("chain_run");
                if specs.len() >= 3 {
                    ctx.probe("chain_run_with_three_specs");
                }
                if t.crashes_fired >= 2 {
                    ctx.probe("two_crashes_in_one_run");
                }
                if t.crashes_fired >= 3 {
                    ctx.probe("three_crashes_in_one_run");
                }
                if let Err(v) = v {
                    out.violation = Some(v);
                }
                t.cleanup();
            },
            Mode::Enumerate | Mode::Sample { .. } => {
                let mut t = Trial::new(ctx, case, 0);
                let (v, syslog) = t.run(&[], true);
                out.observations.append(&mut t.observations);
                out.harness_error = t.harness_error.take();
                let par_steps = std::mem::take(&mut t.par_steps);
                t.cleanup();
                out.inner_evals = 1;
                ctx.lock().record_sys = false;
                if let Err(v) = v {
                    out.violation = Some(v);
                    out.nontrivial = true;
                    return;
                }
                if out.harness_error.is_some() {
                    return;
                }
                let mut all_points: Vec<Vec<CrashSpec>> = Vec::new();
                for (k, (_step, ev)) in syslog.iter().enumerate() {
                    let points = &mut all_points;
                    let one = |bytes: Option<usize>, cut: u64| vec![CrashSpec { nth: k as u64, bytes, cut }];
                    points.push(one(None, 0));
                    points.push(one(None, 1));
                    if ev.kind == "write" {
                        for b in sample_offsets(ev.len) {
                            points.push(one(Some(b), 0));
                        }
                        // a record torn in the middle, then a second crash at each of the first
                        // syscalls of the next incarnation (the tail repair and the first appends)
                        if ev.len >= 2 {
                            for j in 0..4u64 {
                                let mut p = one(Some(ev.len / 2), 0);
                                p.push(CrashSpec { nth: j, bytes: Some(2), cut: j % 2 });
                                points.push(p);
                            }
                        }
                    } else {
                        points.push(one(None, 5));
                    }
                }
                if let Mode::Sample { seed, points } = &case.mode {
                    // a seeded subset, in the original order
                    ctx.probe("sampled_crash_points");
                    let want = *points as usize;
                    if all_points.len() > want {
                        let mut r = Rng::new(*seed);
                        let mut idx: Vec<usize> = (0..all_points.len()).collect();
                        for j in 0..want {
                            let k = j + r.usize_below(idx.len() - j);
                            idx.swap(j, k);
                        }
                        let mut keep: Vec<usize> = idx[..want].to_vec();
                        keep.sort_unstable();
                        all_points = keep.into_iter().map(|j| all_points[j].clone()).collect();
                    }
                }
                let mut tag = 1;
                for specs in all_points {
                    let mut t = Trial::new(ctx, case, tag);
                    tag += 1;
                    ctx.event(&format!("--- crash point {specs:?}"));
                    let (v, _) = t.run(&specs, false);
                    for o in t.observations.drain(..) {
                        if !out.observations.contains(&o) {
                            out.observations.push(o);
                        }
                    }
                    let he = t.harness_error.take();
                    t.cleanup();
                    out.inner_evals += 1;
                    if let Err(mut v) = v {
                        v.detail = format!("{} [crash specs {:?}]", v.detail, specs);
                        out.violation = Some(v);
                        out.nontrivial = true;
                        let mut reduced = case.clone();
                        reduced.mode = Mode::Chain(specs);
                        out.reduced = serde_json::to_value(&reduced).ok();
                        return;
                    }
                    if he.is_some() {
                        out.harness_error = he;
                        return;
                    }
                }
                // Schedules of the `Par` steps, preemption bound 1: each thread in turn starts and
                // runs until it is done, except for one switch to the next thread at schedule
                // point j, for every j (a seeded subset when there are more than 64); no crash,
                // the restarts of the program and of the epilogue judge the outcome.
                let mut variants: Vec<(usize, Vec<u8>)> = Vec::new();
                for (at, k, nsteps) in &par_steps {
                    if !matches!(full_steps(case).get(*at), Some(Step::Par { .. })) {
                        continue;
                    }
                    for start in 0..*k {
                        for j in 1..(*nsteps).min(60) {
                            let mut sc = vec![crate::sched::STAY; j + 1];
                            sc[0] = start as u8;
                            sc[j] = ((start + 1) % *k) as u8;
                            variants.push((*at, sc));
                        }
                    }
                }
                if variants.len() > 64 {
                    let seed = if let Mode::Sample { seed, .. } = &case.mode { *seed } else { 0 };
                    let mut r = Rng::new(seed ^ 0x5c4e_d01e);
                    for j in 0..64 {
                        let k = j + r.usize_below(variants.len() - j);
                        variants.swap(j, k);
                    }
                    variants.truncate(64);
                }
                for (at, sc) in variants {
                    let mut t = Trial::new(ctx, case, tag);
                    tag += 1;
                    ctx.event(&format!("--- schedule of step {at}: start thread {}, one switch at point {}", sc[0], sc.len() - 1));
                    ctx.probe("par_single_preemption_schedule");
                    t.par_override = Some((at, sc.clone()));
                    let (v, _) = t.run(&[], false);
                    for o in t.observations.drain(..) {
                        if !out.observations.contains(&o) {
                            out.observations.push(o);
                        }
                    }
                    let he = t.harness_error.take();
                    t.cleanup();
                    out.inner_evals += 1;
                    if let Err(mut v) = v {
                        v.detail = format!("{} [schedule of the Par step {at}: thread {} first, one switch at point {}]", v.detail, sc[0], sc.len() - 1);
                        out.violation = Some(v);
                        out.nontrivial = true;
                        let mut reduced = case.clone();
                        if let Some(Step::Par { schedule, .. }) = reduced.steps.get_mut(at) {
                            *schedule = sc;
                        }
                        reduced.mode = Mode::Chain(Vec::new());
                        out.reduced = serde_json::to_value(&reduced).ok();
                        return;
                    }
                    if he.is_some() {
                        out.harness_error = he;
                        return;
                    }
                }
                out.nontrivial = syslog.len() >= 2;
            },
        }
    }
}

impl C13 {
    fn generate_shape(rng: &mut Rng, index: u64) -> Case {
        // every second of the round-1 programs of slot 0: the long-log shape
        if index % 16 == 8 {
            return gen_long(rng);
        }
        match index % 8 {
            3 => gen_wide(rng, (index / 8) % 12 == 0),
            1 | 5 => gen_par(rng),
            7 => gen_limited(rng, (index / 8) % 4 == 3),
            6 => gen_rounds(rng),
            4 => gen_live(rng),
            _ => {
                // the round-1 program; every fourth of them under a drawn configuration
                let mut case = gen_classic(rng);
                if rng.chance(1, 4) {
                    case.configs = gen_configs(rng);
                }
                case
            },
        }
    }
}

impl Scenario for C13 {
    type Case = Case;
    fn id(&self) -> &'static str {
        "C13"
    }
    fn level(&self) -> &'static str {
        "fault_enumeration"
    }
    fn runs(&self, tier: Tier) -> u64 {
        match tier {
            Tier::Quick => 900,
            Tier::Thorough => 15_000,
        }
    }

    fn generate(&self, rng: &mut Rng, _tier: Tier, index: u64) -> Case {
        let mut case = Self::generate_shape(rng, index);
        // the switches of the log configuration are part of the case: a third of the cases of
        // every shape run with drawn ones (drawn last: the shapes' own draws are as before)
        if rng.chance(1, 3) {
            case.log_cfgs = gen_log_cfgs(rng);
        }
        // the participants' shard ids: the small consecutive ones in half of the cases
        case.shard_pal = *rng.pick(&[0u8, 0, 0, 1, 2, 3]);
        case
    }

    fn run(&self, case: &Case, ctx: &Arc<RunCtx>) -> RunOut {
        init_process();
        // threads of a `Par` step are switched only at this scenario's own points and at
        // tensor_chain's lock acquisitions (see sched::Baton::allow)
        crate::sched::set_allowed_sites(&["c13.", "tensor_chain."]);
        let mut out = RunOut::default();
        ctx.fp(&format!("rec{}:{}:h{}", case.recover_after_restart, mode_name(&case.mode), case.handle_numbering));
        if case.handle_numbering == 1 {
            ctx.probe("participant_numbered_handles");
        }
        if let Some(l) = &case.log_limit {
            ctx.fp(&format!("limit:{}", l.lives));
        }
        for c in &case.configs {
            ctx.fp(&format!("cfg:{}:{}", c.max_concurrent, c.prepare_timeout_ms));
        }
        for l in &case.log_cfgs {
            ctx.fp(&format!("logcfg:{}:{}:{}", l.enable_checksums, l.verify_on_replay, l.pre_check_space));
        }
        run_mode(case, ctx, &mut out);
        if let (Some(v), false) = (&mut out.violation, case.log_cfgs.is_empty()) {
            let shown: Vec<String> = case.log_cfgs.iter().map(LogCfg::show).collect();
            v.detail = format!("{} [log switches (WalConfig) by incarnation (the last one stays): {}]", v.detail, shown.join(" | "));
        }
        if let (Some(v), false) = (&mut out.violation, case.configs.is_empty()) {
            let shown: Vec<String> = case.configs.iter().map(CoordCfg::show).collect();
            v.detail = format!("{} [coordinator configuration by incarnation (the last one stays): {}]", v.detail, shown.join(" | "));
        }
        out
    }

    fn shrink(&self, case: &Case) -> Vec<Case> {
        let mut v = Vec::new();
        for steps in drop_chunks(&case.steps) {
            let mut c = case.clone();
            c.steps = steps;
            v.push(c);
        }
        if let Mode::Chain(specs) = &case.mode {
            for s in drop_chunks(specs) {
                if !s.is_empty() {
                    let mut c = case.clone();
                    c.mode = Mode::Chain(s);
                    v.push(c);
                }
            }
            for (i, s) in specs.iter().enumerate() {
                if s.nth > 0 {
                    let mut c = case.clone();
                    if let Mode::Chain(ss) = &mut c.mode {
                        ss[i].nth -= 1;
                    }
                    v.push(c);
                }
                if s.bytes.is_some() {
                    let mut c = case.clone();
                    if let Mode::Chain(ss) = &mut c.mode {
                        ss[i].bytes = None;
                    }
                    v.push(c);
                }
                if s.cut > 1 {
                    let mut c = case.clone();
                    if let Mode::Chain(ss) = &mut c.mode {
                        ss[i].cut = 0;
                    }
                    v.push(c);
                }
            }
        }
        if case.recover_after_restart {
            let mut c = case.clone();
            c.recover_after_restart = false;
            v.push(c);
        }
        if case.handle_numbering != 0 {
            let mut c = case.clone();
            c.handle_numbering = 0;
            v.push(c);
        }
        if !case.configs.is_empty() {
            // the default configuration; one configuration for every incarnation; single fields
            // back to their defaults; a limit one higher
            let mut c = case.clone();
            c.configs = Vec::new();
            v.push(c);
            if case.configs.len() > 1 {
                for k in 0..case.configs.len() {
                    let mut c = case.clone();
                    c.configs = vec![case.configs[k].clone()];
                    v.push(c);
                }
            }
            let d = CoordCfg::default_values();
            for k in 0..case.configs.len() {
                let cur = &case.configs[k];
                let mut cands: Vec<CoordCfg> = Vec::new();
                if cur.prepare_timeout_ms != d.prepare_timeout_ms {
                    cands.push(CoordCfg { prepare_timeout_ms: d.prepare_timeout_ms, ..cur.clone() });
                }
                if cur.commit_timeout_ms != d.commit_timeout_ms {
                    cands.push(CoordCfg { commit_timeout_ms: d.commit_timeout_ms, ..cur.clone() });
                }
                if cur.max_concurrent != d.max_concurrent {
                    cands.push(CoordCfg { max_concurrent: d.max_concurrent, ..cur.clone() });
                    if cur.max_concurrent < 8 {
                        cands.push(CoordCfg { max_concurrent: cur.max_concurrent + 1, ..cur.clone() });
                    }
                }
                if cur.orthogonal_threshold != d.orthogonal_threshold {
                    cands.push(CoordCfg { orthogonal_threshold: d.orthogonal_threshold, ..cur.clone() });
                }
                if cur.optimistic_locking != d.optimistic_locking {
                    cands.push(CoordCfg { optimistic_locking: d.optimistic_locking, ..cur.clone() });
                }
                if cur.tx_queue_soft_limit_pct != d.tx_queue_soft_limit_pct {
                    cands.push(CoordCfg { tx_queue_soft_limit_pct: d.tx_queue_soft_limit_pct, ..cur.clone() });
                }
                for cand in cands {
                    let mut c = case.clone();
                    c.configs[k] = cand;
                    v.push(c);
                }
            }
        }
        if !case.log_cfgs.is_empty() {
            // the default switches; one set for every incarnation; single switches back to their defaults
            let mut c = case.clone();
            c.log_cfgs = Vec::new();
            v.push(c);
            if case.log_cfgs.len() > 1 {
                for k in 0..case.log_cfgs.len() {
                    let mut c = case.clone();
                    c.log_cfgs = vec![case.log_cfgs[k].clone()];
                    v.push(c);
                }
            }
            let d = LogCfg::default_values();
            for k in 0..case.log_cfgs.len() {
                let cur = &case.log_cfgs[k];
                let mut cands: Vec<LogCfg> = Vec::new();
                if cur.enable_checksums != d.enable_checksums {
                    cands.push(LogCfg { enable_checksums: d.enable_checksums, ..cur.clone() });
                }
                if cur.verify_on_replay != d.verify_on_replay {
                    cands.push(LogCfg { verify_on_replay: d.verify_on_replay, ..cur.clone() });
                }
                if cur.pre_check_space != d.pre_check_space {
                    cands.push(LogCfg { pre_check_space: d.pre_check_space, ..cur.clone() });
                }
                if cur.min_free_space_bytes != d.min_free_space_bytes {
                    cands.push(LogCfg { min_free_space_bytes: d.min_free_space_bytes, ..cur.clone() });
                }
                if cur.max_rotated_files != d.max_rotated_files {
                    cands.push(LogCfg { max_rotated_files: d.max_rotated_files, ..cur.clone() });
                }
                for cand in cands {
                    let mut c = case.clone();
                    c.log_cfgs[k] = cand;
                    v.push(c);
                }
            }
        }
        if let Some(l) = &case.log_limit {
            let mut c = case.clone();
            c.log_limit = None;
            v.push(c);
            if l.lives != 255 {
                let mut c = case.clone();
                c.log_limit = Some(LogLimit { max_bytes: l.max_bytes, lives: 255 });
                v.push(c);
            }
        }
        for (i, s) in case.steps.iter().enumerate() {
            match s {
                Step::Vote { t, s: sh, v: vv } if *vv == V::Resend || *vv == V::Flip => {
                    let mut c = case.clone();
                    c.steps[i] = Step::Vote { t: *t, s: *sh, v: V::Yes };
                    v.push(c);
                },
                Step::Begin { t, n, kb } if *n > 1 || *kb > 0 => {
                    let mut c = case.clone();
                    c.steps[i] = Step::Begin { t: *t, n: 1, kb: 0 };
                    v.push(c);
                },
                Step::DriveAll | Step::Decide | Step::Recover | Step::Aborts | Step::RecoverWal => {
                    // already covered by drop_chunks
                },
                Step::Resolve { policy } if *policy > 1 => {
                    for pol in [policy & 1, policy & 3] {
                        if pol != *policy {
                            let mut c = case.clone();
                            c.steps[i] = Step::Resolve { policy: pol };
                            v.push(c);
                        }
                    }
                },
                Step::Fill { n, seed } if *n > 1 => {
                    for m in [*n / 2, *n - 1] {
                        let mut c = case.clone();
                        c.steps[i] = Step::Fill { n: m, seed: *seed };
                        v.push(c);
                    }
                },
                Step::BeginWide { t, n, base, kb } if *n > 1 => {
                    let mut c = case.clone();
                    c.steps[i] = Step::BeginWide { t: *t, n: *n / 2, base: *base, kb: *kb };
                    v.push(c);
                },
                Step::Par { threads, schedule, ahead } => {
                    let ahead = *ahead;
                    // whole threads, then single operations, then a calmer schedule
                    for k in 0..threads.len() {
                        if threads.len() > 1 {
                            let mut th = threads.clone();
                            th.remove(k);
                            let mut c = case.clone();
                            c.steps[i] = Step::Par { threads: th, schedule: schedule.clone(), ahead };
                            v.push(c);
                        }
                        for ops in drop_chunks(&threads[k]) {
                            let mut th = threads.clone();
                            th[k] = ops;
                            let mut c = case.clone();
                            c.steps[i] = Step::Par { threads: th, schedule: schedule.clone(), ahead };
                            v.push(c);
                        }
                    }
                    if !schedule.is_empty() {
                        let mut c = case.clone();
                        c.steps[i] = Step::Par { threads: threads.clone(), schedule: schedule[..schedule.len() / 2].to_vec(), ahead };
                        v.push(c);
                    }
                    if let Some(j) = schedule.iter().position(|p| *p != crate::sched::STAY) {
                        let mut sc = schedule.clone();
                        sc[j] = crate::sched::STAY;
                        let mut c = case.clone();
                        c.steps[i] = Step::Par { threads: threads.clone(), schedule: sc, ahead };
                        v.push(c);
                    }
                },
                _ => {},
            }
        }
        v
    }

    /// A case needs a few CPU-seconds at most. The limit is generous because the
    /// shared VM was seen to stall a vCPU for minutes under load (kernel
    /// "workqueue lockup ... stuck for 190s"), which a 120 s limit turns into a
    /// harness error.
    fn watchdog_secs(&self) -> u64 {
        900
    }

    fn required_probes(&self) -> Vec<&'static str> {
        vec![
            "crash_inside_log_write",
            "crash_between_committing_and_txcomplete",
            "crash_between_txcomplete_and_all_locks_released",
            "torn_tail_then_append_then_restart",
            "sweep_over_recovered_committing",
            "vote_logged_for_unknown_tx",
            "prepared_tx_recovered",
            "completed_tx_checked_after_restart",
            "collecting_tx_forgotten",
            "recovered_tx_driven_to_completion",
            "third_restart",
            "three_crashes_in_one_run",
            "crash_inside_tail_repair",
            // round 2
            "restart_over_log_record_of_64KiB_or_more",
            "restart_over_log_record_of_512KiB_or_more",
            "crash_inside_log_record_of_64KiB_or_more",
            "par_prepared_by_votes_of_two_threads",
            "par_preempted_at_lock_acquisition",
            "par_single_preemption_schedule",
            "par_completion",
            "crash_inside_par_block",
            "lock_handle_value_reused_by_another_tx",
            "unreleased_lock_shares_handle_value_with_released_lock",
            // round 3
            "log_limits_enumerated",
            "limit_followed_by_live_tail",
            "decision_refused_before_any_record",
            "commit_failed_between_committing_and_txcomplete",
            "abort_failed_between_aborting_and_txcomplete",
            "commit_ok_with_lock_release_records_refused",
            "vote_dropped_on_refused_append",
            "drive_failed_on_refused_append",
            "restart_under_size_limit",
            "size_limit_lifted_at_restart",
            // round 4
            "non_default_coordinator_configuration",
            "begin_refused_at_max_concurrent",
            "begin_refused_at_max_concurrent_after_restart",
            "begin_admitted_into_slot_freed_by_timeout_sweep",
            "restart_with_more_open_txs_in_log_than_max_concurrent",
            "tx_timed_out_under_configured_timeout",
            "configuration_changed_at_restart",
            // round 5
            "live_recover_moved_prepared_to_aborting_after_timeout",
            "live_recover_moved_restored_prepared_to_aborting_after_timeout",
            "live_recover_moved_prepared_to_committing",
            "live_recover_moved_collecting_to_aborting_after_timeout",
            "abort_of_prepared_tx_moved_to_aborting_by_recover",
            "abort_logged_after_live_recover_checked_after_restart",
            "pending_abort_decision_resolved_by_abort",
            "live_recover_from_wal",
            "live_recover_from_wal_in_later_incarnation",
            "live_recover_from_wal_brought_back_dropped_tx",
            "live_recover_from_wal_reset_phase_changed_in_memory",
            // round 6
            "log_opened_without_checksums",
            "log_opened_without_verify_on_replay",
            "log_switches_changed_at_restart",
            "torn_record_follows_txcomplete_written_without_checksum",
            "reopen_with_torn_tail_behind_record_without_checksum",
            "log_filled_past_32KiB",
            "restart_over_log_longer_than_32KiB",
            "restart_over_log_of_small_records_longer_than_128KiB",
            "restart_over_record_header_straddling_32KiB_boundary",
        ]
    }
    fn rule(&self) -> String {
        "A case is a generated program followed by a fixed epilogue (restart; drive every recovered transaction to completion; restart; sweep after every timeout; a new transaction on the same keys; restart). Seven shapes, chosen by run index: (1/16) the long-log shape: a round-1 program with 1-3 Fill steps inserted (150 - 1 200 further small transactions of 1-5 participants in all, outside the ledger: begun, voted on, committed or aborted at once, a few left open), so that the log grows through tens to hundreds of KiB of small records at every alignment while the program's transactions are open across the filler; Sample (6-14 crash points) or Chain mode; (3/16) the round-1 program: 1-4 transactions of 1-3 participants with overlapping keys; begin, votes yes/no/resent/flipped/late, commit, abort, clock advances, timeout sweeps, abort broadcasts, pending-decision completion, recover(), clean restarts; (1/8) the same with one transaction of 8 300 - 262 000 participants begun in the middle (TxBegin / AbortIntent records of 64 KiB - 1 MiB; every 12th of these has the 1 MiB record); (2/8) 1-3 transactions whose participants' votes and, now and then, commit and/or abort are issued by 2-4 scheduled threads (one block for all or one per transaction; participants prepare inside the threads or one after the other ahead of them), followed by decisions, clean restarts or a commit/abort race after a restart; (1/8) the round-1 program on a log with a hard size limit without rotation (WalConfig max_size_bytes, auto_rotate=false): three of four of these in Limits mode, one of four with a drawn limit of 20 bytes up to about the size of the program's records, in force for the first 1 or 2 incarnations or always, together with 1-3 crashes (Chain mode); (1/8) the configuration shape: 2-3 rounds of as many transactions (1-2 participants, mostly disjoint keys) as the coordinator's max_concurrent admits and now and then one more (refused), mostly all-YES votes, a few decisions, and between the rounds one of: every timeout passes + cleanup_timeouts (+ abort broadcast), clean restart, sweep then restart, restart then sweep, pending decisions / drive, advance exactly to the timeout + sweep, advance + recover() + decide, nothing; up to 6 transactions; Sample (40-120 crash points), Enumerate or Chain mode; (1/8) the live-recovery shape: 1-3 transactions of 1-3 participants (mostly all-YES votes, so that Prepared is logged; now and then decided at once), then 2-5 blocks of [no clock advance, or one of half the timeout / exactly the timeout / past the configured timeout / past the 5 s timeout of restored transactions] + [one recovery call on the running coordinator: recover(), recover_from_wal(), both in either order, cleanup_timeouts, or none] + [what follows it: Resolve = get_pending_decisions and for every (or only the first) transaction it returned complete_abort or the logging abort() for Aborting ones and complete_commit or commit()-then-complete_commit for Committing ones; Decide; DriveAll; commit/abort of 1-2 drawn transactions; a late vote and Resolve; nothing], and between the blocks a clean restart (3/10), a further transaction, an abort broadcast, a second decision on a drawn transaction, or nothing; default configuration (1/2) or a drawn one with max_concurrent >= 4; Enumerate (1/2), Sample (40-120 points) or Chain mode. The coordinator's configuration is part of the case (every field of DistributedTxConfig: max_concurrent 0-5 or 100, prepare_timeout_ms 0 - 60 000, commit_timeout_ms, orthogonal_threshold -1 - 2, optimistic_locking, tx_queue_soft_limit_pct), the same for every incarnation or (3 of 8) changed at the first restart (default -> drawn, drawn -> drawn, drawn -> default): always in the configuration shape, in half of the live-recovery programs, in every fourth round-1 program, default elsewhere; the epilogue's and the live tails' clock advance is past the longest configured timeout. The remaining switches of the log's WalConfig are part of the case as well (a third of the cases of every shape): enable_checksums (off in half of the drawn sets), verify_on_replay, pre_check_space, min_free_space_bytes (0 or default), max_rotated_files, the same for every incarnation or (3 of 8) changed at the first restart. In half of the cases the YES votes carry participant-numbered lock handles that start again from 1 in every incarnation. Enumerate mode (round-1 shape): every mutating syscall boundary of program+epilogue (un-synced log bytes kept, dropped, or cut at a pseudo-random length) and byte offsets inside every log write (all offsets of records up to 48 bytes, ~25 sampled ones of longer records) are each taken as a power-loss crash point, each followed by restart from the log, the property checks, the rest of the program and the epilogue (three more restarts). Sample mode (wide and thread shapes): a seeded subset (10-40) of the same crash points, and, for every thread block, the schedules with preemption bound 1 (each thread starts first; one switch at schedule point j, for every j; at most 64 per case) without a crash. Limits mode: a reference execution without limit gives the log size before every record of program+epilogue; for every record, the limit is set so that this record is the first one refused, with no room left and with one byte less than it needs (shorter records still fit), each followed by (a) the epilogue at once, (b) advance 6 s + cleanup_timeouts + process_pending_aborts on the live coordinator and then the epilogue, (c) abort of every transaction on the live coordinator and then the epilogue; the limit stays for ever, or is lifted at the next restart, or at the one after it (rotating); no crash. Chain mode: 1-3 seeded crashes in one execution, the later ones shortly after a restart. inner_enumerated_points counts all these executions. Non-trivial: at least one crash fired (Chain) or the program issued >=2 mutating syscalls (Enumerate, Sample, Limits). Distinct: hash of (recover flag, mode, handle numbering, lives of the log limit, max_concurrent and prepare timeout of the configurations, sequence of step kinds and crash sites).".into()
    }
    fn components(&self) -> Value {
        json!({
            "real": ["tensor_chain::DistributedTxCoordinator (new(.., DistributedTxConfig { every field from the case }), begin, handle_prepare, record_vote, commit, abort, cleanup_timeouts, process_pending_aborts, recover_from_wal (after every restart and, as a step, on the running coordinator), recover, get_pending_decisions, complete_commit, complete_abort, lock_manager)", "tensor_chain::TxWal (open, open_with_config(WalConfig { max_size_bytes: <case>, auto_rotate: false, enable_checksums / verify_on_replay / pre_check_space / min_free_space_bytes / max_rotated_files: <case> }) in the incarnations the case names, append, replay), TxRecoveryState", "LockManager / WaitForGraph", "std::fs / BufWriter", "tensor_chain::sync_compat locks (their acquisitions are the schedule points of the thread blocks)"],
            "simulated": ["disk: libc write/fsync/open/ftruncate interposed, files on tmpfs with durable-watermark bookkeeping; crash at a chosen syscall/byte; power loss cuts the log to a length between fsynced and written", "clock (SystemTime/Instant) advanced by the step list", "network: SimTransport collects the abort broadcasts", "threads of a Par step: real OS threads run one at a time by the baton scheduler, switched only at tensor_chain lock acquisitions and between operations, the picks are part of the case"],
            "stub": ["participants: votes are scripted by the step list (a first YES takes its lock through the coordinator's real handle_prepare; with handle_numbering=1 the vote names that lock by the participant's own number, 1, 2, ... in every incarnation)"]
        })
    }
    fn assumptions(&self) -> Vec<String> {
        vec![
            "power loss cuts the log at byte-prefix granularity only; no reordering of blocks inside the file, no bit corruption; file creation and truncation are durable at the instant of the syscall".into(),
            "a completion counts as logged when commit/abort returned Ok while the node was alive, or when the TxComplete record of the call cut by the crash lies wholly inside the surviving log (read back through TxWal::replay right after the reopen, cross-checked against an independent count of complete frames)".into(),
            "complete_commit/complete_abort and cleanup_timeouts write no log record: their outcomes are not 'logged completions'; what happens to such transactions after the next restart is reported as an observation only".into(),
            "the restarted coordinator lives in the same process: lock handles stay unique across restarts (the handle counter is a process global), and its LockManager is new (the log does not carry locks)".into(),
            "log rotation is never exercised: the log has either the default configuration (1 GiB, never reached) or a hard size limit with auto_rotate=false, under which an append that does not fit is refused and the log keeps its contents".into(),
            "a coordinator call that returned Err is un-acknowledged: the ledger assumes nothing about what it did and reads the log back at once; a completion counts as logged when its TxComplete record is in the log (the first one, should there be several). Nothing is claimed about the locks of a transaction whose completion was logged by a call that returned Err until the next restart. record_vote answers Ok(None) also when the vote's append was refused and the vote dropped; whether the vote was taken is read from the coordinator (get(tx).votes); a dropped vote is not a collected vote. 'can be driven to completion' is not claimed for a commit/abort that fails because the size-limited log refuses its records".into(),
            "a reversal (timeout or abort after a logged commit, commit after a logged abort) by the incarnation that itself logged the completion is not judged at once (the text speaks of a restarted coordinator) but at the next completed restart from that log, whatever the restarted coordinator then does".into(),
            "'locks of completed transactions are released' after a restart is decided on recovery's report: the restarted coordinator's lock manager is new, so a lock that a completed transaction never gave back exists only as log records; it counts as released when the log holds a LockRelease record of that transaction for it or AllLocksReleased for the transaction, or when TxRecoveryState (what recover_from_wal acts on) lists it as orphaned for that transaction. A lock is identified by (transaction, handle), never by the handle value alone".into(),
            "the coordinator's configuration is an input like the program: any DistributedTxConfig may be given to any incarnation (an operator may restart the coordinator with another configuration); a begin() refused because max_concurrent transactions are pending is un-acknowledged (no transaction exists, nothing is claimed about it); the clauses about restored transactions are not conditioned on the configuration (the text has no such condition)".into(),
            "recovery calls are legal at any point of a live incarnation (the quantifier's 'every following sequence of recovery calls'): recover(), recover_from_wal(), get_pending_decisions() and complete_commit/complete_abort, commit and abort of whatever they report are issued on the running coordinator like any other step; they are judged by the ledger alone (no clause is added for them): recover() and complete_* write no log record, so what they do in memory is neither a logged completion nor a reversal; a transaction that recover_from_wal brings back on the running coordinator after it was finished in memory without a log record is an observation".into(),
            "the switches of the log (WalConfig) are an input like the program: any incarnation may open the log with any of them (checksums off, verification off, no free-space check), also with other ones than the incarnation that wrote the records; no disk corruption is simulated, so verify_on_replay never has anything to find. The transactions of a Fill step are outside the ledger: no clause is decided on them, they only make the log long; those left open count against max_concurrent like any other".into(),
            "in a thread block every participant's messages come from one thread (two different answers of one participant never race each other; they do follow each other, as in round 1); the ledger is updated in the order in which the coordinator's calls returned".into(),
        ]
    }
}
