//! C01 — Raft: committed log entries are never lost or contradicted.
//!
//! 3 or 5 real `RaftNode`s on `SimTransport`; the step list decides every
//! delivery, drop, duplication, reordering, partition, timeout, proposal,
//! crash (between steps or inside a WAL write) and restart. The Raft safety
//! invariants are evaluated over the real nodes after every step.

use crate::ctx::RunCtx;
use crate::driver::{drop_chunks, RunOut, Scenario, Tier, Violation};
use crate::raftsim::{image, mk_block, msg_brief, msg_term, msg_kind, role_str, Cluster, Ent, Image};
use crate::rng::Rng;
use serde::{Deserialize, Serialize};
use serde_json::{json, Value};
use std::collections::BTreeMap;
use std::sync::Arc;
use tensor_chain::network::Message;
use tensor_chain::raft::{RaftConfig, RaftState};

#[derive(Serialize, Deserialize, Clone, Debug, PartialEq)]
pub enum Step {
    Deliver { pick: u16 },
    Drop { pick: u16 },
    Dup { pick: u16 },
    Tick { node: u8 },
    /// election timeout fires now (legal at any time: safety may not depend on timing)
    Timeout { node: u8 },
    PreVote { node: u8 },
    /// among the current leaders (pick mod #leaders); no-op without a leader
    Heartbeat { pick: u8 },
    Propose { pick: u8, payload: u32 },
    /// `n` proposals in a row at one of the current leaders (long logs: requests that
    /// carry many entries, probing over long distances, batching)
    ProposeMany { pick: u8, n: u16, payload: u32 },
    CheckQuorum { pick: u8 },
    Advance { ms: u32 },
    /// bit i set: node i on side A; messages across sides are dropped at delivery
    Partition { mask: u8 },
    Heal,
    /// cut the links between one current leader (pick mod #leaders) and everybody else
    IsolateLeader { pick: u8 },
    /// cut the links between this node and everybody else (other cuts stay)
    Isolate { node: u8 },
    /// Two calls on ONE node run on two scheduled threads (the node is a `Sync`
    /// object: in the real server client proposals and the heartbeat task run
    /// beside the message loop). a/b: 0 = deliver the picked in-flight message
    /// addressed to that node, 1 = propose, 2 = send heartbeats, 3 = tick.
    /// Every lock acquisition inside raft.rs is a schedule point (sync_compat).
    Concurrent {
        node: u8,
        a: u8,
        b: u8,
        pick_a: u16,
        pick_b: u16,
        sched: Vec<u8>,
        /// 1: aim at a stale leader — a node that still acts as leader while a
        /// deliverable message of a higher term is addressed to it (that message
        /// is the one delivered); falls back to `node` when there is none
        #[serde(default)]
        target: u8,
    },
    /// nth = None: between steps; Some(k): inside the k-th mutating syscall of that node from now
    Crash { node: u8, nth: Option<u8>, bytes: Option<u8>, cut: u8 },
    Restart { node: u8 },
}

#[derive(Serialize, Deserialize, Clone, Debug)]
pub struct Case {
    pub n: u8,
    pub wal: bool,
    pub pre_vote: bool,
    pub fast_path: bool,
    pub geo: bool,
    pub backoff: bool,
    /// nodes with a distinctive state embedding (bit mask), so the geometric tie-break really decides
    pub emb_mask: u8,
    pub steps: Vec<Step>,
}

pub struct C01;

fn raft_cfg(case: &Case) -> RaftConfig {
    let mut c = RaftConfig::default();
    c.enable_pre_vote = case.pre_vote;
    c.enable_fast_path = case.fast_path;
    c.enable_geometric_tiebreak = case.geo;
    c.enable_adaptive_backoff = case.backoff;
    c.auto_heartbeat = false;
    c
}

struct NodeView {
    img: Image,
    commit: u64,
    role: RaftState,
}

struct Oracle {
    /// term -> node first observed as leader in it
    leaders: BTreeMap<u64, usize>,
    /// index -> (entry first reported committed, term of the reporting node then)
    ledger: BTreeMap<u64, (Ent, u64)>,
    max_commit_seen: Vec<u64>,
    last_term: Vec<u64>,
}

fn viol(class: &str, detail: String) -> Violation {
    Violation { class: class.to_string(), detail }
}

impl Oracle {
    /// Node `x` sent AppendEntries{term: t, leader_id: x}.
    fn acted_as_leader(&mut self, x: usize, t: u64, ids: &[String]) -> Result<(), Violation> {
        match self.leaders.get(&t) {
            Some(&y) if y != x => Err(viol(
                "two-leaders-in-one-term",
                format!("{} sent AppendEntries as leader of term {t}, a term in which {} acted as leader", ids[x], ids[y]),
            )),
            Some(_) => Ok(()),
            None => {
                self.leaders.insert(t, x);
                Ok(())
            },
        }
    }

    fn check_node(&mut self, x: usize, v: &NodeView, others: &[Option<NodeView>], ids: &[String], durable: bool, ctx: &RunCtx) -> Result<(), Violation> {
        let img = &v.img;
        // 6. term monotonicity
        if img.term < self.last_term[x] {
            return Err(viol("term-decreased", format!("{}: term {} after it had term {}", ids[x], img.term, self.last_term[x])));
        }
        self.last_term[x] = img.term;
        // 1. election safety: "At most one node acts as leader in any term"
        if v.role == RaftState::Leader {
            match self.leaders.get(&img.term) {
                Some(&y) if y != x => {
                    return Err(viol(
                        "two-leaders-in-one-term",
                        format!("{} and {} both acted as leader in term {}", ids[y], ids[x], img.term),
                    ));
                },
                Some(_) => {},
                None => {
                    self.leaders.insert(img.term, x);
                    ctx.probe("leader_elected");
                    if self.leaders.len() >= 2 {
                        ctx.probe("leader_changed");
                    }
                    // 4. leader completeness: "every later leader's log contains that entry"
                    for (k, (e, rt)) in &self.ledger {
                        if *rt < img.term && img.log.get(*k as usize - 1) != Some(e) {
                            return Err(viol(
                                "leader-misses-committed-entry",
                                format!(
                                    "{} became leader of term {} but its log lacks the entry {:?} reported committed at index {} (in term {}); it holds {:?}",
                                    ids[x],
                                    img.term,
                                    e,
                                    k,
                                    rt,
                                    img.log.get(*k as usize - 1)
                                ),
                            ));
                        }
                    }
                },
            }
        }
        // 2. log matching: "two logs that agree on the term of a position agree on every earlier position"
        for (y, o) in others.iter().enumerate() {
            if y == x {
                continue;
            }
            let Some(o) = o else { continue };
            let m = img.log.len().min(o.img.log.len());
            let mut top = None;
            for k in (0..m).rev() {
                if img.log[k].term == o.img.log[k].term {
                    top = Some(k);
                    break;
                }
            }
            if let Some(top) = top {
                for k in 0..=top {
                    if img.log[k] != o.img.log[k] {
                        return Err(viol(
                            "log-matching-broken",
                            format!(
                                "{} and {} agree on the term of index {} but differ at index {}: {:?} vs {:?}",
                                ids[x],
                                ids[y],
                                top + 1,
                                k + 1,
                                img.log[k],
                                o.img.log[k]
                            ),
                        ));
                    }
                }
            }
        }
        // 3. state-machine safety: "once any node reports a log position as committed, no node
        //    ever reports a different entry committed at that position"
        for k in 1..=v.commit {
            let Some(e) = img.log.get(k as usize - 1) else {
                return Err(viol(
                    "committed-index-beyond-log",
                    format!("{} reports index {} committed but holds only {} entries", ids[x], k, img.log.len()),
                ));
            };
            match self.ledger.get(&k) {
                None => {
                    self.ledger.insert(k, (e.clone(), img.term));
                    ctx.probe("entry_committed");
                },
                Some((le, _)) if le != e => {
                    return Err(viol(
                        "different-entry-committed-at-same-index",
                        format!("{} reports {:?} committed at index {}, but {:?} was reported committed there before", ids[x], e, k, le),
                    ));
                },
                _ => {},
            }
        }
        // 5. committed entries stay (across restarts only with durable state)
        if v.commit > self.max_commit_seen[x] {
            self.max_commit_seen[x] = v.commit;
        }
        if durable {
            for k in 1..=self.max_commit_seen[x] {
                if let Some((le, _)) = self.ledger.get(&k) {
                    if img.log.get(k as usize - 1) != Some(le) {
                        return Err(viol(
                            "node-lost-entry-it-reported-committed",
                            format!("{} had reported index {} committed ({:?}) and now holds {:?} there", ids[x], k, le, img.log.get(k as usize - 1)),
                        ));
                    }
                }
            }
        }
        Ok(())
    }
}

fn view(cl: &Cluster, i: usize) -> Option<NodeView> {
    let n = cl.nodes[i].as_ref()?;
    Some(NodeView { img: image(n), commit: n.commit_index(), role: n.state() })
}

impl Scenario for C01 {
    type Case = Case;
    fn id(&self) -> &'static str {
        "C01"
    }
    fn level(&self) -> &'static str {
        "exploration"
    }
    fn runs(&self, tier: Tier) -> u64 {
        match tier {
            Tier::Quick => 20000,
            Tier::Thorough => 600_000,
        }
    }

    fn generate(&self, rng: &mut Rng, _tier: Tier, _index: u64) -> Case {
        let n: u8 = if rng.chance(3, 4) { 3 } else { 5 };
        let wal = rng.chance(1, 2);
        let len = rng.range(40, 400) as usize;
        // swarm: per-run weights
        let w_drop = *rng.pick(&[0u64, 0, 2, 6]);
        let w_dup = *rng.pick(&[0u64, 0, 2, 6]);
        let w_part = *rng.pick(&[0u64, 1, 3]);
        let w_crash = if wal { *rng.pick(&[0u64, 2, 5]) } else { 0 };
        let w_timeout = *rng.pick(&[2u64, 4, 8]);
        let w_conc = *rng.pick(&[0u64, 0, 3, 8]);
        let w_reorder = *rng.pick(&[0u64, 20, 60]); // % of deliveries that pick a random message instead of the oldest
        let nn = u64::from(n);
        let mut steps = Vec::with_capacity(len + 8);
        // a first election so that most runs make progress early
        steps.push(Step::Timeout { node: rng.below(nn) as u8 });
        for _ in 0..len {
            let total = 50 + 8 + w_timeout + 8 + 12 + 2 + w_conc + 5 + w_drop + w_dup + w_part * 2 + w_crash * 2 + 2;
            let mut r = rng.below(total);
            let mut take = |w: u64| -> bool {
                if r < w {
                    true
                } else {
                    r -= w;
                    false
                }
            };
            let s = if take(50) {
                Step::Deliver { pick: if rng.below(100) < w_reorder { rng.below(64) as u16 } else { 0 } }
            } else if take(8) {
                Step::Tick { node: rng.below(nn) as u8 }
            } else if take(w_timeout) {
                Step::Timeout { node: rng.below(nn) as u8 }
            } else if take(8) {
                Step::Heartbeat { pick: rng.below(4) as u8 }
            } else if take(12) {
                Step::Propose { pick: rng.below(4) as u8, payload: rng.below(1 << 20) as u32 }
            } else if take(2) {
                Step::CheckQuorum { pick: rng.below(4) as u8 }
            } else if take(w_conc) {
                let stick = *rng.pick(&[0u64, 50, 80]);
                let pct = rng.chance(1, 2);
                let d = 1 + rng.usize_below(2);
                Step::Concurrent {
                    node: rng.below(nn) as u8,
                    // the message loop (deliver / tick) beside a client proposal or the
                    // heartbeat task: the pairs the real server runs concurrently
                    a: *rng.pick(&[0u8, 0, 0, 3]),
                    b: *rng.pick(&[1u8, 1, 2]),
                    pick_a: rng.below(8) as u16,
                    pick_b: rng.below(8) as u16,
                    sched: if pct { crate::sched::gen_schedule_pct(rng, 12, d) } else { crate::sched::gen_schedule(rng, 48, stick) },
                    target: u8::from(rng.chance(1, 3)),
                }
            } else if take(5) {
                Step::Advance { ms: *rng.pick(&[5u32, 30, 60, 200, 400, 6000]) }
            } else if take(w_drop) {
                Step::Drop { pick: rng.below(64) as u16 }
            } else if take(w_dup) {
                Step::Dup { pick: rng.below(64) as u16 }
            } else if take(w_part) {
                Step::Partition { mask: rng.below(1 << nn) as u8 }
            } else if take(w_part) {
                Step::Heal
            } else if take(w_crash) {
                Step::Crash {
                    node: rng.below(nn) as u8,
                    nth: if rng.chance(1, 2) { Some(rng.below(4) as u8) } else { None },
                    bytes: if rng.chance(1, 2) { Some(rng.below(60) as u8) } else { None },
                    cut: rng.below(4) as u8,
                }
            } else if take(w_crash) {
                Step::Restart { node: rng.below(nn) as u8 }
            } else {
                Step::PreVote { node: rng.below(nn) as u8 }
            };
            steps.push(s);
        }
        // In most runs splice in a few "deposed leader" fragments: a leader is cut off, accepts
        // proposals nobody else sees, somebody else is elected and does the same, the cut is
        // healed and an old leader may come back — the situations in which the commit rule,
        // the vote's log check and conflict truncation have to do their work.
        if rng.chance(2, 3) {
            for _ in 0..rng.range(1, 4) {
                let mut frag = vec![Step::IsolateLeader { pick: rng.below(4) as u8 }];
                for _ in 0..rng.range(1, 2) {
                    frag.push(Step::Propose { pick: rng.below(4) as u8, payload: rng.below(1 << 20) as u32 });
                }
                if rng.chance(1, 2) {
                    frag.push(Step::Heartbeat { pick: rng.below(4) as u8 });
                }
                frag.push(Step::Timeout { node: rng.below(nn) as u8 });
                for _ in 0..rng.range(2, 8) {
                    frag.push(Step::Deliver { pick: 0 });
                }
                if rng.chance(1, 2) {
                    frag.push(Step::Heartbeat { pick: rng.below(4) as u8 });
                    frag.push(Step::Propose { pick: rng.below(4) as u8, payload: rng.below(1 << 20) as u32 });
                }
                if rng.chance(2, 3) {
                    frag.push(Step::Heal);
                    // the deposed leader hears of the new term while a client call runs
                    if w_conc > 0 && rng.chance(1, 2) {
                        for _ in 0..rng.range(0, 3) {
                            frag.push(Step::Deliver { pick: rng.below(4) as u16 });
                        }
                        frag.push(Step::Heartbeat { pick: rng.below(4) as u8 });
                        let sched = if rng.chance(2, 3) {
                            let d = 1 + rng.usize_below(2);
                            crate::sched::gen_schedule_pct(rng, 12, d)
                        } else {
                            let stick = *rng.pick(&[0u64, 50, 80]);
                            crate::sched::gen_schedule(rng, 48, stick)
                        };
                        frag.push(Step::Concurrent {
                            node: rng.below(nn) as u8,
                            a: 0,
                            b: *rng.pick(&[1u8, 2, 2]),
                            pick_a: rng.below(8) as u16,
                            pick_b: 0,
                            sched,
                            target: 1,
                        });
                        // what the stale leader sent under whatever term it read goes out
                        for _ in 0..rng.range(2, 6) {
                            frag.push(Step::Deliver { pick: rng.below(6) as u16 });
                        }
                    }
                }
                if rng.chance(1, 2) {
                    frag.push(Step::Timeout { node: rng.below(nn) as u8 });
                    for _ in 0..rng.range(2, 6) {
                        frag.push(Step::Deliver { pick: 0 });
                    }
                }
                let at = rng.usize_below(steps.len() + 1);
                steps.splice(at..at, frag);
            }
        }
        // A third of the runs additionally get one "two deposed leaders" fragment (the
        // shape of Figure 8 of the Raft paper, with every count and choice randomised):
        // a leads and holds an entry nobody saw; b leads the next term and does the same;
        // a comes back, replicates its old entry while holding a newer local one; b comes
        // back again. Whether anything bad follows depends on the commit rule, the log
        // check in votes and conflict truncation — which is the point.
        if rng.chance(1, 3) {
            let a = rng.below(nn) as u8;
            let b = ((u64::from(a) + 1 + rng.below(nn - 1)) % nn) as u8;
            let mut f: Vec<Step> = Vec::new();
            let deliver = |f: &mut Vec<Step>, rng: &mut Rng, lo: u64, hi: u64| {
                for _ in 0..rng.range(lo, hi) {
                    f.push(Step::Deliver { pick: 0 });
                }
            };
            let lead = |f: &mut Vec<Step>, rng: &mut Rng, who: u8| {
                f.push(Step::Timeout { node: who });
                for _ in 0..rng.range(3, 6) {
                    f.push(Step::Deliver { pick: 0 });
                }
                for _ in 0..rng.range(1, 2) {
                    f.push(Step::Heartbeat { pick: 0 });
                    for _ in 0..rng.range(2, 5) {
                        f.push(Step::Deliver { pick: 0 });
                    }
                }
            };
            f.push(Step::Heal);
            lead(&mut f, rng, a);
            f.push(Step::IsolateLeader { pick: 0 });
            f.push(Step::Propose { pick: 0, payload: rng.below(1 << 20) as u32 });
            lead(&mut f, rng, b);
            f.push(Step::Isolate { node: b });
            f.push(Step::Propose { pick: 1, payload: rng.below(1 << 20) as u32 });
            f.push(Step::Propose { pick: 0, payload: rng.below(1 << 20) as u32 });
            f.push(Step::Heal);
            f.push(Step::Isolate { node: b });
            lead(&mut f, rng, a);
            if rng.chance(1, 2) {
                f.push(Step::Heartbeat { pick: 0 });
                deliver(&mut f, rng, 2, 4);
            }
            f.push(Step::Heartbeat { pick: rng.below(2) as u8 });
            f.push(Step::Propose { pick: rng.below(2) as u8, payload: rng.below(1 << 20) as u32 });
            if rng.chance(1, 2) {
                f.push(Step::Dup { pick: 0 });
            }
            deliver(&mut f, rng, 1, 4);
            f.push(Step::Heal);
            f.push(Step::Isolate { node: a });
            lead(&mut f, rng, b);
            deliver(&mut f, rng, 2, 6);
            let at = rng.usize_below(steps.len() + 1);
            steps.splice(at..at, f);
        }
        // Half of the 5-voter runs get a "leader returns" fragment: a leads and reaches only
        // b; c is elected by the others and overwrites both; a leads again while whatever it
        // remembered about b's progress is stale; b leads last. Every count and the choice
        // of nodes are random; what follows depends on the leader's bookkeeping being reset.
        if nn == 5 && rng.chance(1, 2) {
            let a = rng.below(5) as u8;
            let b = ((u64::from(a) + 1 + rng.below(4)) % 5) as u8;
            let mut rest: Vec<u8> = (0..5u8).filter(|x| *x != a && *x != b).collect();
            let ci = rng.usize_below(rest.len());
            let c = rest.remove(ci);
            let d = *rng.pick(&rest);
            let mut f: Vec<Step> = vec![Step::Heal];
            let deliver = |f: &mut Vec<Step>, rng: &mut Rng, lo: u64, hi: u64| {
                // five nodes, messages to cut-off peers count as deliveries (dropped): a
                // round of requests and answers takes 8-16 delivery steps
                for _ in 0..2 * rng.range(lo, hi) {
                    f.push(Step::Deliver { pick: 0 });
                }
            };
            let both = |f: &mut Vec<Step>, rng: &mut Rng| {
                for pick in 0..2u8 {
                    f.push(Step::Propose { pick, payload: rng.below(1 << 20) as u32 });
                }
                for pick in 0..2u8 {
                    f.push(Step::Heartbeat { pick });
                }
            };
            f.push(Step::Timeout { node: a });
            deliver(&mut f, rng, 8, 12);
            f.push(Step::Heartbeat { pick: 0 });
            deliver(&mut f, rng, 8, 10);
            f.push(Step::Partition { mask: (1 << a) | (1 << b) });
            for _ in 0..rng.range(1, 3) {
                f.push(Step::Propose { pick: 0, payload: rng.below(1 << 20) as u32 });
            }
            f.push(Step::Heartbeat { pick: 0 });
            deliver(&mut f, rng, 2, 6);
            f.push(Step::Timeout { node: c });
            deliver(&mut f, rng, 6, 10);
            f.push(Step::Heartbeat { pick: 1 });
            f.push(Step::Heartbeat { pick: 0 });
            deliver(&mut f, rng, 5, 8);
            both(&mut f, rng);
            deliver(&mut f, rng, 6, 10);
            f.push(Step::Heal);
            both(&mut f, rng);
            deliver(&mut f, rng, 10, 16);
            // the log repair of the deposed pair takes a few probe rounds
            for _ in 0..rng.range(1, 4) {
                for pick in 0..2u8 {
                    f.push(Step::Heartbeat { pick });
                }
                deliver(&mut f, rng, 8, 12);
            }
            f.push(Step::Timeout { node: a });
            deliver(&mut f, rng, 8, 14);
            f.push(Step::Partition { mask: (1 << a) | (1 << d) });
            both(&mut f, rng);
            deliver(&mut f, rng, 2, 6);
            f.push(Step::Heal);
            f.push(Step::Isolate { node: a });
            f.push(Step::Timeout { node: b });
            deliver(&mut f, rng, 8, 14);
            both(&mut f, rng);
            deliver(&mut f, rng, 8, 14);
            both(&mut f, rng);
            deliver(&mut f, rng, 6, 10);
            let at = rng.usize_below(steps.len() + 1);
            steps.splice(at..at, f);
        }
        // WAL-backed runs, one in five: followers are restarted right after they acknowledged.
        // l leads and commits a few entries normally; then only a bare majority (l and some
        // followers) is connected, l proposes, the followers acknowledge, l counts the entries
        // committed; those followers lose power and come back; l is cut off and a node of
        // the other side stands for election. What the followers acknowledged must have
        // been durable, or the new leader misses entries reported committed.
        if wal && rng.chance(1, 5) {
            let l = rng.below(nn) as u8;
            let mut rest: Vec<u8> = (0..nn as u8).filter(|x| *x != l).collect();
            for i in (1..rest.len()).rev() {
                let j = rng.usize_below(i + 1);
                rest.swap(i, j);
            }
            let k = (nn / 2) as usize; // followers needed beside l for a majority
            let (side, other) = rest.split_at(k);
            let per_round = 2 * (nn - 1);
            let deliver = |f: &mut Vec<Step>, rng: &mut Rng, rounds: u64| {
                for _ in 0..rounds * per_round + rng.below(per_round) {
                    f.push(Step::Deliver { pick: 0 });
                }
            };
            let mut f: Vec<Step> = vec![Step::Heal, Step::Timeout { node: l }];
            deliver(&mut f, rng, 2);
            for _ in 0..rng.below(5) {
                f.push(Step::Propose { pick: 0, payload: rng.below(1 << 20) as u32 });
                f.push(Step::Heartbeat { pick: 0 });
                deliver(&mut f, rng, 1);
            }
            let mut mask = 1u8 << l;
            for x in side {
                mask |= 1 << x;
            }
            f.push(Step::Partition { mask });
            for _ in 0..rng.range(1, 3) {
                f.push(Step::Propose { pick: 0, payload: rng.below(1 << 20) as u32 });
            }
            for _ in 0..rng.range(1, 2) {
                f.push(Step::Heartbeat { pick: 0 });
                deliver(&mut f, rng, 1);
            }
            for x in side {
                f.push(Step::Crash { node: *x, nth: None, bytes: None, cut: rng.below(4) as u8 });
            }
            for x in side {
                f.push(Step::Restart { node: *x });
            }
            f.push(Step::Heal);
            f.push(Step::Isolate { node: l });
            f.push(Step::Timeout { node: *rng.pick(other) });
            deliver(&mut f, rng, 2);
            f.push(Step::Propose { pick: rng.below(2) as u8, payload: rng.below(1 << 20) as u32 });
            for pick in 0..2u8 {
                f.push(Step::Heartbeat { pick });
            }
            deliver(&mut f, rng, 2);
            let at = rng.usize_below(steps.len() + 1);
            steps.splice(at..at, f);
        }
        // One run in ten has long logs: a follower with a stale suffix catches up with
        // a later leader over a long distance. a replicates a long common prefix and, cut
        // off, proposes a little more; b commits a long run with the others; c (or b
        // again) takes over; the links come back and the new leader's probing and
        // (possibly batched) requests have to bring a's log into line. All counts random.
        if rng.chance(1, 10) {
            let a = rng.below(nn) as u8;
            let b = ((u64::from(a) + 1 + rng.below(nn - 1)) % nn) as u8;
            let others: Vec<u8> = (0..nn as u8).filter(|x| *x != a && *x != b).collect();
            let c = if rng.chance(7, 8) { *rng.pick(&others) } else { b };
            let per_round = 2 * (nn - 1);
            let deliver = |f: &mut Vec<Step>, rng: &mut Rng, rounds: u64| {
                for _ in 0..rounds * per_round + rng.below(per_round) {
                    f.push(Step::Deliver { pick: 0 });
                }
            };
            let mut f: Vec<Step> = vec![Step::Heal, Step::Timeout { node: a }];
            deliver(&mut f, rng, 2);
            f.push(Step::ProposeMany { pick: 0, n: rng.range(40, 170) as u16, payload: rng.below(1 << 20) as u32 });
            for _ in 0..2 {
                f.push(Step::Heartbeat { pick: 0 });
                deliver(&mut f, rng, 1);
            }
            f.push(Step::IsolateLeader { pick: 0 });
            for _ in 0..rng.range(1, 3) {
                f.push(Step::Propose { pick: 0, payload: rng.below(1 << 20) as u32 });
            }
            f.push(Step::Timeout { node: b });
            deliver(&mut f, rng, 2);
            f.push(Step::ProposeMany { pick: 1, n: rng.range(60, 200) as u16, payload: rng.below(1 << 20) as u32 });
            f.push(Step::ProposeMany { pick: 0, n: rng.range(1, 3) as u16, payload: rng.below(1 << 20) as u32 });
            for _ in 0..3 {
                f.push(Step::Heartbeat { pick: 1 });
                f.push(Step::Heartbeat { pick: 0 });
                deliver(&mut f, rng, 1);
            }
            if c != b {
                f.push(Step::Timeout { node: c });
                deliver(&mut f, rng, 2);
            }
            f.push(Step::Heal);
            for _ in 0..rng.range(10, 22) {
                for pick in 0..2u8 {
                    f.push(Step::Heartbeat { pick });
                }
                deliver(&mut f, rng, 1);
            }
            let at = rng.usize_below(steps.len() + 1);
            steps.splice(at..at, f);
        }
        Case {
            n,
            wal,
            pre_vote: rng.chance(1, 2),
            fast_path: rng.chance(1, 2),
            geo: rng.chance(1, 2),
            backoff: rng.chance(1, 2),
            emb_mask: rng.below(1 << nn) as u8,
            steps,
        }
    }

    fn run(&self, case: &Case, ctx: &Arc<RunCtx>) -> RunOut {
        let mut out = RunOut::default();
        crate::sched::set_allowed_sites(&["c01.", "tensor_chain."]);
        let n = case.n as usize;
        let mut cl = Cluster::new(ctx, n, raft_cfg(case), case.wal);
        for i in 0..n {
            if case.emb_mask & (1 << i) != 0 {
                let mut e = vec![0.0f32; 8];
                e[i % 8] = 1.0;
                cl.on_node(i, |nd| nd.update_state_embedding_dense(&e));
            }
        }
        let ids = cl.ids.clone();
        let mut or = Oracle { leaders: BTreeMap::new(), ledger: BTreeMap::new(), max_commit_seen: vec![0; n], last_term: vec![0; n] };
        let mut views: Vec<Option<NodeView>> = (0..n).map(|i| view(&cl, i)).collect();
        let mut armed: Option<(usize, u8)> = None; // node with an armed in-write crash, and its cut
        let mut payload_seq = 0u64;
        let mut uncommitted_suffix_at_leader_change = false;
        let _ = &mut uncommitted_suffix_at_leader_change;
        ctx.fp(&format!("n{n}w{}", case.wal));

        let mut seen_msg = 0u64;
        macro_rules! check {
            ($x:expr) => {{
                let x: usize = $x;
                // "at most one node acts as leader in any term": sending AppendEntries
                // under a term is acting as its leader, whatever role the node shows
                // when it is looked at afterwards
                let sent: Vec<(usize, u64)> = {
                    let g = cl.net.lock().unwrap();
                    let v = g
                        .inflight
                        .iter()
                        .filter(|m| m.id > seen_msg)
                        .filter_map(|m| match &m.msg {
                            Message::AppendEntries(ae) if ae.leader_id == m.from => ids.iter().position(|i| *i == m.from).map(|s| (s, ae.term)),
                            _ => None,
                        })
                        .collect();
                    seen_msg = seen_msg.max(g.next_id);
                    v
                };
                for (s, t) in sent {
                    if let Err(vi) = or.acted_as_leader(s, t, &ids) {
                        out.violation = Some(vi);
                        out.nontrivial = true;
                        return out;
                    }
                }
                views[x] = view(&cl, x);
                if let Some(v) = views[x].as_ref() {
                    if let Err(vi) = or.check_node(x, v, &views, &ids, case.wal, ctx) {
                        out.violation = Some(vi);
                        out.nontrivial = true;
                        return out;
                    }
                }
            }};
        }

        let total_steps = case.steps.len();
        for (si, step) in case.steps.iter().enumerate() {
            let mark = cl.net.lock().unwrap().next_id;
            let mut acted: Option<usize> = None;
            match step {
                Step::Deliver { pick } => {
                    if let Some(m) = cl.take_inflight(*pick as usize) {
                        let to = cl.idx(&m.to).unwrap();
                        let from = cl.idx(&m.from).unwrap();
                        if cl.blocked(&m.from, &m.to) {
                            ctx.fault_fired("partition_drop");
                        } else if !cl.up(to) {
                            ctx.fault_fired("lost_to_down_node");
                        } else {
                            if *pick != 0 {
                                ctx.fault_fired("reordered_delivery");
                            }
                            ctx.event(&format!("{si}: {} -> {}: {}", m.from, m.to, msg_brief(&m.msg)));
                            // probes on stale responses
                            if let (Message::AppendEntriesResponse(r), Some(v)) = (&m.msg, views[to].as_ref()) {
                                if v.role == RaftState::Leader && r.term < v.img.term {
                                    ctx.probe("stale_term_response_delivered_to_leader");
                                }
                            }
                            let _ = from;
                            let resp = cl.deliver(&m);
                            if let Some(r) = &resp {
                                ctx.event(&format!("{si}:   {} replies {}", m.to, msg_brief(r)));
                                match r {
                                    Message::RequestVoteResponse(x) if !x.vote_granted => ctx.probe("vote_refused"),
                                    Message::PreVoteResponse(x) if !x.vote_granted => ctx.probe("pre_vote_refused"),
                                    Message::AppendEntriesResponse(x) if !x.success => ctx.probe("append_refused"),
                                    Message::AppendEntriesResponse(x) if x.used_fast_path => ctx.probe("fast_path_accepted"),
                                    _ => {},
                                }
                            }
                            ctx.fp(msg_kind(&m.msg));
                            acted = Some(to);
                        }
                    }
                },
                Step::Drop { pick } => {
                    if cl.take_inflight(*pick as usize).is_some() {
                        ctx.fault_fired("message_dropped");
                    }
                },
                Step::Dup { pick } => {
                    let mut g = cl.net.lock().unwrap();
                    if !g.inflight.is_empty() {
                        let k = *pick as usize % g.inflight.len();
                        let mut m = g.inflight[k].clone();
                        g.next_id += 1;
                        m.id = g.next_id;
                        g.inflight.push(m);
                        drop(g);
                        ctx.fault_fired("message_duplicated");
                    }
                },
                Step::Tick { node } => {
                    let i = *node as usize % n;
                    if cl.up(i) {
                        cl.tick(i);
                        acted = Some(i);
                    }
                },
                Step::Timeout { node } => {
                    let i = *node as usize % n;
                    if cl.up(i) {
                        ctx.event(&format!("{si}: {} election timeout", ids[i]));
                        cl.election(i);
                        ctx.fp("timeout");
                        acted = Some(i);
                    }
                },
                Step::PreVote { node } => {
                    let i = *node as usize % n;
                    if cl.up(i) && case.pre_vote {
                        cl.pre_vote(i);
                        acted = Some(i);
                    }
                },
                Step::Heartbeat { pick } => {
                    let ls = cl.leaders();
                    if !ls.is_empty() {
                        let i = ls[*pick as usize % ls.len()];
                        cl.heartbeat(i);
                        acted = Some(i);
                    }
                },
                Step::Propose { pick, payload } => {
                    let ls = cl.leaders();
                    if !ls.is_empty() {
                        let i = ls[*pick as usize % ls.len()];
                        payload_seq += 1;
                        let pl = (u64::from(*payload) << 16) | payload_seq;
                        let fp = case.fast_path;
                        let id = ids[i].clone();
                        let r = cl.on_node(i, |nd| nd.propose(mk_block(pl, &id, fp)));
                        if let Some(Ok(idx)) = r {
                            ctx.event(&format!("{si}: {} proposes #{pl} at index {idx}", ids[i]));
                            ctx.probe("proposal_accepted");
                            ctx.fp("propose");
                        } else {
                            ctx.probe("proposal_refused");
                        }
                        acted = Some(i);
                    }
                },
                Step::ProposeMany { pick, n: count, payload } => {
                    let ls = cl.leaders();
                    if !ls.is_empty() {
                        let i = ls[*pick as usize % ls.len()];
                        let fp = case.fast_path;
                        let id = ids[i].clone();
                        let mut accepted = 0u32;
                        for _ in 0..*count {
                            payload_seq += 1;
                            let pl = (u64::from(*payload) << 16) | payload_seq;
                            if let Some(Ok(_)) = cl.on_node(i, |nd| nd.propose(mk_block(pl, &id, fp))) {
                                accepted += 1;
                            }
                        }
                        ctx.event(&format!("{si}: {} proposes {count} entries in a row ({accepted} accepted)", ids[i]));
                        if accepted >= 64 {
                            ctx.probe("long_run_of_proposals_accepted");
                        }
                        ctx.fp("propose-many");
                        acted = Some(i);
                    }
                },
                Step::CheckQuorum { pick } => {
                    let ls = cl.leaders();
                    if !ls.is_empty() {
                        let i = ls[*pick as usize % ls.len()];
                        cl.on_node(i, |nd| nd.check_quorum_health());
                        acted = Some(i);
                    }
                },
                Step::Advance { ms } => ctx.advance_ms(u64::from(*ms)),
                Step::Partition { mask } => {
                    let mut g = cl.net.lock().unwrap();
                    g.blocked.clear();
                    for a in 0..n {
                        for b in 0..n {
                            if a != b && ((mask >> a) & 1) != ((mask >> b) & 1) {
                                g.blocked.push((ids[a].clone(), ids[b].clone()));
                            }
                        }
                    }
                    if !g.blocked.is_empty() {
                        drop(g);
                        ctx.fault_fired("partition");
                        ctx.fp("partition");
                    }
                },
                Step::Heal => {
                    cl.net.lock().unwrap().blocked.clear();
                },
                Step::IsolateLeader { pick } => {
                    let ls = cl.leaders();
                    if !ls.is_empty() {
                        let l = ls[*pick as usize % ls.len()];
                        let mut g = cl.net.lock().unwrap();
                        for o in 0..n {
                            if o != l {
                                g.blocked.push((ids[l].clone(), ids[o].clone()));
                                g.blocked.push((ids[o].clone(), ids[l].clone()));
                            }
                        }
                        drop(g);
                        ctx.event(&format!("{si}: leader {} isolated", ids[l]));
                        ctx.fault_fired("leader_isolated");
                        ctx.fp("isolate_leader");
                    }
                },
                Step::Isolate { node } => {
                    let l = *node as usize % n;
                    let mut g = cl.net.lock().unwrap();
                    for o in 0..n {
                        if o != l {
                            g.blocked.push((ids[l].clone(), ids[o].clone()));
                            g.blocked.push((ids[o].clone(), ids[l].clone()));
                        }
                    }
                    drop(g);
                    ctx.fault_fired("node_isolated");
                },
                Step::Concurrent { node, a, b, pick_a, pick_b, sched, target } => {
                    let mut i = *node as usize % n;
                    let mut aimed: Option<u64> = None;
                    if *target == 1 {
                        let g = cl.net.lock().unwrap();
                        'find: for j in 0..n {
                            let Some(nd) = cl.nodes[j].as_ref() else { continue };
                            if nd.state() != RaftState::Leader {
                                continue;
                            }
                            let t = nd.current_term();
                            for m in &g.inflight {
                                if m.to == ids[j] && !g.blocked.iter().any(|(x, y)| *x == m.from && *y == m.to) && msg_term(&m.msg).is_some_and(|mt| mt > t) {
                                    i = j;
                                    aimed = Some(m.id);
                                    break 'find;
                                }
                            }
                        }
                    }
                    if aimed.is_some() {
                        ctx.probe("concurrent_call_on_leader_receiving_higher_term");
                    }
                    if let Some(nd) = cl.nodes[i].clone() {
                        // messages addressed to this node, taken out of the in-flight set
                        let take_msg = |pick: u16| -> Option<crate::net::InFlight> {
                            let mut g = cl.net.lock().unwrap();
                            let idxs: Vec<usize> = g
                                .inflight
                                .iter()
                                .enumerate()
                                .filter(|(_, m)| m.to == ids[i] && !g.blocked.iter().any(|(x, y)| *x == m.from && *y == m.to))
                                .map(|(k, _)| k)
                                .collect();
                            if idxs.is_empty() {
                                None
                            } else {
                                let k = match aimed.and_then(|id| idxs.iter().copied().find(|k| g.inflight[*k].id == id)) {
                                    Some(k) => k,
                                    None => idxs[pick as usize % idxs.len()],
                                };
                                Some(g.inflight.remove(k))
                            }
                        };
                        let ma = if *a == 0 { take_msg(*pick_a) } else { None };
                        let mb = if *b == 0 { take_msg(*pick_b) } else { None };
                        payload_seq += 2;
                        let mk_body = |kind: u8, m: Option<crate::net::InFlight>, pl: u64| -> crate::sched::Body {
                            let nd = nd.clone();
                            let net = cl.net.clone();
                            let id = ids[i].clone();
                            let fp = case.fast_path;
                            Box::new(move || {
                                crate::sched::yield_point("c01.start");
                                match (kind, m) {
                                    (0, Some(m)) => {
                                        if let Some(r) = nd.handle_message(&m.from, &m.msg) {
                                            let mut g = net.lock().unwrap();
                                            g.next_id += 1;
                                            let mid = g.next_id;
                                            g.inflight.push(crate::net::InFlight { id: mid, from: id.clone(), to: m.from.clone(), msg: r });
                                        }
                                    },
                                    (1, _) => {
                                        let _ = nd.propose(mk_block(pl, &id, fp));
                                    },
                                    (2, _) => {
                                        let _ = crate::net::now_or_never(nd.send_heartbeats());
                                    },
                                    (3, _) => {
                                        let _ = crate::net::now_or_never(nd.tick_async());
                                    },
                                    _ => {},
                                }
                            })
                        };
                        let bodies = vec![
                            mk_body(*a, ma.clone(), (0xC0 << 16) | payload_seq),
                            mk_body(*b, mb.clone(), (0xC1 << 16) | (payload_seq + 1)),
                        ];
                        ctx.event(&format!(
                            "{si}: {} concurrently: [{}] || [{}]",
                            ids[i],
                            ma.as_ref().map(|m| msg_brief(&m.msg)).unwrap_or_else(|| format!("op{a}")),
                            mb.as_ref().map(|m| msg_brief(&m.msg)).unwrap_or_else(|| format!("op{b}"))
                        ));
                        ctx.set_node(Some(&ids[i]));
                        let res = crate::sched::run_threads(ctx, sched, 4000, bodies);
                        ctx.set_node(None);
                        if res.deadlocked {
                            // liveness, not part of C01: noted, the run ends here
                            out.observations.push(format!("observation (not judged): two concurrent calls on one node deadlocked (ops {a} || {b})"));
                            out.nontrivial = !or.ledger.is_empty();
                            return out;
                        }
                        if res.exhausted {
                            out.harness_error = Some("C01 concurrent step exhausted its schedule budget".into());
                            return out;
                        }
                        if let Some(p) = res.panics.first() {
                            out.violation = Some(viol("panic-in-raft-code", format!("{}: {p}", ids[i])));
                            out.nontrivial = true;
                            return out;
                        }
                        if res.switches > 0 {
                            ctx.probe("two_calls_interleaved_inside_one_node");
                        }
                        ctx.fp("concurrent");
                        acted = Some(i);
                    }
                },
                Step::Crash { node, nth, bytes, cut } => {
                    let i = *node as usize % n;
                    if case.wal && cl.up(i) && armed.is_none() {
                        match nth {
                            None => {
                                ctx.event(&format!("{si}: {} crashes between steps", ids[i]));
                                ctx.kill(&ids[i]);
                                cl.nodes[i] = None;
                                views[i] = None;
                                let c = u64::from(*cut);
                                ctx.crash_image(&ids[i], true, |_, lo, hi| if c % 2 == 0 { hi } else { lo });
                                ctx.fault_fired("crash_between_steps");
                                ctx.fp("crash");
                            },
                            Some(k) => {
                                ctx.arm_crash(&ids[i], u64::from(*k), bytes.map(usize::from));
                                armed = Some((i, *cut));
                            },
                        }
                    }
                },
                Step::Restart { node } => {
                    let i = *node as usize % n;
                    if !cl.up(i) {
                        match cl.start(i) {
                            Ok(()) => {
                                ctx.event(&format!("{si}: {} restarts", ids[i]));
                                ctx.fault_fired("restart");
                                if case.emb_mask & (1 << i) != 0 {
                                    let mut e = vec![0.0f32; 8];
                                    e[i % 8] = 1.0;
                                    cl.on_node(i, |nd| nd.update_state_embedding_dense(&e));
                                }
                                if let Some(nd) = cl.nodes[i].as_ref() {
                                    if nd.log_length() > 0 {
                                        ctx.probe("restarted_with_nonempty_log");
                                    }
                                }
                                acted = Some(i);
                            },
                            Err(e) => {
                                out.observations.push(format!("observation: restart of a node failed ({}) — judged by C10, the node stays down here", e.chars().take(60).collect::<String>()));
                            },
                        }
                    }
                },
            }
            // did an armed crash fire during this step?
            if let Some((ci, cut)) = armed {
                if ctx.is_dead(&ids[ci]) {
                    ctx.event(&format!("{si}: {} crashes inside a WAL write", ids[ci]));
                    // nothing the dying node produced in this step is observable
                    cl.net.lock().unwrap().inflight.retain(|m| !(m.from == ids[ci] && m.id > mark));
                    cl.nodes[ci] = None;
                    views[ci] = None;
                    let c = u64::from(cut);
                    ctx.crash_image(&ids[ci], true, |_, lo, hi| match c {
                        0 => hi,
                        1 => lo,
                        _ => lo + (hi - lo) / 2,
                    });
                    ctx.fault_fired("crash_inside_wal_write");
                    ctx.fp("crash_in_write");
                    armed = None;
                    if acted == Some(ci) {
                        acted = None;
                    }
                }
            }
            if let Some(x) = acted {
                if cl.up(x) {
                    let before_role = views[x].as_ref().map(|v| v.role);
                    check!(x);
                    if let (Some(b), Some(v)) = (before_role, views[x].as_ref()) {
                        if b != v.role {
                            ctx.fp(role_str(v.role));
                        }
                        if v.role == RaftState::Leader && b != RaftState::Leader {
                            // did somebody hold an uncommitted suffix when leadership changed?
                            for (y, o) in views.iter().enumerate() {
                                if y != x {
                                    if let Some(o) = o {
                                        if o.img.log.len() as u64 > o.commit && o.img.log.len() > v.img.log.len() {
                                            ctx.probe("leader_changed_while_a_node_held_longer_uncommitted_log");
                                        }
                                    }
                                }
                            }
                        }
                    }
                }
            }
            let _ = total_steps;
        }

        // ---- fault-free tail: heal, restart everybody, let a leader emerge, commit one entry.
        // Liveness is not judged (probe only); the safety invariants keep being checked.
        ctx.disarm_crash();
        cl.net.lock().unwrap().blocked.clear();
        for i in 0..n {
            if !cl.up(i) {
                let _ = cl.start(i);
            }
        }
        for i in 0..n {
            if cl.up(i) {
                check!(i);
            }
        }
        // ---- adversarial completion (search heuristic, judged by the same oracle). If an entry
        // some node reported committed is held by fewer than a majority of the (restarted)
        // nodes, nothing stated has been violated yet — but the nodes that lack it form a
        // majority: cut the holders off, let the others elect a leader and commit, and the
        // stated clauses ("no node ever reports a different entry committed at that position",
        // "every later leader's log contains that entry") decide. Never entered on a tree
        // whose commit rule is sound.
        {
            let maj = n / 2 + 1;
            let sus = or.ledger.iter().find_map(|(idx, (ent, _))| {
                let holders: Vec<usize> = (0..n)
                    .filter(|x| views[*x].as_ref().is_some_and(|v| v.img.log.get(*idx as usize - 1) == Some(ent)))
                    .collect();
                (holders.len() < maj).then_some((*idx, holders))
            });
            if let Some((idx, holders)) = sus {
                ctx.probe("committed_entry_held_by_a_minority");
                ctx.event(&format!("tail: index {idx} was reported committed but only {:?} hold it: the other nodes are cut off from them", holders.iter().map(|h| ids[*h].clone()).collect::<Vec<_>>()));
                {
                    let mut g = cl.net.lock().unwrap();
                    g.inflight.clear();
                    for h in &holders {
                        for o in 0..n {
                            if !holders.contains(&o) {
                                g.blocked.push((ids[*h].clone(), ids[o].clone()));
                                g.blocked.push((ids[o].clone(), ids[*h].clone()));
                            }
                        }
                    }
                }
                let others: Vec<usize> = (0..n).filter(|x| !holders.contains(x) && cl.up(*x)).collect();
                let best = others.iter().copied().max_by_key(|i| views[*i].as_ref().map(|v| (v.img.log.last().map(|e| e.term).unwrap_or(0), v.img.log.len())).unwrap_or((0, 0)));
                if let Some(b) = best {
                    let drain = |cl: &Cluster| -> Vec<usize> {
                        let mut acted = Vec::new();
                        let mut guard = 0;
                        while let Some(m) = cl.take_inflight(0) {
                            guard += 1;
                            if guard > 2000 {
                                break;
                            }
                            if cl.blocked(&m.from, &m.to) {
                                continue;
                            }
                            if let Some(to) = cl.idx(&m.to) {
                                if cl.up(to) {
                                    cl.deliver(&m);
                                    acted.push(to);
                                }
                            }
                        }
                        acted
                    };
                    for attempt in 0..3 {
                        ctx.advance_ms(400);
                        cl.election(others[(others.iter().position(|x| *x == b).unwrap_or(0) + attempt) % others.len()]);
                        for x in drain(&cl) {
                            check!(x);
                        }
                        let lead = cl.leaders().into_iter().find(|l| others.contains(l));
                        if let Some(l) = lead {
                            for _ in 0..idx + 2 {
                                payload_seq += 1;
                                let id = ids[l].clone();
                                let fp = case.fast_path;
                                let _ = cl.on_node(l, |nd| nd.propose(mk_block((0xADAD << 16) | payload_seq, &id, fp)));
                                for _ in 0..2 {
                                    cl.heartbeat(l);
                                    for x in drain(&cl) {
                                        check!(x);
                                    }
                                }
                                check!(l);
                            }
                            break;
                        }
                    }
                }
                cl.net.lock().unwrap().blocked.clear();
                for i in 0..n {
                    if cl.up(i) {
                        check!(i);
                    }
                }
            }
        }
        let mut committed_in_tail = false;
        'tail: for round in 0..12 {
            // deliver everything
            let mut guard = 0;
            while let Some(m) = cl.take_inflight(0) {
                guard += 1;
                if guard > 2000 {
                    break;
                }
                if let Some(to) = cl.idx(&m.to) {
                    if cl.up(to) {
                        cl.deliver(&m);
                        check!(to);
                    }
                }
            }
            let ls = cl.leaders();
            // the leader of the highest term
            let lead = ls.iter().copied().max_by_key(|i| views[*i].as_ref().map(|v| v.img.term).unwrap_or(0));
            match lead {
                Some(l) => {
                    let before = cl.nodes[l].as_ref().map(|nd| nd.commit_index()).unwrap_or(0);
                    cl.heartbeat(l);
                    let mut g2 = 0;
                    while let Some(m) = cl.take_inflight(0) {
                        g2 += 1;
                        if g2 > 2000 {
                            break;
                        }
                        if let Some(to) = cl.idx(&m.to) {
                            if cl.up(to) {
                                cl.deliver(&m);
                                check!(to);
                            }
                        }
                    }
                    payload_seq += 1;
                    let id = ids[l].clone();
                    let fp = case.fast_path;
                    let r = cl.on_node(l, |nd| nd.propose(mk_block((0xFFFF << 16) | payload_seq, &id, fp)));
                    if let Some(Ok(idx)) = r {
                        for _ in 0..3 {
                            cl.heartbeat(l);
                            let mut g3 = 0;
                            while let Some(m) = cl.take_inflight(0) {
                                g3 += 1;
                                if g3 > 2000 {
                                    break;
                                }
                                if let Some(to) = cl.idx(&m.to) {
                                    if cl.up(to) {
                                        cl.deliver(&m);
                                        check!(to);
                                    }
                                }
                            }
                        }
                        check!(l);
                        let after = cl.nodes[l].as_ref().map(|nd| nd.commit_index()).unwrap_or(0);
                        if after >= idx && after > before {
                            committed_in_tail = true;
                            break 'tail;
                        }
                    }
                },
                None => {
                    // time out the node with the most up-to-date log
                    let best = (0..n)
                        .filter(|i| cl.up(*i))
                        .max_by_key(|i| views[*i].as_ref().map(|v| (v.img.log.last().map(|e| e.term).unwrap_or(0), v.img.log.len())).unwrap_or((0, 0)));
                    if let Some(b) = best {
                        ctx.advance_ms(400);
                        cl.election((b + round) % n);
                        check!((b + round) % n);
                    }
                },
            }
        }
        if committed_in_tail {
            ctx.probe("tail_committed_after_faults_stopped");
        } else {
            ctx.probe("tail_did_not_commit");
        }
        out.nontrivial = !or.ledger.is_empty() && or.leaders.len() >= 1;
        out
    }

    fn shrink(&self, case: &Case) -> Vec<Case> {
        let mut v = Vec::new();
        for steps in drop_chunks(&case.steps) {
            let mut c = case.clone();
            c.steps = steps;
            v.push(c);
        }
        for flag in 0..5 {
            let mut c = case.clone();
            let changed = match flag {
                0 => std::mem::replace(&mut c.pre_vote, false),
                1 => std::mem::replace(&mut c.fast_path, false),
                2 => std::mem::replace(&mut c.geo, false),
                3 => std::mem::replace(&mut c.backoff, false),
                _ => {
                    let ch = c.emb_mask != 0;
                    c.emb_mask = 0;
                    ch
                },
            };
            if changed {
                v.push(c);
            }
        }
        if case.n == 5 {
            let mut c = case.clone();
            c.n = 3;
            v.push(c);
        }
        // reordering picks -> FIFO
        for (i, s) in case.steps.iter().enumerate() {
            if let Step::Deliver { pick } = s {
                if *pick != 0 {
                    let mut c = case.clone();
                    c.steps[i] = Step::Deliver { pick: 0 };
                    v.push(c);
                }
            }
        }
        v
    }

    fn required_probes(&self) -> Vec<&'static str> {
        vec![
            "leader_elected",
            "leader_changed",
            "entry_committed",
            "proposal_accepted",
            "append_refused",
            "vote_refused",
            "restarted_with_nonempty_log",
            "tail_committed_after_faults_stopped",
            "stale_term_response_delivered_to_leader",
        ]
    }
    fn rule(&self) -> String {
        "A case is a cluster configuration (3 or 5 voters, WAL on/off, pre-vote / fast-path / geometric tie-break / adaptive back-off each on or off, which nodes carry a state embedding) plus a list of 40-400 steps (deliver / drop / duplicate a chosen in-flight message, tick, election timeout, pre-vote, heartbeat, proposal, quorum check, clock advance, partition, heal, crash between steps or inside the k-th WAL syscall with a byte cut, restart), with per-run fault weights (swarm). After every step the acting node is re-imaged and the six Raft invariants are checked against all live nodes and the global commit ledger; a fault-free tail then has to commit one more entry (probe only). Non-trivial: a leader was elected and at least one entry was reported committed. Distinct: hash of the sequence of (delivered message kinds, role changes, proposals, partitions, crashes).".into()
    }
    fn components(&self) -> Value {
        json!({
            "real": ["tensor_chain::RaftNode: handle_message (all Raft handlers), start_election_async, start_pre_vote_async, tick_async, send_heartbeats, propose, check_quorum_health, with_wal recovery", "RaftWal", "Message types"],
            "simulated": ["network: SimTransport + kernel-owned in-flight set (loss, duplication, reordering, partitions)", "monotonic clock (heartbeat / election / QuorumTracker timing)", "OS randomness (election jitter, HashMap order)", "disk + crashes for WAL-backed nodes"],
            "stub": ["RaftNode::run's tokio select loop is replaced by the kernel calling the same entry points", "TCP transport, TLS, state-machine apply are not in the path"]
        })
    }
    fn assumptions(&self) -> Vec<String> {
        vec![
            "fixed membership; logs stay below the snapshot threshold (no compaction / InstallSnapshot)".into(),
            "nodes without a WAL never crash (Raft requires durable state); WAL-backed nodes crash under the power-loss model".into(),
            "leader completeness is checked only for leaders whose term is greater than the term of the node that first reported the entry committed (weaker than the textbook statement, never stronger)".into(),
        ]
    }
}
