#!/bin/sh
# determinism.sh <ID> [runs] [seed]: execute the first <runs> cases of a scenario in two fresh
# processes with different worker counts and compare per-case event-log digests, trace
# fingerprints and verdict classes. Any difference is a harness error (exit 2).
cd "$(dirname "$0")/.." || exit 2
id="$1"; n="${2:-1000}"; seed="${3:-20260925}"
VERIF_SEED=$seed ./sim/target/release/nsim digests "$id" --runs "$n" --jobs 3 > /tmp/det_$id.a 2>/dev/null
VERIF_SEED=$seed ./sim/target/release/nsim digests "$id" --runs "$n" --jobs 16 > /tmp/det_$id.b 2>/dev/null
if cmp -s /tmp/det_$id.a /tmp/det_$id.b; then
  echo "$id: $(wc -l < /tmp/det_$id.a) cases identical across processes and worker counts (seed $seed); $(grep -vc ' held$' /tmp/det_$id.a) non-held verdicts"
else
  echo "$id: NONDETERMINISM"; diff /tmp/det_$id.a /tmp/det_$id.b | head -5; exit 2
fi
