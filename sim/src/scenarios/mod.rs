pub mod c02;
