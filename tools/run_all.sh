#!/bin/sh
# run_all.sh [quick|thorough]: every registered check in sequence, then validate evidence against the schema.
tier="${1:-quick}"; cd "$(dirname "$0")/.." || exit 2
rc=0
for p in $(python3 -c "import json;print(' '.join(c['property_id'] for c in json.load(open('MANIFEST.json'))['checks']))"); do
  start=$(date +%s)
  ./check "$p" --tier "$tier" > "/tmp/run_all_$p.log" 2>&1; code=$?
  end=$(date +%s)
  echo "$p exit=$code $((end-start))s $(grep -c '^KNOWN-FINDING' /tmp/run_all_$p.log) known  $(grep -E 'nsim: property=' /tmp/run_all_$p.log | tail -1 | cut -c1-160)"
  [ $code -ne 0 ] && rc=1
done
python3-vt - <<'PY'
import json,jsonschema,sys
s=json.load(open('/root/.vp/EVIDENCE.schema.json'))
m=json.load(open('MANIFEST.json'))
jsonschema.validate(m,json.load(open('/root/.vp/MANIFEST.schema.json')))
bad=0
for c in m['checks']:
    try: jsonschema.validate(json.load(open(c['evidence_file'])),s)
    except Exception as e: print('EVIDENCE INVALID',c['property_id'],str(e)[:200]); bad=1
print('schemas', 'ok' if not bad else 'BAD')
PY
exit $rc
