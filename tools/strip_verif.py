#!/usr/bin/env python3
"""strip_verif.py <file>: remove every statement guarded by #[cfg(feature = "neumann_verif")]
(the attribute line plus the following statement: either up to the first ';' at brace depth 0
or a brace-balanced block). Used to split an agent's combined patch into fix and hook commits."""
import sys,re
src=open(sys.argv[1]).read().split('\n')
out=[];i=0
while i<len(src):
    line=src[i]
    if line.strip()=='#[cfg(feature = "neumann_verif")]':
        # also drop a comment line directly above that belongs to it? keep comments.
        i+=1
        depth=0;started=False
        while i<len(src):
            l=src[i]
            for ch in l:
                if ch=='{': depth+=1;started=True
                elif ch=='}': depth-=1
            i+=1
            if depth==0 and (l.rstrip().endswith(';') or (started and l.strip().endswith('}'))):
                break
        # do not leave two blank lines (or a blank line before a closing brace) behind
        if out and out[-1].strip()=='' and i<len(src) and (src[i].strip()=='' or src[i].strip().startswith('}')):
            out.pop()
        continue
    out.append(line);i+=1
open(sys.argv[1],'w').write('\n'.join(out))
