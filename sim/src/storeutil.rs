//! Shared helpers for scenarios over `TensorStore`: value generation over all
//! value kinds, canonical (hash-order independent, bit-exact) dumps.

use std::collections::BTreeMap;
use tensor_store::{ScalarValue, SparseVector, TensorData, TensorStore, TensorValue};

pub fn canon_value(v: &TensorValue) -> String {
    match v {
        TensorValue::Scalar(s) => match s {
            ScalarValue::Null => "null".into(),
            ScalarValue::Bool(b) => format!("b:{b}"),
            ScalarValue::Int(i) => format!("i:{i}"),
            ScalarValue::Float(f) => format!("f:{:016x}", f.to_bits()),
            ScalarValue::String(s) => format!("s:{s:?}"),
            ScalarValue::Bytes(b) => format!("x:{}", hex(b)),
        },
        TensorValue::Vector(v) => {
            let mut s = String::from("v:");
            for x in v {
                s.push_str(&format!("{:08x},", x.to_bits()));
            }
            s
        },
        TensorValue::Sparse(sv) => {
            let d = sv.to_dense();
            let mut s = format!("sp{}:", sv.dimension());
            for x in d {
                s.push_str(&format!("{:08x},", x.to_bits()));
            }
            s
        },
        TensorValue::Pointer(p) => format!("p:{p:?}"),
        TensorValue::Pointers(ps) => format!("ps:{ps:?}"),
    }
}

pub fn hex(b: &[u8]) -> String {
    let mut s = String::with_capacity(b.len() * 2);
    for x in b {
        s.push_str(&format!("{x:02x}"));
    }
    s
}

pub fn canon_data(d: &TensorData) -> String {
    let mut fields: Vec<(&String, &TensorValue)> = d.iter().collect();
    fields.sort_by(|a, b| a.0.cmp(b.0));
    let mut s = String::from("{");
    for (k, v) in fields {
        s.push_str(k);
        s.push('=');
        s.push_str(&canon_value(v));
        s.push(';');
    }
    s.push('}');
    s
}

/// Full observable content of a store through public reads, `_cache:` keys
/// excluded when `skip_cache` (documented as non-durable).
pub fn dump_store(store: &TensorStore, skip_cache: bool) -> BTreeMap<String, String> {
    let mut out = BTreeMap::new();
    let mut keys = store.scan("");
    keys.sort();
    keys.dedup();
    for k in keys {
        if skip_cache && k.starts_with("_cache:") {
            continue;
        }
        match store.get(&k) {
            Ok(d) => {
                out.insert(k, canon_data(&d));
            },
            Err(_) => {
                out.insert(k, "<listed-by-scan-but-get-fails>".into());
            },
        }
    }
    out
}

pub const KEY_UNIVERSE: &[&str] = &[
    "plain:a", "plain:b", "emb:a", "emb:b", "node:1", "edge:1", "table:t:1", "_cache:c", "user:x", "_blob:meta:z",
];

/// A value of kind `kind` made unique by `u` (so that every written value is
/// attributable to exactly one operation).
pub fn gen_value(kind: u8, u: u32) -> TensorData {
    let mut d = TensorData::new();
    d.set("_u", TensorValue::Scalar(ScalarValue::Int(i64::from(u))));
    match kind % 12 {
        0 => d.set("n", TensorValue::Scalar(ScalarValue::Null)),
        1 => d.set("b", TensorValue::Scalar(ScalarValue::Bool(u % 2 == 0))),
        2 => d.set("i", TensorValue::Scalar(ScalarValue::Int(if u % 2 == 0 { i64::MIN } else { i64::MAX - i64::from(u) }))),
        3 => d.set(
            "f",
            TensorValue::Scalar(ScalarValue::Float(match u % 4 {
                0 => f64::NAN,
                1 => f64::INFINITY,
                2 => -0.0,
                _ => f64::from(u) * 1.5e-300,
            })),
        ),
        4 => d.set("s", TensorValue::Scalar(ScalarValue::String(format!("str-é-{u}-\u{1F600}")))),
        5 => d.set("x", TensorValue::Scalar(ScalarValue::Bytes((0..(u % 37) as u8).collect()))),
        6 => d.set("v", TensorValue::Vector((0..(1 + u % 5)).map(|i| i as f32 * 0.25 + u as f32).collect())),
        7 => {
            let mut sv = SparseVector::new(16);
            sv.set((u % 16) as usize, 1.0 + u as f32);
            d.set("sp", TensorValue::Sparse(sv));
        },
        8 => d.set("p", TensorValue::Pointer(format!("node:{u}"))),
        9 => d.set("ps", TensorValue::Pointers(vec![format!("edge:{u}"), "node:1".into()])),
        10 => d.set("_embedding", TensorValue::Vector((0..384).map(|i| ((i as u32 ^ u) % 97) as f32 * 0.5).collect())),
        _ => {
            d.set("_embedding", TensorValue::Vector(vec![u as f32, 1.0, 2.0]));
            d.set("label", TensorValue::Scalar(ScalarValue::String(format!("L{u}"))));
        },
    }
    d
}

/// Dimension from which the embedding slab may store a vector lossily
/// (tensor-train, `TT_MIN_DIMENSION` in embedding_slab.rs) when snapshotted.
pub const LOSSY_MIN_DIM: usize = 256;

/// Equality of two values as the properties state it: bit-exact, except that
/// vectors of at least `LOSSY_MIN_DIM` elements may differ by the documented
/// reconstruction error (relative L2 error <= `tol`).
pub fn value_equiv(a: &TensorValue, b: &TensorValue, tol: f32) -> bool {
    match (a, b) {
        (TensorValue::Vector(x), TensorValue::Vector(y)) if x.len() == y.len() && x.len() >= LOSSY_MIN_DIM => {
            if canon_value(a) == canon_value(b) {
                return true;
            }
            let mut num = 0f64;
            let mut den = 0f64;
            for (p, q) in x.iter().zip(y.iter()) {
                if !p.is_finite() || !q.is_finite() {
                    return false;
                }
                num += f64::from(p - q) * f64::from(p - q);
                den += f64::from(*p) * f64::from(*p);
            }
            num.sqrt() <= f64::from(tol) * den.sqrt().max(1e-9)
        },
        _ => canon_value(a) == canon_value(b),
    }
}

pub fn data_equiv(a: &TensorData, b: &TensorData, tol: f32) -> bool {
    if a.len() != b.len() {
        return false;
    }
    a.iter().all(|(k, v)| b.get(k).is_some_and(|w| value_equiv(v, w, tol)))
}

pub fn maps_equiv(a: &BTreeMap<String, TensorData>, b: &BTreeMap<String, TensorData>, tol: f32) -> bool {
    a.len() == b.len() && a.iter().all(|(k, v)| b.get(k).is_some_and(|w| data_equiv(v, w, tol)))
}

/// Like `dump_store` but keeps the values (for tolerant comparison). A key that
/// scan lists but get cannot read maps to a marker value.
pub fn dump_store_data(store: &TensorStore, skip_cache: bool) -> BTreeMap<String, TensorData> {
    let mut out = BTreeMap::new();
    let mut keys = store.scan("");
    keys.sort();
    keys.dedup();
    for k in keys {
        if skip_cache && k.starts_with("_cache:") {
            continue;
        }
        match store.get(&k) {
            Ok(d) => {
                out.insert(k, d);
            },
            Err(_) => {
                let mut d = TensorData::new();
                d.set("<listed-by-scan-but-get-fails>", TensorValue::Scalar(ScalarValue::Null));
                out.insert(k, d);
            },
        }
    }
    out
}

pub fn canon_map(m: &BTreeMap<String, TensorData>) -> BTreeMap<String, String> {
    m.iter().map(|(k, v)| (k.clone(), canon_data(v))).collect()
}
